#!/venv/bin/python
"""copy a validated seeded change into /verif/seeded/<name>/ and add the validation record to meta.json
usage: record_seeded.py <src dir> key=value ...   (keys: demo_clean, demo_mutant, suite, caught_by, missed_by, notes)"""
import json, os, shutil, sys
src = sys.argv[1].rstrip("/"); name = os.path.basename(src)
dst = os.path.join("/verif/seeded", name); os.makedirs(dst, exist_ok=True)
for f in ("patch.diff", "demo.py"):
    shutil.copy2(os.path.join(src, f), os.path.join(dst, f))
meta = json.load(open(os.path.join(src, "meta.json")))
val = meta.get("validation", {})
for kv in sys.argv[2:]:
    k, _, v = kv.partition("=")
    val[k] = v
meta["validation"] = val
json.dump(meta, open(os.path.join(dst, "meta.json"), "w"), indent=1)
print("recorded", dst, val)
