#!/bin/bash
# validate one seeded change: tools/validate_seeded.sh <dir with patch.diff demo.py meta.json> [--suite]
# 1. demo passes on /repo HEAD, 2. patch applies to a scratch worktree, 3. demo fails there,
# 4. (--suite) the existing test suite still passes there, 5. run the check of the property on a scratch copy of /verif.
set -u
D=$(realpath "$1"); NAME=$(basename "$D"); SUITE=${2:-}
W=/tmp/sv_$NAME; VC=/tmp/svv_$NAME
PID=$(/venv/bin/python -c "import json;print(json.load(open('$D/meta.json'))['property'])" 2>/dev/null)
git -C /repo worktree remove --force $W 2>/dev/null; rm -rf $W $VC
git -C /repo worktree add -q --detach $W HEAD || exit 3
echo "== $NAME property=$PID"
( cd /tmp && PYTHONPATH=/repo timeout 600 /venv/bin/python -W ignore $D/demo.py >/tmp/sv_${NAME}_clean.log 2>&1 ); echo "demo on clean: exit $?"
if ! git -C $W apply $D/patch.diff 2>/tmp/sv_${NAME}_apply.log; then echo "PATCH DOES NOT APPLY"; cat /tmp/sv_${NAME}_apply.log | head -5; git -C /repo worktree remove --force $W; exit 4; fi
( cd /tmp && PYTHONPATH=$W timeout 600 /venv/bin/python -W ignore $D/demo.py >/tmp/sv_${NAME}_mut.log 2>&1 ); echo "demo on mutant: exit $?"
if [ "$SUITE" = "--suite" ]; then
  # (one thread per worker: BLAS / numba thread pools oversubscribe the machine when several suites run side by side)
  OMP_NUM_THREADS=1 OPENBLAS_NUM_THREADS=1 MKL_NUM_THREADS=1 NUMBA_NUM_THREADS=1 NUMEXPR_NUM_THREADS=1 \
  BASELINE_REPO=$W BASELINE_JOBS=${JOBS:-0} /venv/bin/python /verif/tools/baseline.py 2>&1 | grep -v WARN | tail -6
fi
cp -r /verif $VC; rm -rf $VC/.git $VC/evidence $VC/replay
CW=$(/venv/bin/python -c "import json;print(json.load(open('$D/meta.json')).get('validation',{}).get('check_with',''))" 2>/dev/null)
for P in ${CHECKS:-${CW:-$PID}}; do
  ( cd $VC && FLOX_REPO=$W timeout 3000 ./check $P --tier ${TIER:-quick} 2>&1 | grep -v WARN | tail -3
    for r in $(ls -t replay/$P-*.json 2>/dev/null | head -1); do /venv/bin/python -c "
import json,sys; d=json.load(open('$r')); print('replay kind=%s n_failing=%s detail=%s' % (d.get('kind'), d.get('n_failing'), str(d.get('detail') or d.get('no_longer_checks'))[:400]))"; done )
done
git -C /repo worktree remove --force $W; rm -rf $VC
