#!/venv/bin/python
"""detect duplicate fully-qualified declaration names across lean/FloxProofs, FloxProps, FloxModel"""
import re,glob,collections,sys,os
os.chdir(os.path.join(os.path.dirname(os.path.abspath(__file__)),'..','lean'))
names=collections.defaultdict(list)
for f in glob.glob('FloxProofs/*.lean')+glob.glob('FloxModel/*.lean')+glob.glob('FloxProps/*.lean'):
    src=re.sub(r"/-.*?-/","",open(f).read(),flags=re.S)
    cur=[]
    for line in src.split('\n'):
        m=re.match(r'^namespace\s+(\S+)',line)
        if m: cur.append(m.group(1)); continue
        m=re.match(r'^end\s+(\S+)',line)
        if m and cur and cur[-1]==m.group(1): cur.pop(); continue
        m=re.match(r"^(?:@\[[^\]]*\]\s*)?(?:private\s+|protected\s+)?(?:theorem|lemma|def|abbrev|structure|inductive|instance)\s+([A-Za-z_][A-Za-z0-9_'.]*)",line)
        if m and not line.startswith('private'): names['.'.join(cur)+'.'+m.group(1)].append(f)
bad={k:v for k,v in names.items() if len(set(v))>1}
for k,v in bad.items(): print(k,sorted(set(v)))
sys.exit(1 if bad else 0)
