#!/venv/bin/python
"""write /verif/seeded/README.md from the meta.json records"""
import json, os
root = "/verif/seeded"
rows = []
for name in sorted(os.listdir(root)):
    p = os.path.join(root, name, "meta.json")
    if not os.path.exists(p):
        continue
    m = json.load(open(p))
    v = m.get("validation", {})
    def cell(x):
        return str(x or "").replace("|", "/").replace("\n", " ")
    rows.append((name, m.get("property"), cell(m.get("summary"))[:260], cell(m.get("what_it_needs_to_manifest"))[:260],
                 cell(v.get("demo_clean")), cell(v.get("demo_mutant")), cell(v.get("suite")), cell(v.get("caught_by") or v.get("status")),
                 cell(v.get("missed_by"))))
out = ["# Seeded changes", "",
       "Changes to flox written by independent sub-agents (given only a property's text and a scratch worktree; `origin` in",
       "meta.json marks the two re-applied by hand after a repair rewrote the lines they touch). Each directory holds",
       "`patch.diff`, `demo.py` (PASS on the unchanged tree, FAIL with the patch) and `meta.json` (what the change is, what it",
       "needs to manifest, the tests the author ran, and my validation record). None is ever committed to /repo.", "",
       "Replay one: `tools/validate_seeded.sh seeded/<id> [--suite]` (scratch worktree of /repo HEAD + scratch copy of /verif;",
       "`CHECKS=\"C03 C09\"` selects other checks); all of them: `tools/revalidate_all.sh [--suite]`.", "",
       "| id | property | change | needs | demo clean / mutant | test suite with the patch | caught by | missed by (before strengthening) |",
       "|---|---|---|---|---|---|---|---|"]
for r in rows:
    out.append(f"| {r[0]} | {r[1]} | {r[2]} | {r[3]} | {r[4]} / {r[5]} | {r[6]} | {r[7]} | {r[8]} |")
open(os.path.join(root, "README.md"), "w").write("\n".join(out) + "\n")
print(len(rows), "rows")
