#!/bin/bash
# create a private working copy of the framework for a sub-agent: tools/mkcopy.sh <name>
set -e
d=/tmp/w$1
rm -rf $d; mkdir -p $d
cp -r /verif $d/verif
rm -rf $d/verif/.git $d/verif/replay $d/verif/evidence
echo $d/verif
