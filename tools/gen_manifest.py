#!/venv/bin/python
"""Regenerate MANIFEST.json from the per-property table below (keeps it valid at all times)."""
import json, os, sys
sys.path.insert(0, os.path.dirname(os.path.dirname(os.path.abspath(__file__))))
from harness.manifest_data import CHECKS, NOT_APPLICABLE, NOTES

HERE = os.path.dirname(os.path.dirname(os.path.abspath(__file__)))
m = {
    "version": 1,
    "setup_cmd": "cd lean && /venv/bin/python ../translator/gen_tables.py && lake build driver FloxProofs FloxProps",
    "hooks": {
        "guard": "FLOX_VERIF",
        "enable": "no source hooks are needed: the harness observes the resolved plan by wrapping flox.core.dask_groupby_agg / _choose_engine from outside (FLOX_VERIF=1 is exported by ./check only for symmetry)",
        "baseline_off_cmd": "/venv/bin/python /verif/tools/baseline.py",
        "source_commits": [],
        "add_only": True,
    },
    "engines": [
        {"name": "lean-model", "path": "lean/", "serves_properties": [c["property_id"] for c in CHECKS],
         "kind_free_text": "Lean 4 model + spec + theorems (lake project flox_model: FloxModel, FloxProofs, FloxProps) and native line-protocol driver"},
        {"name": "translator", "path": "translator/gen_tables.py", "serves_properties": [c["property_id"] for c in CHECKS],
         "kind_free_text": "regenerates lean/FloxModel/Generated/*.lean from the live /repo code on every run"},
        {"name": "harness", "path": "harness/", "serves_properties": [c["property_id"] for c in CHECKS],
         "kind_free_text": "differential correspondence harness (real flox in-process vs Lean driver vs NumPy oracle), failing-input search, evidence"},
    ],
    "checks": CHECKS,
    "not_applicable": NOT_APPLICABLE,
    "notes": NOTES,
}
json.dump(m, open(os.path.join(HERE, "MANIFEST.json"), "w"), indent=1)
print("MANIFEST.json written:", len(CHECKS), "checks,", len(NOT_APPLICABLE), "not applicable")
