#!/bin/bash
# re-validate every recorded seeded change against /repo's current HEAD and the current checks
# usage: tools/revalidate_all.sh [--suite] ; env PAR (parallel mutants, default 4), JOBS (xdist workers per suite run, default 3)
# logs: /tmp/reval/<name>.log ; summary: /tmp/reval/SUMMARY.txt
SUITE=${1:-}
PAR=${PAR:-4}
mkdir -p /tmp/reval
cd /verif
ls seeded | grep -v obsolete | grep -v README | xargs -P $PAR -I{} bash -c "JOBS=${JOBS:-3} tools/validate_seeded.sh /verif/seeded/{} $SUITE > /tmp/reval/{}.log 2>&1"
for f in /tmp/reval/C*.log; do n=$(basename $f .log); echo "$n: $(grep -c 'VIOLATION' $f) violation-line(s); $(grep -h 'demo on\|baseline:\|PATCH DOES NOT' $f | tr '\n' ';')"; done > /tmp/reval/SUMMARY.txt
cat /tmp/reval/SUMMARY.txt
