#!/venv/bin/python
"""Run flox's own test suite (guard FLOX_VERIF off) and compare with /root/.vp/BASELINE.json stable_pass."""
import json, os, subprocess, sys, tempfile
import xml.etree.ElementTree as ET

base = json.load(open("/root/.vp/BASELINE.json"))
want = set(base["stable_pass"])
env = dict(os.environ)
env.pop("FLOX_VERIF", None)
repo = os.environ.get("BASELINE_REPO", "/repo")
env["PYTHONPATH"] = repo
with tempfile.TemporaryDirectory() as td:
    xml = os.path.join(td, "junit.xml")
    jobs = os.environ.get("BASELINE_JOBS", "0")   # 0 = serial, exactly the command of BASELINE.json (xdist under load trips hypothesis deadlines)
    cmd = ["/venv/bin/python", "-m", "pytest", "-ra", "-q", "-p", "no:cacheprovider", "--timeout=900",
           "--continue-on-collection-errors", f"--junitxml={xml}"] + (["-n", jobs] if jobs != "0" else [])
    p = subprocess.run(cmd, cwd=repo, env=env, capture_output=True, text=True)
    passed = set()
    for tc in ET.parse(xml).getroot().iter("testcase"):
        if not any(ch.tag in ("failure", "error", "skipped") for ch in tc):
            passed.add(f"{tc.get('classname')}::{tc.get('name')}")
missing = sorted(want - passed)
print(f"baseline: {len(want)} stable tests, {len(want & passed)} passed now, {len(missing)} missing")
for m in missing[:40]:
    print("  NOT PASSING:", m)
sys.exit(1 if missing else 0)
