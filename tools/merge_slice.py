#!/venv/bin/python
"""merge a sub-agent's slice copy (/tmp/w<ID>/verif) into /verif: new files are copied, shared files are merged by union.
usage: merge_slice.py <ID> [--dry]"""
import os, re, shutil, sys, json, difflib
ID = sys.argv[1]; dry = "--dry" in sys.argv
S = f"/tmp/w{ID}/verif"; V = "/verif"
skip_dirs = {".lake", "__pycache__", "evidence", "replay", ".git", "scratch"}
shared = {"lean/Driver.lean", "lean/FloxModel.lean", "harness/main.py", "harness/manifest_data.py", "harness/findings.py",
          "KNOWN_FINDINGS.json", "MANIFEST.json", "lean/lakefile.toml", "translator/gen_tables.py", "harness/framework.py",
          "harness/core.py", "DESIGN.md", "docs/BUILDING.md", "lean/lake-manifest.json", ".gitignore", "check", "harness/graphexec.py",
          "harness/reduce_ops.py", "harness/props_reduce.py", "lean/DriverOps/Common.lean", "lean/DriverOps/Reduce.lean", "tools/gen_manifest.py"}
new, changed = [], []
for root, dirs, files in os.walk(S):
    dirs[:] = [d for d in dirs if d not in skip_dirs]
    for fn in files:
        p = os.path.join(root, fn); rel = os.path.relpath(p, S)
        if rel.startswith("lean/FloxModel/Generated/") or fn.endswith(".pyc") or fn == ".build.lock":
            continue
        q = os.path.join(V, rel)
        if not os.path.exists(q):
            new.append(rel)
        elif open(p, "rb").read() != open(q, "rb").read():
            changed.append(rel)
print("NEW:", new)
print("CHANGED:", changed)
if dry: sys.exit(0)
for rel in new:
    os.makedirs(os.path.dirname(os.path.join(V, rel)), exist_ok=True)
    shutil.copy2(os.path.join(S, rel), os.path.join(V, rel))
def rd(base, rel): return open(os.path.join(base, rel)).read()
# Driver.lean
if "lean/Driver.lean" in changed:
    s, v = rd(S, "lean/Driver.lean"), rd(V, "lean/Driver.lean")
    imps = [l for l in s.split("\n") if l.startswith("import ") and l not in v]
    ops = re.findall(r'\("([^"]+)",\s*(handle\w+)\)', s)
    vops = re.findall(r'\("([^"]+)",\s*(handle\w+)\)', v)
    addops = [o for o in ops if o not in vops]
    if imps:
        last = max(i for i, l in enumerate(v.split("\n")) if l.startswith("import "))
        lines = v.split("\n"); lines[last+1:last+1] = imps; v = "\n".join(lines)
    if addops:
        m = re.search(r"def ops[^\n]*\n\s*\[(.*?)\]\n", v, flags=re.S)
        inner = m.group(1).rstrip()
        inner2 = inner + ",\n    " + ", ".join(f'("{a}", {b})' for a, b in addops) + " "
        v = v[:m.start(1)] + inner2 + v[m.end(1):]
    open(os.path.join(V, "lean/Driver.lean"), "w").write(v)
    print("Driver.lean: +imports", imps, "+ops", addops)
if "lean/FloxModel.lean" in changed:
    s, v = rd(S, "lean/FloxModel.lean"), rd(V, "lean/FloxModel.lean")
    add = [l for l in s.split("\n") if l.startswith("import ") and l not in v.split("\n")]
    if add:
        open(os.path.join(V, "lean/FloxModel.lean"), "w").write(v.rstrip("\n") + "\n" + "\n".join(add) + "\n")
        print("FloxModel.lean: +", add)
if "harness/main.py" in changed:
    s, v = rd(S, "harness/main.py"), rd(V, "harness/main.py")
    ents = re.findall(r'^\s+"(C\d+)":\s*"([^"]+)",', s, flags=re.M)
    vents = dict(re.findall(r'^\s+"(C\d+)":\s*"([^"]+)",', v, flags=re.M))
    add = [(a, b) for a, b in ents if a not in vents]
    if add:
        v = v.replace("PROPS = {\n", "PROPS = {\n" + "".join(f'    "{a}": "{b}",\n' for a, b in add))
        open(os.path.join(V, "harness/main.py"), "w").write(v); print("main.py: +", add)
if "harness/manifest_data.py" in changed:
    s, v = rd(S, "harness/manifest_data.py"), rd(V, "harness/manifest_data.py")
    m = re.search(r'^    chk\("%s",.*?^    \),?$|^    chk\("%s",.*?\),\n(?=    chk|\])' % (ID, ID), s, flags=re.S | re.M)
    if m and f'chk("{ID}"' not in v:
        blk = m.group(0).rstrip()
        if not blk.endswith(","): blk += ","
        v = v.replace("\n]\n\n_PENDING", "\n" + blk + "\n]\n\n_PENDING")
        open(os.path.join(V, "harness/manifest_data.py"), "w").write(v); print("manifest_data.py: + chk", ID, len(blk))
    else:
        print("manifest_data.py: chk block not found or already present", bool(m))
if "harness/findings.py" in changed:
    s, v = rd(S, "harness/findings.py"), rd(V, "harness/findings.py")
    sl, vl = s.split("\n"), v.split("\n")
    sm = difflib.SequenceMatcher(None, vl, sl, autojunk=False)
    added = []
    for tag, i1, i2, j1, j2 in sm.get_opcodes():
        if tag in ("insert", "replace"):
            added += sl[j1:j2]
    print("findings.py: lines only in slice:\n" + "\n".join(added))
if "KNOWN_FINDINGS.json" in changed:
    s, v = json.load(open(os.path.join(S, "KNOWN_FINDINGS.json"))), json.load(open(os.path.join(V, "KNOWN_FINDINGS.json")))
    have = {f["id"] for f in v["findings"]}
    add = [f for f in s["findings"] if f["id"] not in have and f["id"].startswith(ID)]
    v["findings"] += add
    json.dump(v, open(os.path.join(V, "KNOWN_FINDINGS.json"), "w"), indent=1); print("KNOWN_FINDINGS: +", [f["id"] for f in add])
print("other changed shared files (NOT merged):", [c for c in changed if c not in ("lean/Driver.lean", "lean/FloxModel.lean", "harness/main.py", "harness/manifest_data.py", "harness/findings.py", "KNOWN_FINDINGS.json", "MANIFEST.json")])
