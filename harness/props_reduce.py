"""Properties decided through the `reduce` correspondence (flox.groupby_reduce on 1-D input, one grouper)."""
from __future__ import annotations

import math
import random
import re
from dataclasses import asdict

from . import core
from .framework import Prop, Report
from .reduce_ops import (
    ENGINE_CLASS,
    ARG, FIRSTLAST, INF, NAN, REDUCTIONS, Case, cmp_impl_model, cmp_impl_oracle, cmp_oracle_spec, default_in_domain,
    effective_min_count, gen_chunks, gen_expected, gen_labels, gen_vals, model_line, parse_model_output, run_impl, run_oracle,
)

ENGINES = [None, "numpy", "flox", "numbagg"]
NANFUNCS = {"nansum", "nanprod", "nanmax", "nanmin", "nanmean", "nanvar", "nanstd", "nanfirst", "nanlast", "nanargmax",
            "nanargmin", "count"}


def legal(c: Case) -> bool:
    """inside the documented contract (what the properties quantify over)"""
    if c.func in ARG and c.engine == "flox":
        return False
    if c.func in ARG and c.engine == "numbagg" and c.chunks is not None:
        return False
    if c.func in ("any", "all") and c.dtype != "bool":
        return False
    if c.dtype == "bool" and c.func not in ("any", "all", "sum", "nansum", "count", "mean", "nanmean"):
        return False
    if c.func in ("any", "all") and c.fill is not None and c.fill not in (0, 1, False, True):
        return False
    if c.func in ("first", "last") and c.chunks is not None and c.method != "blockwise":
        return False
    if c.min_count is not None and c.fill is None:
        return False          # a positive min_count needs a fill_value to put into masked slots
    if c.func in ARG and c.chunks is not None and c.method == "blockwise" and len(c.chunks) > 1:
        return False
    if c.chunks is not None:
        if c.method == "blockwise":
            # documented precondition: every group within one block; 1-D sequential labels are rechunked automatically
            ks = [(l is None, 0 if l is None else l) for l in c.labels]
            if ks != sorted(ks):
                return False
        if c.method == "cohorts" and (c.dask_labels or c.reindex is True):
            return False
        if c.method == "blockwise" and c.reindex is True and not c.dask_labels:
            return False
        if c.reindex is True and (c.func in ARG or c.func in ("first", "last")):
            return False
        if c.reindex is True and c.func in FIRSTLAST and not c.dtype.startswith("float"):
            return False
        if c.dask_labels and c.expected is None and (c.reindex is True or c.method == "blockwise"):
            return False
        if c.dask_labels and c.method == "blockwise":
            return False
    return True


def make_case(rng: random.Random, *, funcs=None, chunked=None, dtypes=None, streams=None, engines=None,
              nmax=10, methods=(None, "map-reduce", "cohorts", "blockwise"), fills=(None, None, NAN, 0, -7),
              mcs=(None, None, None, 1, 2), expected_modes=None, sorts=(True, True, False), dask_labels_p=0.2,
              missing=(0, 0, 0.2), split_every=(2, 3, 4)) -> Case:
    for _ in range(200):
        func = rng.choice(funcs or REDUCTIONS)
        dtype = rng.choice(dtypes or ["float64", "float64", "float64", "int64", "int8", "bool", "float32"])
        if func in ("any", "all"):
            dtype = "bool"
        elif dtype == "bool" and func not in ("sum", "nansum", "count", "mean", "nanmean"):
            dtype = "int64"
        n = rng.randint(1, nmax)
        stream = rng.choice(streams or ["finite", "nan", "inf", "mixed"])
        vals = gen_vals(rng, n, dtype, stream)
        labels = gen_labels(rng, n, rng.randint(1, 4), rng.choice(missing), rng.choice(["random", "sorted", "periodic", "runs"]))
        exp = gen_expected(rng, labels, rng.choice(expected_modes) if expected_modes else None)
        fill = rng.choice(fills)
        if exp is not None and fill is None:
            fill = rng.choice([NAN, 0, -7])
        if func in ARG and isinstance(fill, float):
            fill = -7
        if func in ("any", "all") and fill is not None:
            fill = rng.choice([0, 1])
        mc = rng.choice(mcs)
        c = Case(func=func, dtype=dtype, vals=vals, labels=labels, expected=exp, sort=rng.choice(sorts), fill=fill,
                 min_count=mc, ddof=rng.choice([0, 0, 1]), engine=rng.choice(engines or ENGINES), stream=stream)
        c.expected_kind = rng.choice(["array", "array", "list", "index"])
        if exp is not None and dtype != "bool" and rng.random() < 0.12 and all(l is not None for l in labels):
            # requested labels that do not survive a cast to the dtype of the label array: a fractional label next to integer
            # labels, a value beyond a narrow label dtype - they never occur, their slots hold the fill
            c.label_dtype = rng.choice(["int8", "int32", "uint8"] if min(labels) >= 0 else ["int8", "int32"])
            extra = rng.choice([[max(labels) + 0.5], [min(labels) - 0.5], [261], [-1] if c.label_dtype == "uint8" else [-131], [0.5, 261]])
            c.expected = list(exp) + [x for x in extra if x not in exp]
            if c.sort and rng.random() < 0.7:
                c.expected = sorted(c.expected)
            c.expected_kind = rng.choice(["array", "list", "index"])
            if c.fill is None:
                c.fill = rng.choice([NAN, 0, -7]) if func not in ARG else -7
                if func in ("any", "all"):
                    c.fill = rng.choice([0, 1])
        if exp is not None and dtype != "bool" and rng.random() < 0.15:
            # expected_groups as a pandas.RangeIndex: any start / step / direction (its members are labels, not positions)
            start, step, k = rng.choice([0, 0, 1, -2, 2, 4]), rng.choice([1, 1, 2, -1, -2, 3]), rng.randint(1, 5)
            c.expected = [start + j * step for j in range(k)]
            c.expected_kind = "range"
            if c.fill is None:
                c.fill = rng.choice([NAN, 0, -7]) if func not in ARG else -7
                if func in ("any", "all"):
                    c.fill = rng.choice([0, 1])
        is_chunked = rng.random() < 0.5 if chunked is None else chunked
        if is_chunked:
            c.method = rng.choice(methods)
            c.reindex = rng.choice([None, None, True, False])
            c.split_every = rng.choice(split_every)
            c.dask_labels = rng.random() < dask_labels_p
            if c.method == "blockwise":
                # documented precondition: every group inside one block (1-D labels are rechunked automatically
                # when they are sequential runs) -> use sorted labels
                order = sorted(range(n), key=lambda i: (c.labels[i] is None, c.labels[i] if c.labels[i] is not None else 0))
                c.labels = [c.labels[i] for i in order]
                c.dask_labels = False
            c.chunks = gen_chunks(rng, n)
        if legal(c):
            return c
    raise RuntimeError("generator could not produce a legal case")


def make_refusal_case(rng: random.Random, chunked: bool):
    """a call just outside the documented contract in ONE way flox documents a refusal for; the implementation may refuse
    (ValueError / NotImplementedError) or - if it accepts - must return the right answer.  -> (case, kind)"""
    import copy

    for _ in range(400):
        kind = rng.choice(["arg-flox", "arg-flox", "arg-numbagg-chunked", "firstlast-chunked-mapreduce", "cohorts-dask-labels",
                           "arg-reindex-true"] if chunked else ["arg-flox"])
        funcs = sorted(ARG) if kind.startswith("arg") else (["first", "last"] if kind.startswith("firstlast") else None)
        try:
            c = make_case(rng, funcs=funcs, chunked=chunked, engines=["numpy"], mcs=(None,),
                          methods=(("blockwise",) if kind.startswith("firstlast") else ("cohorts",) if kind.startswith("cohorts")
                                   else (None, "map-reduce", "cohorts")),
                          dask_labels_p=0.0, expected_modes=(["exact", "superset"] if kind.startswith("cohorts") else None))
        except RuntimeError:
            continue
        c = copy.copy(c)
        if kind == "arg-flox":
            c.engine = "flox"
        elif kind == "arg-numbagg-chunked":
            c.engine = "numbagg"
        elif kind == "firstlast-chunked-mapreduce":
            c.method = rng.choice(["map-reduce", "cohorts", None])
        elif kind == "cohorts-dask-labels":
            if c.expected is None:
                continue
            c.dask_labels = True
        else:
            c.reindex = True
            c.method = rng.choice([None, "map-reduce"])
        c.stream = "refusal:" + kind
        if not legal(c):
            return c, kind
    raise RuntimeError("generator could not produce a refusal case")


def nontrivial(c: Case) -> bool:
    """at least two elements share a group, or there are >= 2 groups / a missing label / a NaN"""
    labs = [l for l in c.labels if l is not None]
    return len(c.vals) >= 2 and (len(set(labs)) >= 2 or len(labs) != len(c.labels) or len(labs) > len(set(labs)))


class ReduceProp(Prop):
    """generic driver: subclasses provide `gen(rng, tier, i)` and the volume"""

    quick_n = 600
    thorough_n = 6000
    in_domain = staticmethod(default_in_domain)

    def gen(self, rng, tier, i) -> Case:
        return make_case(rng)

    def corpus(self) -> list[Case]:
        return []

    def n_cases(self, tier, search):
        n = self.quick_n if tier == "quick" else self.thorough_n
        return n * 3 if search else n

    def direct_check(self, c: Case, impl: dict, oracle: dict) -> str | None:
        return cmp_impl_oracle(c, impl, oracle, self.in_domain)

    def extra_checks(self, c: Case, impl: dict, rep: Report) -> str | None:
        return None

    refusal_chunked = None        # None: no refusal stream; False: eager calls; True: chunked calls

    def run(self, rng, tier, rep: Report, search=False):
        cases = list(self.corpus()) + [self.gen(rng, tier, i) for i in range(self.n_cases(tier, search))]
        self.run_cases(cases, rep)
        if self.refusal_chunked is not None:
            self.run_refusals(rng, max(60, self.n_cases(tier, search) // 10), rep)

    def run_refusals(self, rng, n, rep: Report):
        """calls flox documents a refusal for: refused (counted) or answered correctly - never answered wrongly"""
        for _ in range(n):
            c, kind = make_refusal_case(rng, self.refusal_chunked)
            im = run_impl(c)
            rep.evaluations += 1
            if im["kind"] == "err" and im["err"] in ("ValueError", "NotImplementedError"):
                rep.dist[f"refusal:{kind}:refused"] += 1
                continue
            d = cmp_impl_oracle(c, im, run_oracle(c), self.in_domain)
            if d:
                rep.direct.append((asdict(c), f"accepted a call outside the contract ({kind}) and answered wrongly: {d}"))
            else:
                rep.dist[f"refusal:{kind}:accepted-and-right"] += 1

    def run_cases(self, cases, rep: Report):
        impls = [run_impl(c) for c in cases]
        lines, idx = [], []
        for i, (c, im) in enumerate(zip(cases, impls)):
            l = model_line(c, im.get("plan", {}))
            if l is not None:
                lines.append(l)
                idx.append(i)
        outs = core.Driver().run(lines)
        mout = {i: o for i, o in zip(idx, outs)}
        for i, (c, im) in enumerate(zip(cases, impls)):
            rep.evaluations += 1
            if nontrivial(c):
                rep.keys.add(c.key())
            plan = im.get("plan", {})
            rep.dist["func:" + c.func] += 1
            rep.dist["plan:" + ("eager" if c.chunks is None else f"{plan.get('method')}/reindex={plan.get('reindex')}")] += 1
            rep.dist["engine:" + str(c.engine or plan.get("engine") or plan.get("chosen_engine"))] += 1
            rep.dist["impl:" + (im["kind"] if im["kind"] == "ok" else im["err"])] += 1
            rep.dist["nblocks:" + str(0 if c.chunks is None else min(len(c.chunks), 9))] += 1
            orc = run_oracle(c)
            if i in mout:
                model, spec = parse_model_output(mout[i])
                rep.dist["model:" + model["kind"]] += 1
                d1 = self.filter_tie(c, cmp_impl_model(c, im, model), im, orc)
                if d1:
                    # inside the cell of a recorded open defect the implementation's output is unspecified (e.g. numbagg's
                    # uninitialised slots for empty groups, finding F9): the defect is reported through KNOWN-FINDING, the
                    # model is not expected to reproduce the garbage.  Everywhere else a mismatch breaks the tie.
                    d3pre = self.direct_check(c, im, orc)
                    if d3pre and any(self.match_finding(f, asdict(c), d3pre) for f in self._open_findings()):
                        rep.dist["tie1-mismatch-inside-known-finding-cell"] += 1
                    else:
                        rep.tie1.append((asdict(c), d1))
                d2 = cmp_oracle_spec(c, orc, spec)
                if d2:
                    rep.tie2.append((asdict(c), d2))
            else:
                rep.dist["model:not-expressible"] += 1
            d3 = self.direct_check(c, im, orc)
            if not d3:
                d3 = self.extra_checks(c, im, rep)
            if d3:
                rep.direct.append((asdict(c), d3))
            if len(rep.samples) < 6 and nontrivial(c):
                rep.add_sample({"case": core.jsonable(asdict(c)), "impl": core.jsonable(im.get("vals") if im["kind"] == "ok" else im),
                                "plan": core.jsonable(plan), "model_line_out": mout.get(i)})
        if len(cases) > 1:
            self.after_cases(cases, impls, rep)

    def filter_tie(self, c, d1, im, orc):
        """hook: a property may judge a model/implementation difference with its own comparison mode"""
        return d1

    def after_cases(self, cases, impls, rep: Report):
        """hook for streams that reuse the evaluated cases (C20: integer widths) or add their own (C01: kernels)"""
        return None

    def replay(self, payload, rep: Report):
        d = payload["case"]
        d = {k: v for k, v in d.items()}
        for k in ("vals", "labels", "expected"):
            if d.get(k) is not None:
                d[k] = [(_unjson(x)) for x in d[k]]
        d["fill"] = _unjson(d.get("fill"))
        self.run_cases([Case(**d)], rep)

    # known findings -------------------------------------------------------------------------------
    def _open_findings(self):
        if not hasattr(self, "_open_f"):
            self._open_f = [f for f in core.load_findings() if f.get("property") == self.id and f.get("status") == "open"]
        return self._open_f

    def match_finding(self, finding, case, detail) -> bool:
        from . import findings

        pred = findings.PREDICATES.get(finding["id"])
        return bool(pred and pred(case, detail))

    def check_finding_still_fails(self, finding) -> bool | None:
        w = finding.get("witness")
        if not w or w.get("op") != "reduce":
            return None
        d = dict(w["case"])
        for k in ("vals", "labels", "expected"):
            if d.get(k) is not None:
                d[k] = [_unjson(x) for x in d[k]]
        d["fill"] = _unjson(d.get("fill"))
        c = Case(**d)
        im = run_impl(c)
        orc = run_oracle(c)
        det = self.direct_check(c, im, orc) or self.extra_checks(c, im, Report())
        return bool(det) and self.match_finding(finding, asdict(c), det)


def _unjson(x):
    if isinstance(x, str):
        if x in ("nan", "NaN"):
            return NAN
        if x in ("inf", "Infinity"):
            return INF
        if x in ("-inf", "-Infinity"):
            return -INF
    return x


# ------------------------------------------------------------------------------------------------


class C01(ReduceProp):
    id = "C01"
    lean_module = "FloxProps.C01"
    refusal_chunked = False
    rule = ("seeded generator: 1-D values from {-3..3,5,NaN,+-inf} (float/int/bool dtypes), labels with 1-4 groups "
            "(random/sorted/periodic/runs, optional missing), eager call on every engine setting; non-trivial = at least "
            "two elements and (>=2 groups or a repeated/missing label); distinct = hash of the full case; plus a kernel-level "
            "stream (n/4 cases): flox.aggregations.generic_aggregate called directly on every engine (15 kernels, codes in "
            "0..3, values with NaN/+-inf, fills NaN/-5/0) compared slot by slot with the Lean engine models (all slots) and "
            "with NumPy per group (slots with a valid member)")
    quick_n = 1500
    thorough_n = 20000

    def gen(self, rng, tier, i):
        return make_case(rng, chunked=False, nmax=12 if tier == "quick" else 30, expected_modes=["none", "none", "exact", "superset"],
                         mcs=(None,), fills=(None, None, NAN, -7))

    # -- kernel-level stream: the engines called directly (flox.aggregations.generic_aggregate), below groupby_reduce's own
    #    count mask, which hides what an engine returns for all-NaN / empty groups -----------------------------------------
    KERNELS = ["sum", "nansum", "prod", "nanprod", "max", "nanmax", "min", "nanmin", "mean", "nanmean", "nanlen",
               "first", "last", "nanfirst", "nanlast"]

    def after_cases(self, cases, impls, rep: Report):
        parent = getattr(super(), "after_cases", None)
        if parent:
            parent(cases, impls, rep)
        import numpy as np
        from flox.aggregate_flox import _prepare_for_flox
        from flox.aggregations import generic_aggregate

        rng = random.Random(len(cases) * 7919 + sum(len(c.vals) for c in cases[:50]))
        n = max(200, len(cases) // 4)
        todo, lines = [], []
        for _ in range(n):
            k = rng.choice(self.KERNELS)
            eng = rng.choice(["numpy", "flox", "flox", "numbagg"])
            size = rng.randint(1, 4)
            m = rng.randint(1, 10)
            codes = [rng.randrange(size) for _ in range(m)]
            vals = gen_vals(rng, m, "float64", rng.choice(["finite", "nan", "nan", "inf", "mixed", "infnan"]))
            fill = rng.choice([NAN, NAN, -5.0, 0.0])
            if k == "nanlen":
                fill = 0.0          # flox only ever asks for counts with fill 0 (an integer result cannot hold NaN)
            todo.append((k, eng, size, codes, vals, fill))
            lines.append(f"kernel eng={ENGINE_CLASS[eng]} k={k} ddof=0 size={size} fill={core.tok(fill)} | "
                         f"{','.join(map(str, codes))} | {core.toks(vals)}")
        outs = core.Driver().run(lines)
        for (k, eng, size, codes, vals, fill), out in zip(todo, outs):
            rep.evaluations += 1
            rep.dist[f"kernel-stream:{eng}"] += 1
            case = {"kernel": k, "engine": eng, "size": size, "codes": codes, "vals": core.jsonable(vals), "fill": core.jsonable(fill)}
            if not out.startswith("ok "):
                rep.dist["kernel-stream:model-not-expressible"] += 1
                continue
            mvals, svals = [x.split(",") for x in out[3:].split(" | ")]
            g, a = np.array(codes, dtype=np.intp), np.array(vals, dtype="float64")
            try:
                if eng == "flox":
                    g, a, _ = _prepare_for_flox(g, a)
                res = np.asarray(generic_aggregate(g, a, engine=eng, func=k, axis=-1, size=size, fill_value=fill, dtype=None))
                if eng == "numbagg":
                    from flox.core import _postprocess_numbagg     # chunk_reduce's companion of the numbagg wrappers

                    res = _postprocess_numbagg(res, func=k, size=size, fill_value=fill, seen_groups=np.unique(g))
            except Exception as e:  # noqa
                rep.tie1.append((case, f"kernel-stream: engine raised {type(e).__name__}: {str(e)[:120]} ; model {mvals}"))
                continue
            mode = "approx" if k in ("mean", "nanmean", "prod", "nanprod", "sum", "nansum") else "exact"
            if len(res) != len(mvals) or not all(core.same_value(t, x, mode) for t, x in zip(mvals, res.tolist())):
                rep.tie1.append((case, f"kernel-stream: engine {eng} returned {res.tolist()}, model {mvals}"))
            # the property itself at kernel level: every engine returns NumPy's value for every group that has a (valid)
            # member; what an engine puts into empty / all-NaN slots is a convention groupby_reduce masks with its counts
            skips = k.startswith("nan")
            live = [any(c == j and not (skips and v != v) for c, v in zip(codes, vals)) for j in range(size)]
            bad = [j for j in range(min(size, len(res), len(svals))) if live[j] and not core.same_value(svals[j], res.tolist()[j], mode)]
            if bad:
                rep.direct.append((case, f"kernel-stream: engine {eng} kernel {k} returned {res.tolist()}, NumPy per group {svals} "
                                         f"(slots {bad})"))


class C02(ReduceProp):
    id = "C02"
    lean_module = "FloxProps.C02"
    refusal_chunked = True
    rule = ("seeded generator as C01 but on dask input: method in {None, map-reduce, cohorts, blockwise (sorted labels)}, "
            "reindex in {None, True, False}, numpy or dask labels, chunkings incl. all-ones / single / uneven, split_every 2-4; "
            "the oracle is NumPy per group (hence also the eager result via C01); non-trivial/distinct as C01")
    quick_n = 1200
    thorough_n = 15000

    def gen(self, rng, tier, i):
        if i % 5 == 4:
            # nan-skipping reductions of INTEGER data on the default engine (numbagg has no fill argument: flox patches the
            # slots of groups a block has not seen), reindexed at the block stage, few groups so that blocks lack some
            return make_case(rng, chunked=True, nmax=10 if tier == "quick" else 24, mcs=(None, None, 1),
                             funcs=["nanmin", "nanmax", "nansum", "nanprod", "nanmean", "nanfirst", "nanlast", "count", "nanvar"],
                             dtypes=["int64", "int64", "int8", "uint8", "int32"], engines=[None, "numbagg", "numbagg"],
                             methods=(None, "map-reduce", "map-reduce", "cohorts"))
        return make_case(rng, chunked=True, nmax=10 if tier == "quick" else 24, mcs=(None, None, 1, 2))


class C03(ReduceProp):
    id = "C03"
    lean_module = "FloxProps.C03"
    rule = ("chunked cases with 2-12 blocks; every case is executed under a split_every drawn from 2..#blocks (all tree depths), "
            "on the synchronous scheduler, the threaded scheduler and the harness's executor that runs the real task graph in a "
            "seeded random topological order; each result is compared with the Lean model (given that split_every), the NumPy "
            "oracle, and bitwise with a reference run (sync, split_every=4); plus chunked scans (nancumsum / ffill / bfill, 5-16 "
            "blocks) and rank-2 cohort reductions with fan-in 2-4 under sync / threads / seeded random topological orders, compared "
            "with the eager call; distinct = hash of the case")
    quick_n = 500
    thorough_n = 6000

    def gen(self, rng, tier, i):
        deep = i % 4 == 3
        for _ in range(100):
            if deep:
                # order-sensitive reductions through flox's own per-cohort tree: cohorts spanning many blocks, small fan-in
                c = make_case(rng, chunked=True, nmax=14 if tier == "quick" else 24, mcs=(None,), methods=("cohorts",),
                              funcs=sorted((ARG | FIRSTLAST) - {"first", "last"}), dtypes=["float64", "float64", "int64"],
                              streams=["nan", "finite"], engines=["numpy", None], dask_labels_p=0.0)
                n = len(c.vals)
                k = rng.randint(1, 3)
                c.labels = [i2 % k for i2 in range(n)]                        # periodic: every cohort meets every block
                c.vals = [v if (isinstance(v, float) and v != v) else (float(rng.choice([-1, 2, 2])) if c.dtype.startswith("float")
                                                                             else rng.choice([-1, 2, 2])) for v in c.vals]
                c.expected = None if rng.random() < 0.5 else list(range(k))
                if c.expected is not None and c.fill is None:
                    c.fill = -7
                c.expected_kind, c.label_dtype = "array", None
                c.chunks = gen_chunks(rng, n, rng.choice(["ones", "ones", "random"]))
                if not legal(c):
                    continue
            else:
                c = make_case(rng, chunked=True, nmax=12 if tier == "quick" else 20, mcs=(None, None, 1),
                              methods=(None, "map-reduce", "map-reduce", "cohorts", "cohorts"))
            if c.chunks is not None and len(c.chunks) >= 2:
                break
        nb = len(c.chunks)
        c.split_every = rng.randint(2, max(2, nb)) if not deep else rng.choice([2, 2, 3, 4])
        c.scheduler = rng.choice(["sync", "threads", f"random:{rng.randrange(10**6)}", f"random:{rng.randrange(10**6)}"])
        return c

    def extra_checks(self, c, impl, rep):
        import copy
        import numpy as np

        if impl["kind"] != "ok":
            return None
        ref = copy.copy(c)
        ref.split_every = 4
        ref.scheduler = "sync"
        r = run_impl(ref)
        rep.dist["sched:" + c.scheduler.split(":")[0]] += 1
        rep.dist["tree_depth:" + str(_depth(len(c.chunks), c.split_every))] += 1
        if r["kind"] != "ok":
            return f"reference run (sync, split_every=4) failed: {r}"
        a, b = np.asarray(impl["vals"]), np.asarray(r["vals"])
        if a.shape != b.shape:
            return f"shape differs from reference run: {a.shape} vs {b.shape}"
        if c.func in ("var", "nanvar", "std", "nanstd", "mean", "nanmean"):
            ok = np.allclose(a, b, rtol=1e-9, atol=1e-9, equal_nan=True)
        else:
            ok = np.array_equal(a, b, equal_nan=True) if a.dtype.kind == "f" else np.array_equal(a, b)
        if not ok:
            try:
                neq = ~((a == b) | ((a != a) & (b != b))) if a.dtype.kind == "f" else (a != b)
                labs = [x.item() if hasattr(x, "item") else x for x in np.asarray(impl["groups"]).reshape(-1)[neq.reshape(-1)].tolist()]
            except Exception:  # noqa
                labs = "?"
            return (f"value depends on split_every/scheduler at labels {labs}: {a.tolist()} (se={c.split_every},{c.scheduler}) "
                    f"vs {b.tolist()} (se=4,sync)")
        return None


    # -- scans and rank-2 cohort reductions under other fan-ins / schedules (no Lean line: compared with the eager call) ---------
    def after_cases(self, cases, impls, rep: Report):
        import dask
        import dask.array as da
        import numpy as np
        import flox
        from flox.core import groupby_scan

        from . import graphexec

        rng = random.Random(len(cases) * 104729 + sum(len(c.vals) for c in cases[:40]))
        n_scan = max(40, len(cases) // 8)
        for _ in range(n_scan):
            func = rng.choice(["nancumsum", "nancumsum", "ffill", "bfill"])
            n = rng.randint(5, 16)
            k = rng.randint(1, 3)
            labels = np.array([rng.randrange(k) for _ in range(n)])
            vals = np.array([NAN if rng.random() < 0.25 else float(rng.choice([-3, -1, 0, 1, 2, 5])) for _ in range(n)])
            chunks = tuple(gen_chunks(rng, n, rng.choice(["ones", "ones", "random"])))
            sched = rng.choice(["sync", "threads", f"random:{rng.randrange(10**6)}", f"random:{rng.randrange(10**6)}"])
            case = {"op": "scan", "func": func, "vals": core.jsonable(vals.tolist()), "labels": labels.tolist(), "chunks": list(chunks),
                    "scheduler": sched}
            rep.evaluations += 1
            rep.dist["scan-stream:" + sched.split(":")[0]] += 1
            try:
                want = np.asarray(groupby_scan(vals, labels, func=func, axis=-1))
                lazy = groupby_scan(da.from_array(vals, chunks=(chunks,)), labels, func=func, axis=-1)
                if sched == "sync":
                    got = lazy.compute(scheduler="sync")
                elif sched == "threads":
                    got = lazy.compute(scheduler="threads", num_workers=4)
                else:
                    got = graphexec.assemble_1d(graphexec.execute(lazy, random.Random(int(sched.split(":")[1]))))
            except Exception as e:  # noqa
                rep.direct.append((case, f"scan-stream: raised {type(e).__name__}: {str(e)[:160]}"))
                continue
            if not np.array_equal(np.asarray(got), want, equal_nan=True):
                rep.direct.append((case, f"scan-stream: {sched} run of the chunked scan gives {np.asarray(got).tolist()}, eager {want.tolist()}"))
        for _ in range(max(40, len(cases) // 8)):
            # rank-2 values, 1-D labels, flox's own per-cohort tree with a small fan-in
            func = rng.choice(["sum", "nanmax", "count", "nanmean", "nanlast", "nanargmax"])
            n = rng.randint(6, 16)
            k = rng.randint(1, 3)
            labels = np.array([i % k for i in range(n)])
            vals = np.array([[NAN if rng.random() < 0.2 else float(rng.choice([-3, -1, 0, 1, 2, 5])) for _ in range(n)] for _ in range(2)])
            chunks = tuple(gen_chunks(rng, n, rng.choice(["ones", "ones", "random"])))
            se = rng.choice([2, 2, 3, 4])
            sched = rng.choice(["sync", "threads"])
            case = {"op": "rank2-cohorts", "func": func, "vals": core.jsonable(vals.tolist()), "labels": labels.tolist(),
                    "chunks": list(chunks), "split_every": se, "scheduler": sched}
            rep.evaluations += 1
            rep.dist["rank2-cohorts-stream"] += 1
            try:
                want = np.asarray(flox.groupby_reduce(vals, labels, func=func, engine="numpy")[0])
                with dask.config.set(split_every=se):
                    got = flox.groupby_reduce(da.from_array(vals, chunks=((1, 1), chunks)), labels, func=func, engine="numpy",
                                              method="cohorts")[0].compute(scheduler=sched)
            except Exception as e:  # noqa
                rep.direct.append((case, f"rank2-cohorts-stream: raised {type(e).__name__}: {str(e)[:160]}"))
                continue
            g64, w64 = np.asarray(got, dtype="float64").copy(), np.asarray(want, dtype="float64").copy()
            if func == "nanargmax" and g64.shape == w64.shape:
                # a (row, group) whose members are all NaN has no position (the restriction of C01 / C06): not compared
                for r in range(vals.shape[0]):
                    for j in range(k):
                        if np.isnan(vals[r, labels == j]).all():
                            g64[r, j] = w64[r, j] = 0.0
            if g64.shape != w64.shape or not np.allclose(g64, w64, rtol=1e-12, atol=0, equal_nan=True):
                rep.direct.append((case, f"rank2-cohorts-stream: split_every={se} gives {np.asarray(got).tolist()}, eager {want.tolist()}"))


def _depth(n, k):
    d, p = 0, 1
    while p < n:
        p *= k
        d += 1
    return max(d, 1)


class C05(ReduceProp):
    id = "C05"
    lean_module = "FloxProps.C05"
    rule = ("expected_groups that are supersets / subsets / disjoint / unsorted w.r.t. the labels present; fill_value in "
            "{NaN, 0, False, -7, 10**6}; min_count in {None, 0, 1, 2, 20}; all reductions, engines, eager and every chunked plan; "
            "the check demands exactly one slot per requested label, in the requested (or ascending) order, the fill verbatim in "
            "absent / under-populated slots and NumPy's value elsewhere; distinct = hash of the case")
    quick_n = 1200
    thorough_n = 15000

    def gen(self, rng, tier, i):
        return make_case(rng, nmax=10 if tier == "quick" else 20, fills=(NAN, 0, False, -7, 10**6),
                         mcs=(None, None, 0, 1, 2, 20), expected_modes=["superset", "subset", "disjoint", "unsorted", "exact"],
                         missing=(0, 0.2, 0.3))


class C06(ReduceProp):
    id = "C06"
    lean_module = "FloxProps.C06"
    rule = ("arg-reductions and first/last family on data with few distinct values (ties) and NaNs, so that the extreme / first "
            "valid member occurs on both sides of chunk boundaries; chunkings: single chunk, all size-1 chunks, random; methods "
            "None / map-reduce / cohorts; split_every 2-4 (tree depth up to 4); oracle = first occurrence of the extreme over the "
            "whole array / first (last) member in positional order; 35 % of the float first/last-family cases use datetime64 / "
            "timedelta64 data with NaT (oracle only); integers beyond 2**53 for the arg-reductions")
    quick_n = 1200
    thorough_n = 15000

    def gen(self, rng, tier, i):
        for _ in range(100):
            c = make_case(rng, funcs=sorted(ARG | FIRSTLAST), nmax=12 if tier == "quick" else 24,
                          dtypes=["float64", "float64", "int64", "float32"], streams=["nan", "finite", "mixed"],
                          methods=(None, "map-reduce", "cohorts", "blockwise"), mcs=(None, None, 1))
            # few distinct values -> ties across blocks
            if c.dtype.startswith("float"):
                c.vals = [v if (isinstance(v, float) and v != v) else float(rng.choice([-1, 2, 2, 2])) for v in c.vals]
            else:
                c.vals = [rng.choice([-1, 2, 2, 2]) for _ in c.vals]
            if c.dtype == "int64" and rng.random() < 0.5:
                # integers beyond 2**53: neighbouring values are distinct as int64 but collide as float64
                base = rng.choice([2**60, -(2**60), 2**55])
                c.vals = [base + rng.choice([0, 1, 2, 3]) for _ in c.vals]
                if c.func in ARG and len(c.vals) >= 3 and rng.random() < 0.7:
                    # one strict extreme late in the array, near-equal values before it
                    j = rng.randrange(len(c.vals) // 2, len(c.vals))
                    c.vals[j] = base + (5 if "max" in c.func else -5)
            if c.dtype.startswith("float") and c.func in FIRSTLAST and rng.random() < 0.35:
                # datetime64 / timedelta64 data: NaT is their missing value and must be skipped / kept like NaN
                c.dtype = rng.choice(["datetime64[ns]", "timedelta64[ns]", "datetime64[s]"])
                c.vals = [v if (isinstance(v, float) and v != v) else float(rng.choice([10, 20, 20, 30])) for v in c.vals]
                c.fill, c.min_count, c.expected = None, None, (c.expected if c.expected is None else sorted({l for l in c.labels if l is not None}) or None)
                c.expected_kind = "array"
            if c.chunks is not None:
                c.chunks = gen_chunks(rng, len(c.vals), rng.choice(["ones", "single", "random", "random"]))
            if legal(c):
                return c
        return c


class C16(ReduceProp):
    id = "C16"
    lean_module = "FloxProps.C16"
    rule = ("sort in {True, False}; expected_groups sorted / unsorted / absent; float labels with NaN; every plan and chunking; "
            "checks: sort=True -> returned labels strictly ascending, no duplicates; sort=False -> the order given in "
            "expected_groups, or order of first appearance for in-memory input; in all cases the label->value mapping equals the "
            "NumPy oracle's and no present/requested label is lost or repeated")
    quick_n = 1200
    thorough_n = 15000

    def gen(self, rng, tier, i):
        return make_case(rng, nmax=10 if tier == "quick" else 20, sorts=(True, False, False),
                         expected_modes=["none", "none", "unsorted", "unsorted", "superset", "exact"], missing=(0, 0.2),
                         mcs=(None, None, 1))

    def extra_checks(self, c, impl, rep):
        import numpy as np

        if impl["kind"] != "ok":
            return None
        g = [float(x) for x in np.asarray(impl["groups"]).reshape(-1)]
        if c.sort:
            rep.dist["order:sorted"] += 1
            return None
        if c.expected is not None:
            rep.dist["order:expected"] += 1
            if g != [float(x) for x in c.expected]:
                return f"sort=False: labels {g} do not follow expected_groups {c.expected}"
        elif c.chunks is None:
            rep.dist["order:first-appearance"] += 1
            seen = []
            for l in c.labels:
                if l is not None and float(l) not in seen:
                    seen.append(float(l))
            if g != seen:
                return f"sort=False, in-memory: labels {g} are not in order of first appearance {seen}"
        return None


class C20(ReduceProp):
    id = "C20"
    lean_module = "FloxProps.C20"
    rule = ("three streams: (a) min/max/nanmin/nanmax on float data mixing finite values, NaN and +-inf (incl. groups whose only valid values are infinities of one sign next to NaN) on every engine and plan; "
            "(b) sum/nansum/prod/nanprod/count/mean on int8/uint8/int16 data whose group totals exceed the input width but not "
            "int64; (c) var/std/nanvar/nanstd on well-conditioned data (multiples of 1/8, |x| <= 100), compared with NumPy and "
            "between eager and chunked evaluation (rel. 1e-9); distinct = hash of the case")
    quick_n = 1200
    thorough_n = 15000

    def gen(self, rng, tier, i):
        stream = i % 3
        for _ in range(100):
            if stream == 0:
                if (i // 3) % 3 == 2:
                    # sentinel stress: nan-skipping extremes of groups holding only NaN and infinities of one sign, mostly
                    # in memory (the eager engines substitute +-inf for NaN and must tell the substitute from real data)
                    c = make_case(rng, funcs=["nanmin", "nanmax", "nanmin", "nanmax", "min", "max"], dtypes=["float64", "float32"],
                                  streams=["infnan"], nmax=12, mcs=(None,), chunked=rng.random() < 0.35,
                                  engines=["flox", "flox", None, "numpy", "numbagg"])
                else:
                    c = make_case(rng, funcs=["min", "max", "nanmin", "nanmax"], dtypes=["float64", "float32"],
                                  streams=["inf", "mixed", "infnan"], nmax=12, mcs=(None,))
            elif stream == 1:
                c = make_case(rng, funcs=["sum", "nansum", "prod", "nanprod", "mean", "nanmean", "count"],
                              dtypes=["int8", "uint8", "int16"], nmax=40, mcs=(None,), fills=(None, None, 0, -7))
                if "prod" in c.func:
                    c.vals = [rng.choice([1, 1, 1, 2, 3, 5, 7] + ([] if c.dtype == "uint8" else [-1, -3])) for _ in c.vals]
                else:
                    hi = {"int8": 120, "uint8": 250, "int16": 30000}[c.dtype]
                    c.vals = [rng.choice([hi, hi - 1, hi // 2, 1] + ([] if c.dtype == "uint8" else [-hi])) for _ in c.vals]
                c.labels = [l if l is None else [0, 1][int(l) % 2] for l in c.labels]
                if c.expected is not None:
                    c.expected = [0, 1]
                    if c.fill is None:
                        c.fill = 0
                if c.chunks is not None:
                    c.chunks = gen_chunks(rng, len(c.vals))
            else:
                if (i // 3) % 3 == 1:
                    # narrow integers near the ends of their range: differences and squares must not wrap at the input width
                    c = make_case(rng, funcs=["var", "std", "nanvar", "nanstd"], dtypes=["int8", "int16", "int32", "uint8"],
                                  nmax=30, mcs=(None,), fills=(None, None, NAN))
                    hi = {"int8": 127, "int16": 32767, "int32": 70000, "uint8": 255}[c.dtype]
                    lo = 0 if c.dtype == "uint8" else -hi
                    c.vals = [rng.choice([hi, hi - 1, lo, lo + 1, hi // 2, 1, 0]) for _ in c.vals]
                else:
                    c = make_case(rng, funcs=["var", "std", "nanvar", "nanstd"], dtypes=["float64"], streams=["finite", "nan"],
                                  nmax=30, mcs=(None,))
                    c.vals = [v if v != v else rng.randint(-800, 800) / 8.0 for v in c.vals]
            if legal(c):
                return c
        return c

    def direct_check(self, c, impl, oracle):
        d = super().direct_check(c, impl, oracle)
        if not d or c.func not in ("var", "std", "nanvar", "nanstd") or not d.startswith("label ") or impl["kind"] != "ok":
            return d
        # "well-conditioned ... to floating-point accuracy": the one-pass formula (sum of squares minus squared sum) that
        # numbagg and the chunked path use carries an absolute error of the order eps * sum(x**2); a group whose mean is
        # huge against its spread is ill-conditioned for it.  Accept differences within 1e-12 * sum(x**2) of the variance
        # (wrap-around defects are off by the order of max(x)**2 itself).
        import numpy as np

        groups = np.asarray(impl["groups"]).reshape(-1).tolist()
        vals = np.asarray(impl["vals"]).reshape(-1).tolist()
        for g, ov in zip(oracle["groups"], oracle["vals"]):
            if ov is None or not self.in_domain(c, g):
                continue
            ms = [float(v) for v, l in zip(c.vals, c.labels) if l is not None and l == g and not (isinstance(v, float) and v != v)]
            tol = 1e-12 * sum(x * x for x in ms) + 1e-9 * abs(float(ov)) if ov == ov else 0.0
            try:
                iv = float(vals[groups.index(g)])
            except Exception:  # noqa
                return d
            o = float(ov)
            if o != o:
                if iv == iv:
                    return d
                continue
            if "std" in c.func:
                # compare variances
                iv, o = iv * iv, o * o
                tol = 1e-12 * sum(x * x for x in ms) + 2e-9 * abs(o)
            if not abs(iv - o) <= tol:
                return d
        return None

    def filter_tie(self, c, d1, im, orc):
        # the model is exact; for var / std the implementation's one-pass arithmetic is judged with the condition-aware tolerance
        # of `direct_check` (model = specification = oracle on these cases, tie2 checks the latter equality)
        if d1 and c.func in ("var", "std", "nanvar", "nanstd") and d1.startswith("value differs") and self.direct_check(c, im, orc) is None:
            return None
        return d1

    # width tie (second sentence of C20) -------------------------------------------------------------
    IW_OPS = {"sum": "sum", "nansum": "sum", "prod": "prod", "nanprod": "prod"}

    def after_cases(self, cases, impls, rep: Report):
        """tie of the width-aware accumulation model (lean/FloxModel/IntWidth.lean, driver op `intwidth`) to the code:
        for every integer sum / nansum / prod / nanprod case (eager and chunked) and every group with a member the model
        with castfirst=1 at the width of the dtype flox returned must give flox's number (mismatch -> tie1); the
        castfirst=0 model (accumulate in the input dtype, the repaired defect) is evaluated too and `rep.dist` counts
        in how many cases it would have wrapped, i.e. how much of the stream lies in the wrap region."""
        lines, meta = [], []
        for ci, (c, im) in enumerate(zip(cases, impls)):
            m = re.fullmatch(r"(u?)int(8|16|32|64)", c.dtype)
            if c.func not in self.IW_OPS or not m:
                continue
            if im["kind"] != "ok":
                rep.dist["intwidth:skipped-impl-" + im["kind"]] += 1
                continue
            res = im["vals"]
            if res.dtype.kind not in "iu":
                rep.dist["intwidth:skipped-result-" + res.dtype.name] += 1      # a fill forced a floating result dtype
                continue
            signed, win = (0 if m.group(1) else 1), int(m.group(2))
            sacc, wacc = (1 if res.dtype.kind == "i" else 0), res.dtype.itemsize * 8
            plan = im.get("plan", {})
            blocks = None if c.chunks is None else [int(x) for x in (plan.get("chunks") or c.chunks)]
            se = f" se={c.split_every}" if (blocks is not None and plan.get("method") == "map-reduce") else ""
            mc, _ = effective_min_count(c)
            for gi, g in enumerate(im["groups"].tolist()):
                pos = [i for i, l in enumerate(c.labels) if l is not None and l == g]
                if len(pos) < max(mc, 1):
                    continue                                                    # the slot holds the fill, not a total
                if blocks is None:
                    ch = "-"
                else:
                    edges = [0]
                    for b in blocks:
                        edges.append(edges[-1] + b)
                    ch = ",".join(str(sum(1 for i in pos if lo <= i < hi)) for lo, hi in zip(edges, edges[1:]))
                data = " ".join(str(int(c.vals[i])) for i in pos)
                for cf in (1, 0):
                    lines.append(f"intwidth op={self.IW_OPS[c.func]} castfirst={cf} win={win} signed={signed} wacc={wacc} "
                                 f"sacc={sacc} chunks={ch}{se} | {data}")
                meta.append((ci, g, int(res[gi]), [int(c.vals[i]) for i in pos], win, signed))
        if not lines:
            return
        outs = core.Driver().run(lines)
        wrapped_cases, exceed_cases, seen = set(), set(), set()
        for k, (ci, g, got, ms, win, signed) in enumerate(meta):
            o1, o0 = outs[2 * k].strip(), outs[2 * k + 1].strip()
            if not (o1.startswith("ok ") and o0.startswith("ok ")):
                raise RuntimeError(f"intwidth driver op refused its input: {lines[2 * k]!r} -> {o1!r} / {o0!r}")
            m1, m0 = int(o1[3:]), int(o0[3:])
            c = cases[ci]
            seen.add(ci)
            rep.dist["intwidth:groups"] += 1
            exact = sum(ms) if self.IW_OPS[c.func] == "sum" else math.prod(ms)
            lo, hi = (-(1 << (win - 1)), (1 << (win - 1)) - 1) if signed else (0, (1 << win) - 1)
            if not (lo <= exact <= hi):
                exceed_cases.add(ci)
            if m0 != got:
                wrapped_cases.add(ci)
            if m1 != got:
                why = (f"intwidth: group {g}: flox returned {got}, the cast-first model at the result width gives {m1}"
                       + (f" (flox's value IS the castfirst=0 model: accumulated at the {win}-bit input width)" if m0 == got else "")
                       + f"; line: {lines[2 * k]}")
                d3 = self.direct_check(c, impls[ci], run_oracle(c))
                if d3 and any(self.match_finding(f, asdict(c), d3) for f in self._open_findings()):
                    rep.dist["tie1-mismatch-inside-known-finding-cell"] += 1
                else:
                    rep.tie1.append((asdict(c), why))
        rep.dist["intwidth:cases"] += len(seen)
        rep.dist["intwidth:cases-total-beyond-input-width"] += len(exceed_cases)
        rep.dist["intwidth:cases-castfirst0-model-would-wrap"] += len(wrapped_cases)
        rep.dist["intwidth:cases-castfirst0-model-agrees"] += len(seen - wrapped_cases)
