"""Properties decided through the `reduce` correspondence (flox.groupby_reduce on 1-D input, one grouper)."""
from __future__ import annotations

import math
import random
from dataclasses import asdict

from . import core
from .framework import Prop, Report
from .reduce_ops import (
    ARG, FIRSTLAST, INF, NAN, REDUCTIONS, Case, cmp_impl_model, cmp_impl_oracle, cmp_oracle_spec, default_in_domain,
    gen_chunks, gen_expected, gen_labels, gen_vals, model_line, parse_model_output, run_impl, run_oracle,
)

ENGINES = [None, "numpy", "flox", "numbagg"]
NANFUNCS = {"nansum", "nanprod", "nanmax", "nanmin", "nanmean", "nanvar", "nanstd", "nanfirst", "nanlast", "nanargmax",
            "nanargmin", "count"}


def legal(c: Case) -> bool:
    """inside the documented contract (what the properties quantify over)"""
    if c.func in ARG and c.engine == "flox":
        return False
    if c.func in ARG and c.engine == "numbagg" and c.chunks is not None:
        return False
    if c.func in ("any", "all") and c.dtype != "bool":
        return False
    if c.dtype == "bool" and c.func not in ("any", "all", "sum", "nansum", "count", "mean", "nanmean"):
        return False
    if c.func in ("any", "all") and c.fill is not None and c.fill not in (0, 1, False, True):
        return False
    if c.func in ("first", "last") and c.chunks is not None and c.method != "blockwise":
        return False
    if c.min_count is not None and c.fill is None:
        return False          # a positive min_count needs a fill_value to put into masked slots
    if c.func in ARG and c.chunks is not None and c.method == "blockwise" and len(c.chunks) > 1:
        return False
    if c.chunks is not None:
        if c.method == "cohorts" and (c.dask_labels or c.reindex is True):
            return False
        if c.method == "blockwise" and c.reindex is True and not c.dask_labels:
            return False
        if c.reindex is True and (c.func in ARG or c.func in ("first", "last")):
            return False
        if c.reindex is True and c.func in FIRSTLAST and not c.dtype.startswith("float"):
            return False
        if c.dask_labels and c.expected is None and (c.reindex is True or c.method == "blockwise"):
            return False
        if c.dask_labels and c.method == "blockwise":
            return False
    return True


def make_case(rng: random.Random, *, funcs=None, chunked=None, dtypes=None, streams=None, engines=None,
              nmax=10, methods=(None, "map-reduce", "cohorts", "blockwise"), fills=(None, None, NAN, 0, -7),
              mcs=(None, None, None, 1, 2), expected_modes=None, sorts=(True, True, False), dask_labels_p=0.2,
              missing=(0, 0, 0.2), split_every=(2, 3, 4)) -> Case:
    for _ in range(200):
        func = rng.choice(funcs or REDUCTIONS)
        dtype = rng.choice(dtypes or ["float64", "float64", "float64", "int64", "int8", "bool", "float32"])
        if func in ("any", "all"):
            dtype = "bool"
        elif dtype == "bool" and func not in ("sum", "nansum", "count", "mean", "nanmean"):
            dtype = "int64"
        n = rng.randint(1, nmax)
        stream = rng.choice(streams or ["finite", "nan", "inf", "mixed"])
        vals = gen_vals(rng, n, dtype, stream)
        labels = gen_labels(rng, n, rng.randint(1, 4), rng.choice(missing), rng.choice(["random", "sorted", "periodic", "runs"]))
        exp = gen_expected(rng, labels, rng.choice(expected_modes) if expected_modes else None)
        fill = rng.choice(fills)
        if exp is not None and fill is None:
            fill = rng.choice([NAN, 0, -7])
        if func in ARG and isinstance(fill, float):
            fill = -7
        if func in ("any", "all") and fill is not None:
            fill = rng.choice([0, 1])
        mc = rng.choice(mcs)
        c = Case(func=func, dtype=dtype, vals=vals, labels=labels, expected=exp, sort=rng.choice(sorts), fill=fill,
                 min_count=mc, ddof=rng.choice([0, 0, 1]), engine=rng.choice(engines or ENGINES), stream=stream)
        is_chunked = rng.random() < 0.5 if chunked is None else chunked
        if is_chunked:
            c.method = rng.choice(methods)
            c.reindex = rng.choice([None, None, True, False])
            c.split_every = rng.choice(split_every)
            c.dask_labels = rng.random() < dask_labels_p
            if c.method == "blockwise":
                # documented precondition: every group inside one block (1-D labels are rechunked automatically
                # when they are sequential runs) -> use sorted labels
                order = sorted(range(n), key=lambda i: (c.labels[i] is None, c.labels[i] if c.labels[i] is not None else 0))
                c.labels = [c.labels[i] for i in order]
                c.dask_labels = False
            c.chunks = gen_chunks(rng, n)
        if legal(c):
            return c
    raise RuntimeError("generator could not produce a legal case")


def nontrivial(c: Case) -> bool:
    """at least two elements share a group, or there are >= 2 groups / a missing label / a NaN"""
    labs = [l for l in c.labels if l is not None]
    return len(c.vals) >= 2 and (len(set(labs)) >= 2 or len(labs) != len(c.labels) or len(labs) > len(set(labs)))


class ReduceProp(Prop):
    """generic driver: subclasses provide `gen(rng, tier, i)` and the volume"""

    quick_n = 600
    thorough_n = 6000
    in_domain = staticmethod(default_in_domain)

    def gen(self, rng, tier, i) -> Case:
        return make_case(rng)

    def corpus(self) -> list[Case]:
        return []

    def n_cases(self, tier, search):
        n = self.quick_n if tier == "quick" else self.thorough_n
        return n * 3 if search else n

    def direct_check(self, c: Case, impl: dict, oracle: dict) -> str | None:
        return cmp_impl_oracle(c, impl, oracle, self.in_domain)

    def extra_checks(self, c: Case, impl: dict, rep: Report) -> str | None:
        return None

    def run(self, rng, tier, rep: Report, search=False):
        cases = list(self.corpus()) + [self.gen(rng, tier, i) for i in range(self.n_cases(tier, search))]
        self.run_cases(cases, rep)

    def run_cases(self, cases, rep: Report):
        impls = [run_impl(c) for c in cases]
        lines, idx = [], []
        for i, (c, im) in enumerate(zip(cases, impls)):
            l = model_line(c, im.get("plan", {}))
            if l is not None:
                lines.append(l)
                idx.append(i)
        outs = core.Driver().run(lines)
        mout = {i: o for i, o in zip(idx, outs)}
        for i, (c, im) in enumerate(zip(cases, impls)):
            rep.evaluations += 1
            if nontrivial(c):
                rep.keys.add(c.key())
            plan = im.get("plan", {})
            rep.dist["func:" + c.func] += 1
            rep.dist["plan:" + ("eager" if c.chunks is None else f"{plan.get('method')}/reindex={plan.get('reindex')}")] += 1
            rep.dist["engine:" + str(c.engine or plan.get("engine") or plan.get("chosen_engine"))] += 1
            rep.dist["impl:" + (im["kind"] if im["kind"] == "ok" else im["err"])] += 1
            rep.dist["nblocks:" + str(0 if c.chunks is None else min(len(c.chunks), 9))] += 1
            orc = run_oracle(c)
            if i in mout:
                model, spec = parse_model_output(mout[i])
                rep.dist["model:" + model["kind"]] += 1
                d1 = cmp_impl_model(c, im, model)
                if d1:
                    rep.tie1.append((asdict(c), d1))
                d2 = cmp_oracle_spec(c, orc, spec)
                if d2:
                    rep.tie2.append((asdict(c), d2))
            else:
                rep.dist["model:not-expressible"] += 1
            d3 = self.direct_check(c, im, orc)
            if not d3:
                d3 = self.extra_checks(c, im, rep)
            if d3:
                rep.direct.append((asdict(c), d3))
            if len(rep.samples) < 6 and nontrivial(c):
                rep.add_sample({"case": core.jsonable(asdict(c)), "impl": core.jsonable(im.get("vals") if im["kind"] == "ok" else im),
                                "plan": core.jsonable(plan), "model_line_out": mout.get(i)})

    def replay(self, payload, rep: Report):
        d = payload["case"]
        d = {k: v for k, v in d.items()}
        for k in ("vals", "labels", "expected"):
            if d.get(k) is not None:
                d[k] = [(_unjson(x)) for x in d[k]]
        d["fill"] = _unjson(d.get("fill"))
        self.run_cases([Case(**d)], rep)

    # known findings -------------------------------------------------------------------------------
    def match_finding(self, finding, case, detail) -> bool:
        from . import findings

        pred = findings.PREDICATES.get(finding["id"])
        return bool(pred and pred(case, detail))

    def check_finding_still_fails(self, finding) -> bool | None:
        w = finding.get("witness")
        if not w or w.get("op") != "reduce":
            return None
        d = dict(w["case"])
        for k in ("vals", "labels", "expected"):
            if d.get(k) is not None:
                d[k] = [_unjson(x) for x in d[k]]
        d["fill"] = _unjson(d.get("fill"))
        c = Case(**d)
        im = run_impl(c)
        orc = run_oracle(c)
        det = self.direct_check(c, im, orc)
        return bool(det) and self.match_finding(finding, asdict(c), det)


def _unjson(x):
    if isinstance(x, str):
        if x in ("nan", "NaN"):
            return NAN
        if x in ("inf", "Infinity"):
            return INF
        if x in ("-inf", "-Infinity"):
            return -INF
    return x


# ------------------------------------------------------------------------------------------------


class C01(ReduceProp):
    id = "C01"
    lean_module = "FloxProps.C01"
    rule = ("seeded generator: 1-D values from {-3..3,5,NaN,+-inf} (float/int/bool dtypes), labels with 1-4 groups "
            "(random/sorted/periodic/runs, optional missing), eager call on every engine setting; non-trivial = at least "
            "two elements and (>=2 groups or a repeated/missing label); distinct = hash of the full case")
    quick_n = 1500
    thorough_n = 20000

    def gen(self, rng, tier, i):
        return make_case(rng, chunked=False, nmax=12 if tier == "quick" else 30, expected_modes=["none", "none", "exact", "superset"],
                         mcs=(None,), fills=(None, None, NAN, -7))


class C02(ReduceProp):
    id = "C02"
    lean_module = "FloxProps.C02"
    rule = ("seeded generator as C01 but on dask input: method in {None, map-reduce, cohorts, blockwise (sorted labels)}, "
            "reindex in {None, True, False}, numpy or dask labels, chunkings incl. all-ones / single / uneven, split_every 2-4; "
            "the oracle is NumPy per group (hence also the eager result via C01); non-trivial/distinct as C01")
    quick_n = 1200
    thorough_n = 15000

    def gen(self, rng, tier, i):
        return make_case(rng, chunked=True, nmax=10 if tier == "quick" else 24, mcs=(None, None, 1, 2))
