"""`multibin` operations (property C07): several groupers at once, categorical or binned.

Two observation levels:
  factor – `flox.core._convert_expected_groups_to_index` + `flox.core._factorize_multiple` (what `groupby_reduce`
           calls): flat codes, `grp_shape`, found groups
  multi  – `flox.groupby_reduce(array, by1, by2, …, expected_groups=(…), isbin=(…), func=…)`: result, shape, labels

For each case: impl (real flox), model + spec (Lean driver, ops `factor` / `multi`), oracle (pandas.cut for bins,
position among the sorted categories, grouping by the tuple of codes in pure Python + NumPy per group).
"""
from __future__ import annotations

import math
import random
import warnings
from dataclasses import dataclass, field, asdict
from fractions import Fraction

import numpy as np
import pandas as pd

from . import core
from .reduce_ops import APPROX, ENGINE_CLASS, _patch_flox, _recorded, err_kind, np_reduce

warnings.filterwarnings("ignore")

NAN = float("nan")
INF = float("inf")
FUNCS = ["sum", "nansum", "count", "nanmax", "max", "min", "nanmin", "mean", "nanmean"]


@dataclass
class G:
    kind: str                      # "cat" | "edges" | "ivs"
    labels: list                   # row-major floats (NaN = missing, +-inf allowed for binned groupers)
    shape: list
    expected: list | None = None   # cat: requested labels (None = not given)
    breaks: list | None = None     # edges: raw bin edges, passed with isbin=True
    ivs: list | None = None        # ivs: [[left, right], …] of a pd.IntervalIndex
    closed: str = "right"
    dask: bool = False             # labels given as a dask array
    isbin: bool = False            # ivs only: isbin flag passed along with the IntervalIndex (irrelevant to flox)
    ldtype: str = ""               # "float32": the label array is handed over in single precision (labels are float32 values)


@dataclass
class MCase:
    op: str                        # "factor" | "multi"
    groupers: list
    sort: bool = True
    ashape: list | None = None     # multi: shape of the value array
    func: str = "sum"
    dtype: str = "float64"
    vals: list | None = None
    fill: object = None
    engine: str | None = None
    method: str | None = None
    chunks: list | None = None     # None = NumPy values; else one list of chunk sizes per axis
    split_every: int = 4
    tag: str = ""

    def key(self):
        d = asdict(self)
        d.pop("tag")
        return core.case_hash(d)


def case_from_dict(d: dict) -> MCase:
    d = dict(d)
    gs = []
    for g in d["groupers"]:
        g = dict(g)
        g["labels"] = [_unjson(x) for x in g["labels"]]
        gs.append(G(**g))
    d["groupers"] = gs
    if d.get("vals") is not None:
        d["vals"] = [_unjson(x) for x in d["vals"]]
    d["fill"] = _unjson(d.get("fill"))
    return MCase(**d)


def _unjson(x):
    if isinstance(x, str):
        if x in ("nan", "NaN"):
            return NAN
        if x in ("inf", "Infinity"):
            return INF
        if x in ("-inf", "-Infinity"):
            return -INF
    return x


# ----------------------------------------------------------------------------------------------
# building the arguments


def by_array(g: G):
    labs = [float(x) for x in g.labels]
    if all(math.isfinite(x) and x == int(x) for x in labs):
        a = np.array([int(x) for x in labs], dtype="int64")
    else:
        a = np.array(labs, dtype="float64")
    if g.ldtype == "float32":
        a = np.array(labs, dtype="float32")
        assert all((x != x) or float(y) == x for x, y in zip(labs, a.tolist())), "float32 labels must be float32 values"
    return a.reshape(tuple(g.shape))


def interval_index(g: G):
    if g.kind == "edges":
        return pd.IntervalIndex.from_breaks(np.array(g.breaks, dtype="float64"))
    return pd.IntervalIndex.from_tuples([tuple(map(float, iv)) for iv in g.ivs], closed=g.closed, dtype="interval[float64]") \
        if g.ivs else pd.IntervalIndex.from_breaks(np.array([0.0]), closed=g.closed)


def expected_arg(g: G):
    if g.kind == "cat":
        if g.expected is None:
            return None
        e = np.array(g.expected)
        return e
    if g.kind == "edges":
        return np.array(g.breaks, dtype="float64")
    return interval_index(g)


def isbin_arg(g: G):
    return g.kind == "edges" or (g.kind == "ivs" and g.isbin)


def by_chunks(g: G, chunks):
    """chunks of a label array aligned with the value array's chunks (a size-1 axis has the single chunk (1,))"""
    nd = len(g.shape)
    out = []
    for ax in range(nd):
        c = chunks[len(chunks) - nd + ax]
        out.append((1,) if g.shape[ax] == 1 and sum(c) != 1 else tuple(c))
    return tuple(out)


def bcast_shape(c: MCase):
    nd = len(c.groupers[0].shape)
    return [max(g.shape[ax] for g in c.groupers) for ax in range(nd)]


# ----------------------------------------------------------------------------------------------
# implementation


def canon_groups(g):
    """returned labels of one grouper -> ("c", [Fraction|None…]) or ("i", closed, [(l, r)…])"""
    if isinstance(g, pd.IntervalIndex):
        return ("i", g.closed, [(Fraction(float(iv.left)), Fraction(float(iv.right))) for iv in g])
    a = np.asarray(g)
    if a.dtype == object and len(a) and isinstance(a.reshape(-1)[0], pd.Interval):
        items = list(a.reshape(-1))
        return ("i", items[0].closed, [(Fraction(float(iv.left)), Fraction(float(iv.right))) for iv in items])
    out = []
    for x in a.reshape(-1):
        f = float(x)
        out.append(None if math.isnan(f) else Fraction(f))
    return ("c", out)


def run_factor(c: MCase):
    import dask
    import dask.array as da
    import flox.core as fc

    try:
        bys = []
        any_dask = any(g.dask for g in c.groupers)
        for g in c.groupers:
            a = by_array(g)
            if g.dask:
                a = da.from_array(a, chunks=by_chunks(g, c.chunks))
            bys.append(a)
        exp = tuple(expected_arg(g) for g in c.groupers)
        isbin = tuple(isbin_arg(g) for g in c.groupers)
        idx = fc._convert_expected_groups_to_index(exp, isbin, c.sort)
        (group_idx,), found, grp_shape = fc._factorize_multiple(tuple(bys), idx, any_by_dask=any_dask, sort=c.sort)
        if hasattr(group_idx, "dask"):
            (group_idx,) = dask.compute(group_idx, scheduler="sync")
    except Exception as e:  # noqa
        return dict(kind="err", err=err_kind(e), msg=str(e)[:200])
    return dict(kind="ok", codes=[int(x) for x in np.asarray(group_idx).reshape(-1)], cshape=list(np.asarray(group_idx).shape),
                shape=[int(x) for x in grp_shape], groups=[canon_groups(g) for g in found])


def np_vals(c: MCase):
    return np.array(c.vals, dtype=np.dtype(c.dtype)).reshape(tuple(c.ashape))


def run_multi(c: MCase):
    import dask
    import dask.array as da
    import flox

    _patch_flox()
    _recorded.clear()
    arr = np_vals(c)
    kw = dict(func=c.func, sort=c.sort)
    exp = tuple(expected_arg(g) for g in c.groupers)
    if any(e is not None for e in exp):
        kw["expected_groups"] = exp
        kw["isbin"] = tuple(isbin_arg(g) for g in c.groupers)
    if c.fill is not None:
        kw["fill_value"] = c.fill
    if c.engine is not None:
        kw["engine"] = c.engine
    phase = "call"
    try:
        bys = []
        for g in c.groupers:
            a = by_array(g)
            if g.dask:
                a = da.from_array(a, chunks=by_chunks(g, c.chunks))
            bys.append(a)
        if c.chunks is not None:
            arr = da.from_array(arr, chunks=tuple(tuple(x) for x in c.chunks))
        if c.method is not None:
            kw["method"] = c.method
        with dask.config.set(split_every=c.split_every):
            out = flox.groupby_reduce(arr, *bys, **kw)
            phase = "compute"
            out = dask.compute(*out, scheduler="sync")
    except Exception as e:  # noqa
        return dict(kind="err", err=err_kind(e), phase=phase, msg=str(e)[:200], plan=dict(_recorded))
    res, groups = out[0], out[1:]
    return dict(kind="ok", vals=np.asarray(res), shape=list(np.asarray(res).shape), groups=[canon_groups(g) for g in groups],
                plan=dict(_recorded))


# ----------------------------------------------------------------------------------------------
# oracle: pandas.cut / sorted categories / grouping by the tuple of codes


def has_gaps(g: G) -> bool:
    if g.kind != "ivs":
        return False
    ivs = sorted(tuple(iv) for iv in g.ivs)
    return any(a[1] != b[0] for a, b in zip(ivs, ivs[1:]))


def oracle_grouper(g: G, sort: bool, target: list):
    """-> (canonical labels, codes of the labels broadcast to `target`, row-major) or None if undefined"""
    labs = np.broadcast_to(np.array([float(x) for x in g.labels]).reshape(tuple(g.shape)), tuple(target)).reshape(-1)
    if g.kind == "cat":
        if g.expected is not None:
            cats = sorted(g.expected) if sort else list(g.expected)
        else:
            pres = [x for x in g.labels if not math.isnan(x)]
            if sort:
                cats = sorted(set(pres))
            else:
                cats = []
                for x in pres:
                    if x not in cats:
                        cats.append(x)
        codes = [(cats.index(x) if (not math.isnan(x) and x in cats) else -1) for x in labs]
        return ("c", [Fraction(float(x)) for x in cats]), codes
    if g.kind == "edges":
        if len(g.breaks) < 2 or any(a >= b for a, b in zip(g.breaks, g.breaks[1:])):
            return None
        ii = pd.IntervalIndex.from_breaks(np.array(g.breaks, dtype="float64"))
    else:
        if not g.ivs or g.closed in ("both", "neither"):
            return None
        ii = pd.IntervalIndex.from_tuples([tuple(map(float, iv)) for iv in g.ivs], closed=g.closed)
        if ii.is_overlapping:
            return None
        if sort:
            ii = ii.sort_values()
        elif not ii.is_monotonic_increasing:
            return None            # an unsorted IntervalIndex with sort=False is refused by flox (ValueError): outside the domain
    try:
        codes = [int(x) for x in pd.cut(labs, ii).codes]
    except Exception:  # noqa
        return None
    return ("i", ii.closed, [(Fraction(float(iv.left)), Fraction(float(iv.right))) for iv in ii]), codes


def flat_code(row, shape):
    if any(x == -1 for x in row):
        return -1
    out = 0
    for x, d in zip(row, shape):
        out = out * d + x
    return out


def oracle_factor(c: MCase):
    target = bcast_shape(c)
    per = [oracle_grouper(g, c.sort, target) for g in c.groupers]
    if any(p is None for p in per):
        return dict(kind="undefined")
    groups = [p[0] for p in per]
    shape = [len(g[1]) if g[0] == "c" else len(g[2]) for g in groups]
    cols = [p[1] for p in per]
    n = len(cols[0])
    codes = [flat_code([col[e] for col in cols], shape) for e in range(n)]
    return dict(kind="ok", groups=groups, shape=shape, cols=cols, codes=codes)


def effective(c: MCase):
    provided = any(expected_arg(g) is not None for g in c.groupers)
    mc = 1 if (c.fill is not None and provided) else 0
    fill = c.fill
    if mc > 0 and c.func in ("nansum", "nanprod") and fill is None:
        fill = NAN
    if c.func in ("nanmin", "nanmax") and mc == 0:
        mc = 1
        if fill is None:
            fill = NAN
    if np.dtype(c.dtype).kind in "iu" and isinstance(fill, float) and math.isnan(fill) and c.func != "mean" and c.func != "nanmean":
        fill = None      # NaN cannot be stored in an integer result: the entry is not specified
    return provided, mc, fill


def oracle_multi(c: MCase):
    """slot values: a number, or None = not specified (empty / under-populated entry and no fill given)"""
    target = list(c.ashape)
    per = [oracle_grouper(g, c.sort, target) for g in c.groupers]
    if any(p is None for p in per):
        return dict(kind="undefined")
    groups = [p[0] for p in per]
    shape = [len(g[1]) if g[0] == "c" else len(g[2]) for g in groups]
    cols = [p[1] for p in per]
    arr = np.array(c.vals, dtype=np.dtype(c.dtype))
    provided, mc, fill = effective(c)
    buckets: dict = {}
    for e in range(len(arr)):
        row = tuple(col[e] for col in cols)
        if -1 in row:
            continue
        buckets.setdefault(row, []).append(e)
    out = []
    import itertools

    for idx in itertools.product(*[range(d) for d in shape]):
        pos = np.array(buckets.get(idx, []), dtype=int)
        ms = arr[pos]
        nvalid = int(np.sum(~np.isnan(ms))) if ms.dtype.kind == "f" else len(ms)
        if len(ms) == 0 and not provided:
            # a tuple of present labels that never occurs together, no expected_groups: the property does not say what
            # an empty reduction is (flox: the identity or fill_value, depending on the plan)
            out.append(None)
        elif len(ms) == 0 or nvalid < mc:
            out.append(fill)        # None = unspecified
        else:
            out.append(np_reduce(c.func, ms, pos, 0))
    return dict(kind="ok", groups=groups, shape=shape, vals=out)


# ----------------------------------------------------------------------------------------------
# model lines


def grouper_tokens(g: G) -> str:
    shape = ",".join(map(str, g.shape))
    if g.kind == "cat":
        ex = "-" if g.expected is None else ("[]" if not g.expected else core.toks(g.expected))
        return f"kind=cat expected={ex} shape={shape}"
    if g.kind == "edges":
        return f"kind=edges breaks={core.toks(g.breaks) if g.breaks else '[]'} shape={shape}"
    ivs = ";".join(core.tok(l) + "~" + core.tok(r) for l, r in g.ivs) if g.ivs else "[]"
    return f"kind=ivs closed={g.closed} ivs={ivs} shape={shape}"


def lazy_mode(c: MCase):
    """how `_factorize_multiple` runs: 'eager', 'lazy' (1-D dask labels: modelled block by block) or
    'lazy-elementwise' (n-D dask labels: every block is factorized against the global found groups, so every code is
    a function of its element alone; the model evaluates the whole arrays)"""
    if not any(g.dask for g in c.groupers):
        return "eager"
    if any(empty_grouper(g) for g in c.groupers):
        # a grouper without any group: the lazy code array fails when computed on its own (np.ravel_multi_index /
        # indexing an empty index), but groupby_reduce never computes it because the result is empty
        return "lazy-empty"
    if len(c.groupers[0].shape) == 1:
        return "lazy"
    return "lazy-elementwise"


def empty_grouper(g: G) -> bool:
    if g.kind == "cat":
        if g.expected is not None:
            return len(g.expected) == 0
        return all(isinstance(l, float) and math.isnan(l) for l in g.labels)
    return False


def groupers_sections(c: MCase) -> str:
    return " | ".join(grouper_tokens(g) + " | " + core.toks(g.labels) for g in c.groupers)


def label_chunks(c: MCase):
    return ",".join(map(str, c.chunks[-1])) if c.chunks is not None else ""


def factor_line(c: MCase) -> str | None:
    m = lazy_mode(c)
    if m is None or m == "lazy-empty":
        return None
    mode = "lazy" if m == "lazy" else "eager"
    return (f"factor sort={1 if c.sort else 0} mode={mode} chunks={label_chunks(c) if mode == 'lazy' else ''} "
            f"nby={len(c.groupers)} | " + groupers_sections(c))


def multi_line(c: MCase, plan: dict) -> str | None:
    m = lazy_mode(c)
    if m is None:
        return None
    mode = "lazy" if m == "lazy" else "eager"
    dt = np.dtype(c.dtype)
    dk = {"float64": "f8", "int64": "i8"}[dt.name]
    eng = c.engine or plan.get("engine") or plan.get("chosen_engine") or "numpy"
    p, chunks = "eager", ""
    if c.chunks is not None and len(c.ashape) == 1:
        meth = plan.get("method")
        if meth is None:
            return None
        chunks = ",".join(str(x) for x in (plan.get("chunks") or c.chunks[-1]))
        if meth == "map-reduce":
            p = "mapreduce:" + ("1" if plan.get("reindex") else "0")
        elif meth == "blockwise":
            p = "blockwise:" + ("1" if plan.get("reindex") else "0")
        else:
            cs = plan.get("cohorts") or []
            if any(len(l) == 0 for _, l in cs):
                return None          # a cohort without labels: not expressible in the driver's plan syntax
            p = "cohorts:" + ";".join(".".join(map(str, b)) + "~" + ".".join(map(str, l)) for b, l in cs)
    provided = any(expected_arg(g) is not None for g in c.groupers)
    head = (f"multi func={c.func} dk={dk} fill={'-' if c.fill is None else core.tok(c.fill)} provided={1 if provided else 0} "
            f"minc=- eng={ENGINE_CLASS[eng]} sort={1 if c.sort else 0} se={c.split_every} float={1 if dt.kind == 'f' else 0} "
            f"plan={p} chunks={chunks} mode={mode} lchunks={label_chunks(c) if mode == 'lazy' else ''} "
            f"ashape={','.join(map(str, c.ashape))} nby={len(c.groupers)}")
    return head + " | " + groupers_sections(c) + " | " + core.toks(np_vals(c).reshape(-1).tolist())


def parse_groups(s: str):
    out = []
    for part in s.split("&"):
        if part.startswith("c:"):
            body = part[2:]
            out.append(("c", [None if t == "n" else Fraction(t) for t in body.split(",") if t != ""]))
        elif part.startswith("i:"):
            _, closed, body = part.split(":", 2)
            ivs = []
            for iv in body.split(";"):
                if iv:
                    l, r = iv.split("~")
                    ivs.append((Fraction(l), Fraction(r)))
            out.append(("i", closed, ivs))
        else:
            out.append(("?", part))
    return out


def parse_side(s: str):
    s = s.strip()
    if s.startswith("ok "):
        d = {"kind": "ok"}
        for t in s[3:].split(" "):
            k, _, v = t.partition("=")
            d[k] = v
        d["shape"] = [int(x) for x in d.get("shape", "").split(",") if x != ""]
        d["groups"] = parse_groups(d.get("groups", ""))
        if "codes" in d:
            d["codes"] = [int(x) for x in d["codes"].split(",") if x != ""]
        if "cols" in d:
            d["cols"] = [[int(x) for x in col.split(",") if x != ""] for col in d["cols"].split("&")]
        if "vals" in d:
            d["vals"] = [x for x in d["vals"].split(",") if x != ""]
        return d
    if s.startswith("err "):
        return dict(kind="err", err=s[4:].strip())
    return dict(kind="unsupported", why=s)


def parse_output(line: str):
    if not line.startswith("model "):
        return dict(kind="bad", why=line), dict(kind="bad", why=line)
    m, _, s = line[6:].partition(" ; spec ")
    return parse_side(m), parse_side(s)


# ----------------------------------------------------------------------------------------------
# comparisons (None = agree)


def _ek(d) -> str:
    return str(d.get("err", "")).replace("internal:", "")


def cmp_groups(a, b) -> str | None:
    if len(a) != len(b):
        return f"number of label arrays differs: {len(a)} vs {len(b)}"
    for i, (x, y) in enumerate(zip(a, b)):
        if tuple(x) != tuple(y) and list(x) != list(y):
            return f"labels of grouper {i} differ: {x} vs {y}"
    return None


def cmp_factor_impl_model(impl, model) -> str | None:
    if model["kind"] in ("unsupported", "bad"):
        return None if model["kind"] == "unsupported" else f"driver: {model['why']}"
    if impl["kind"] == "err" or model["kind"] == "err":
        if impl["kind"] == model["kind"] and _ek(impl) == _ek(model):
            return None
        return f"impl {impl.get('err', 'returned')} ({impl.get('msg', '')}) vs model {model.get('err', 'returned')}"
    if impl["shape"] != model["shape"]:
        return f"grp_shape differs: impl {impl['shape']} model {model['shape']}"
    d = cmp_groups(impl["groups"], model["groups"])
    if d:
        return "found groups: " + d
    if impl["codes"] != model["codes"]:
        return f"codes differ: impl {impl['codes']} model {model['codes']}"
    return None


def cmp_factor_oracle_spec(orc, spec) -> str | None:
    if orc["kind"] != "ok" or spec["kind"] != "ok":
        return None
    if orc["shape"] != spec["shape"]:
        return f"shape: oracle {orc['shape']} spec {spec['shape']}"
    d = cmp_groups(orc["groups"], spec["groups"])
    if d:
        return d
    if orc["cols"] != spec["cols"]:
        return f"per-grouper codes: oracle (pandas.cut) {orc['cols']} spec {spec['cols']}"
    return None


def cmp_factor_impl_oracle(impl, orc, c: MCase | None = None) -> str | None:
    if orc["kind"] != "ok":
        return None
    if impl["kind"] == "err":
        if (c is not None and any(g.dask for g in c.groupers) and 0 in orc["shape"]
                and any(empty_grouper(g) for g in c.groupers)):
            # dask labels and a grouper without any group: the lazy code array cannot be computed on its own, but
            # groupby_reduce never computes it (the result has a zero-length axis) - checked at the API level (`multi`)
            return None
        return f"impl raised {impl['err']}: {impl.get('msg', '')}"
    if impl["shape"] != orc["shape"]:
        return f"grp_shape {impl['shape']} but tuple-key grouping has {orc['shape']}"
    d = cmp_groups(impl["groups"], orc["groups"])
    if d:
        return d
    if impl["codes"] != orc["codes"]:
        bad = [i for i, (a, b) in enumerate(zip(impl["codes"], orc["codes"])) if a != b]
        return f"codes differ from pandas.cut / tuple-key codes at elements {bad[:6]}: impl {impl['codes']} oracle {orc['codes']}"
    return None


def value_mode(c: MCase) -> str:
    return APPROX.get(c.func, "exact")


def _same(tok_or_val, impl_val, mode) -> bool:
    if isinstance(impl_val, (int, np.integer)) and not isinstance(impl_val, (bool, np.bool_)):
        m = core.untok(tok_or_val) if isinstance(tok_or_val, str) else tok_or_val
        return (not isinstance(m, float)) and Fraction(m) == int(impl_val)
    return core.same_value(tok_or_val, impl_val, mode)


def plan_substituted(c: MCase) -> bool:
    """n-D chunked input: the model is evaluated with the eager plan; entries the property leaves unspecified (empty
    entry without fill_value) may then legitimately differ by plan (default fills / 'Filling is required')"""
    return c.chunks is not None and len(c.ashape) > 1


def cmp_multi_impl_model(c: MCase, impl, model, orc=None) -> str | None:
    if model["kind"] in ("unsupported", "bad"):
        return None if model["kind"] == "unsupported" else f"driver: {model['why']}"
    unspecified = set()
    if plan_substituted(c):
        if orc is None or orc["kind"] != "ok":
            return None      # (closed='neither' etc.: which entries are specified is not known; plan-dependent default fills)
        unspecified = {j for j, v in enumerate(orc["vals"]) if v is None}
    if impl["kind"] == "err" or model["kind"] == "err":
        if impl["kind"] == model["kind"] and _ek(impl) == _ek(model):
            return None
        if plan_substituted(c) and c.fill is None and "ValueError" in (_ek(impl), _ek(model)):
            return None      # 'Filling is required': whether flox refuses a missing fill_value depends on the plan
        return f"impl {impl.get('err', 'returned')} ({impl.get('msg', '')}) vs model {model.get('err', 'returned')}"
    if impl["shape"] != model["shape"]:
        return f"result shape differs: impl {impl['shape']} model {model['shape']}"
    d = cmp_groups(impl["groups"], model["groups"])
    if d:
        return "returned labels: " + d
    flat = list(np.asarray(impl["vals"]).reshape(-1))
    if len(flat) != len(model["vals"]):
        return f"size differs: impl {len(flat)} model {len(model['vals'])}"
    mode = value_mode(c)
    for j, (a, b) in enumerate(zip(model["vals"], flat)):
        if j in unspecified:
            continue
        if not _same(a, b, mode):
            return f"value differs at flat slot {j}: model {a} impl {b!r}"
    return None


def cmp_multi_oracle_spec(c: MCase, orc, spec) -> str | None:
    if orc["kind"] != "ok" or spec["kind"] != "ok":
        return None
    if orc["shape"] != spec["shape"]:
        return f"shape: oracle {orc['shape']} spec {spec['shape']}"
    d = cmp_groups(orc["groups"], spec["groups"])
    if d:
        return d
    mode = value_mode(c)
    if len(orc["vals"]) != len(spec["vals"]):
        return "size differs"
    for j, (a, b) in enumerate(zip(spec["vals"], orc["vals"])):
        if b is None and a == "nan" and np.dtype(c.dtype).kind in "iu":
            continue        # NaN fill on an integer result: not specified
        if b is None or a == "u":
            if (b is None) != (a == "u"):
                return f"slot {j}: spec {a} oracle {b!r}"
            continue
        if not _same(a, b, mode):
            return f"slot {j}: spec {a} oracle {b!r}"
    return None


def cmp_multi_impl_oracle(c: MCase, impl, orc) -> str | None:
    """the property: one trailing axis per grouper, the requested labels, every entry = reduction of the elements with
    exactly that label tuple"""
    if orc["kind"] != "ok":
        return None
    if impl["kind"] == "err":
        if impl["err"] == "ValueError" and c.fill is None and (any(v is None for v in orc["vals"]) or "fill_value" in impl.get("msg", "")):
            return None      # an empty entry and no fill_value: flox may refuse (same convention as C05)
        return f"impl raised {impl['err']} at {impl.get('phase')}: {impl.get('msg', '')}"
    if impl["shape"] != orc["shape"]:
        return f"result shape {impl['shape']}: expected one trailing axis per grouper {orc['shape']}"
    d = cmp_groups(impl["groups"], orc["groups"])
    if d:
        return "returned labels: " + d
    flat = list(np.asarray(impl["vals"]).reshape(-1))
    mode = value_mode(c)
    import itertools

    idxs = list(itertools.product(*[range(k) for k in orc["shape"]]))
    for j, (idx, ov) in enumerate(zip(idxs, orc["vals"])):
        if ov is None:
            continue
        iv = flat[j]
        try:
            fo, fi = float(ov), float(iv)
        except Exception:  # noqa
            return f"entry {idx}: impl {iv!r} oracle {ov!r}"
        if math.isnan(fo):
            ok = math.isnan(fi)
        elif mode == "exact" or fo == fi or math.isinf(fo) or math.isinf(fi):
            ok = fo == fi
        else:
            ok = abs(fo - fi) <= 2 * math.ulp(fo)
        if not ok:
            return f"entry {idx}: impl {iv!r} oracle {ov!r}"
    return None


# ----------------------------------------------------------------------------------------------
# generators

EDGE_POOL = [-2.0, -1.0, 0.0, 0.5, 1.0, 1.5, 2.0, 3.0, 4.0]
CAT_POOL = [0, 1, 2, 3, 5, 7, -2]


def gen_edges(rng: random.Random, kmin=2, kmax=4):
    k = rng.randint(kmin, kmax)
    return sorted(rng.sample(EDGE_POOL, k))


def gen_bin_labels(rng: random.Random, edges: list, n: int, special=0.3):
    lo, hi = min(edges), max(edges)
    mids = [(a + b) / 2 for a, b in zip(edges, edges[1:])]
    out = []
    for _ in range(n):
        r = rng.random()
        if r < special:
            out.append(rng.choice([NAN, INF, -INF, lo - 1, hi + 1, lo - 0.25, hi + 0.25]))
        elif r < special + 0.4:
            out.append(rng.choice(edges))          # exactly on an edge
        else:
            out.append(rng.choice(mids + edges + [lo, hi]))
    return out


def gen_grouper(rng: random.Random, shape: list, kinds=("cat", "cat", "edges", "ivs", "ivs"), allow_gaps=False,
                allow_odd=False) -> G:
    n = math.prod(shape)
    kind = rng.choice(kinds)
    if kind == "cat":
        ng = rng.randint(1, 3)
        base = rng.sample(CAT_POOL, ng)
        labels = [float(rng.choice(base)) for _ in range(n)]
        miss = rng.choice([0, 0, 0.25])
        labels = [NAN if rng.random() < miss else l for l in labels]
        pres = sorted({l for l in labels if not math.isnan(l)})
        mode = rng.choice(["none", "none", "exact", "superset", "subset", "unsorted"])
        if mode == "none":
            exp = None
        elif mode == "exact":
            exp = [int(x) for x in pres] or [11]
        elif mode == "superset":
            exp = sorted({int(x) for x in pres} | {11, 12})
        elif mode == "subset":
            exp = [int(x) for x in pres if rng.random() < 0.6] or [11]
        else:
            exp = sorted({int(x) for x in pres} | {11})
            rng.shuffle(exp)
        return G(kind="cat", labels=labels, shape=list(shape), expected=exp)
    edges = gen_edges(rng)
    labels = gen_bin_labels(rng, edges, n)
    ldtype = ""
    if rng.random() < 0.2:
        # single-precision labels against double-precision edges that float32 cannot represent (k/10): a label that is the
        # float32 rounding of an edge lies strictly on one side of that edge, as pandas.cut sees it
        edges = [e / 10 for e in edges]
        labels = [x if (x != x or math.isinf(x)) else float(np.float32(x / 10)) for x in labels]
        ldtype = "float32"
    if kind == "edges":
        return G(kind="edges", labels=labels, shape=list(shape), breaks=edges, ldtype=ldtype)
    if ldtype:
        ivs = [[a, b] for a, b in zip(edges, edges[1:])]
        return G(kind="ivs", labels=labels, shape=list(shape), ivs=ivs, closed=rng.choice(["left", "right"]), isbin=rng.random() < 0.5,
                 ldtype=ldtype)
    if kind == "edges":
        return G(kind="edges", labels=labels, shape=list(shape), breaks=edges)
    ivs = [[a, b] for a, b in zip(edges, edges[1:])]
    closed = rng.choice(["left", "right"])
    if allow_gaps and len(ivs) >= 2 and rng.random() < 0.5:
        # a non-contiguous IntervalIndex: shrink one interval (not the last) from the right
        j = rng.randrange(len(ivs) - 1)
        ivs[j][1] = (ivs[j][0] + ivs[j][1]) / 2
        labels = labels + []
        labels[rng.randrange(n)] = (ivs[j][1] + ivs[j + 1][0]) / 2      # a value inside the gap
    if rng.random() < 0.3:
        rng.shuffle(ivs)       # an unsorted IntervalIndex (flox sorts it when sort=True)
    if allow_odd and rng.random() < 0.3:
        closed = rng.choice(["both", "neither"])
    return G(kind="ivs", labels=labels, shape=list(shape), ivs=ivs, closed=closed, isbin=rng.random() < 0.5)


def gen_chunks_1d(rng: random.Random, n: int):
    kind = rng.choice(["ones", "single", "random", "random", "even"])
    if kind == "ones":
        return [1] * n
    if kind == "single":
        return [n]
    if kind == "even":
        k = rng.randint(1, max(1, n // 2))
        out = [k] * (n // k)
        if n % k:
            out.append(n % k)
        return out
    out, left = [], n
    while left > 0:
        k = rng.randint(1, min(left, 4))
        out.append(k)
        left -= k
    return out


def gen_shapes(rng: random.Random, nby: int, nmax: int, two_d: bool):
    """-> (array shape, [shape per grouper])"""
    if not two_d:
        n = rng.randint(1, nmax)
        return [n], [[n] for _ in range(nby)]
    r, cdim = rng.randint(1, 3), rng.randint(1, 4)
    shapes = []
    for _ in range(nby):
        shapes.append(rng.choice([[r, cdim], [r, 1], [1, cdim], [r, cdim]]))
    return [r, cdim], shapes


def gen_vals(rng: random.Random, n: int, dtype: str):
    if dtype == "int64":
        return [rng.choice([-3, -1, 0, 1, 2, 3, 5]) for _ in range(n)]
    return [NAN if rng.random() < 0.15 else float(rng.choice([-3, -1, 0, 1, 2, 3, 5])) for _ in range(n)]


def finding_cell_lazy(c: MCase) -> bool:
    """a dask grouper together with a NumPy categorical grouper that has no expected groups (the cell of the repaired defect C07-F1)"""
    return any(g.dask for g in c.groupers) and any((not g.dask) and g.kind == "cat" and g.expected is None for g in c.groupers)


def finding_cell_gaps(c: MCase) -> bool:
    """an IntervalIndex whose intervals are not contiguous (the cell of the repaired defect C07-F2)"""
    return any(has_gaps(g) for g in c.groupers)


def finding_cell_all_dropped(c: MCase) -> bool:
    """chunked values, method=None and no element belongs to any requested tuple of groups (the cell of the repaired
    defect C07-F4)"""
    if c.op != "multi" or c.chunks is None or c.method is not None:
        return False
    o = oracle_factor(c)
    return o["kind"] == "ok" and all(x == -1 for x in o["codes"])


def make_case(rng: random.Random, op: str, *, nby=None, two_d=None, dask_p=0.4, nmax=10, gaps_p=0.15, lazycell_p=0.5,
              odd_p=0.03) -> MCase:
    for _ in range(500):
        k = nby or rng.choice([1, 2, 2, 2, 3])
        td = (rng.random() < 0.3) if two_d is None else two_d
        ashape, shapes = gen_shapes(rng, k, nmax, td)
        allow_gaps = rng.random() < gaps_p
        gs = [gen_grouper(rng, s, allow_gaps=allow_gaps, allow_odd=rng.random() < odd_p) for s in shapes]
        c = MCase(op=op, groupers=gs, sort=rng.choice([True, True, True, False]), ashape=ashape)
        chunked = rng.random() < dask_p
        if chunked:
            c.chunks = [gen_chunks_1d(rng, d) for d in ashape]
            want_cell = rng.random() < lazycell_p
            for g in gs:
                # dask labels need expected groups (flox refuses otherwise)
                if (g.kind != "cat" or g.expected is not None) and rng.random() < 0.5:
                    g.dask = True
            if finding_cell_lazy(c) and not want_cell:
                for g in gs:
                    if not g.dask and g.kind == "cat" and g.expected is None:
                        pres = sorted({int(l) for l in g.labels if not math.isnan(l)})
                        g.expected = pres or [11]
        if op == "factor":
            if c.chunks is not None and not any(g.dask for g in gs):
                c.chunks = None
            c.tag = "factor"
            return c
        c.func = rng.choice(FUNCS)
        c.dtype = rng.choice(["float64", "float64", "int64"])
        c.vals = gen_vals(rng, math.prod(ashape), c.dtype)
        c.fill = rng.choice([None, NAN, -7, 0, NAN, -7])
        if c.dtype == "int64" and isinstance(c.fill, float):
            c.fill = rng.choice([-7, 0])
        c.engine = rng.choice([None, None, "numpy", "flox"])
        if chunked:
            c.method = rng.choice([None, "map-reduce", "cohorts"])
            if c.method == "cohorts" and any(g.dask for g in gs):
                c.method = "map-reduce"
            c.split_every = rng.choice([2, 3, 4])
        c.tag = "multi"
        return c
    raise RuntimeError("no case")


def nontrivial(c: MCase) -> bool:
    n = math.prod(bcast_shape(c))
    return n >= 2 and (len(c.groupers) >= 2 or any(g.kind != "cat" for g in c.groupers))
