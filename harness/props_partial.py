"""C08 - partial-axis reductions and leading (batch) dimensions are independent slices.

Streams (all seeded from the rng handed to `run`):
  axes   - for every (value ndim 1-4, label ndim 1-3) layout, EVERY non-empty subset of the label dims in every order
           and every sign pattern (plus the bare-int forms): eager, chunked/map-reduce, chunked/method=None
           (thorough: additionally chunked along each single axis in turn, several reductions per variant)
  random - random layouts, reductions (order-free ones on any axis subset, order-sensitive ones on a single axis),
           dtypes, engines, fills, chunkings, numpy or dask labels; labels with missing entries / absent groups spread
           unevenly over the slices
Each case: real flox vs Lean model (tie 1), NumPy slice-by-slice oracle vs Lean spec (tie 2), flox vs oracle (the
property: values, shape, announced lazy shape).
"""
from __future__ import annotations

import math
import random
from dataclasses import asdict

from . import core
from .framework import Prop, Report
from .partial_ops import (
    ARG, NAN, ORDER_FREE, ORDERED, PCase, axis_variants, cmp_impl_model, cmp_impl_oracle, cmp_oracle_spec,
    gen_chunks_dim, gen_labels_uneven, gen_vals, model_line, norm_axis, parse_model_output, run_impl, run_oracle,
)

LAYOUTS = [(nd, bn) for nd in range(1, 5) for bn in range(1, min(3, nd) + 1)]
EXPECTED = [[0, 1, 2], [0, 1], [1, 3, 7]]
AXES_FUNCS_THOROUGH = ["sum", "nanmax", "count", "nanmean"]


def legal(c: PCase) -> bool:
    """inside the documented contract"""
    nax = c.by_ndim if c.axis is None else (1 if isinstance(c.axis, int) else len(c.axis))
    if c.func in ORDERED and nax != 1:
        return False
    if c.func in ARG and c.engine == "flox":
        return False
    if c.func in ARG and c.engine == "numbagg" and c.chunks is not None:
        return False
    if c.func in ("first", "last") and c.chunks is not None:
        return False                  # documented: dask input needs method="blockwise" for first/last
    if c.func in ("any", "all") and c.dtype != "bool":
        return False
    if c.dtype == "bool" and c.func not in ("any", "all"):
        return False
    if c.chunks is not None and c.method == "cohorts":
        return False
    return True


def make_data(rng: random.Random, c: PCase, size_hi: int = 3):
    nd = len(c.shape)
    c.vals = gen_vals(rng, math.prod(c.shape), c.dtype, c.stream)
    pool = c.expected if c.expected is not None else rng.choice(EXPECTED)      # expected_groups not given: labels from a pool
    c.labels = gen_labels_uneven(rng, c.shape[nd - c.by_ndim:], len(pool), pool)


def pick_fill(rng, func, dtype):
    if func in ("any", "all"):
        return rng.choice([0, 1])
    if func in ARG:
        return -7
    if dtype == "float64":
        return rng.choice([NAN, -7, 0])
    return rng.choice([-7, 0])


def random_case(rng: random.Random, tier: str) -> PCase:
    for _ in range(200):
        nd, bn = rng.choice(LAYOUTS)
        hi = 3 if tier == "quick" else 4
        shape = [rng.randint(1, hi) for _ in range(nd)]
        func = rng.choice(ORDER_FREE + ORDER_FREE + ORDERED)
        axis = rng.choice(axis_variants(nd, bn) + [None])
        if func in ORDERED:
            d = rng.choice(range(nd - bn, nd))
            axis = rng.choice([d, d - nd, [d], [d - nd]])
        dtype = "bool" if func in ("any", "all") else rng.choice(["float64", "float64", "int64"])
        c = PCase(func=func, dtype=dtype, shape=shape, by_ndim=bn, vals=[], labels=[], axis=axis,
                  expected=rng.choice(EXPECTED), fill=pick_fill(rng, func, dtype),
                  engine=rng.choice(["numpy", "numpy", "flox"] if tier == "quick" else ["numpy"] * 10 + ["flox"] * 6 + [None, "numbagg"]),
                  stream=rng.choice(["finite", "nan", "mixed"]) if func not in ARG else rng.choice(["finite", "nan"]))
        if func in ("var", "nanvar"):
            c.ddof = rng.choice([0, 0, 1])
        if rng.random() < 0.6:
            c.chunks = [gen_chunks_dim(rng, s) for s in shape]
            c.method = rng.choice([None, "map-reduce", "map-reduce"])
            c.dask_labels = rng.random() < 0.2
        if rng.random() < 0.25:
            # expected_groups not given: the labels found are the groups; a group absent from one slice still gets the user's
            # fill_value (no Lean model line for these cases: compared with the NumPy oracle only)
            c.expected = None
            c.dask_labels = False
        make_data(rng, c)
        if legal(c):
            return c
    raise RuntimeError("generator could not produce a legal case")


def chunk_modes(nd: int, tier: str):
    """(name, chunk spec builder) ; 'ones@d' = size-1 chunks along dim d only"""
    modes = [("eager", None), ("all-ones/map-reduce", "all"), ("all-ones/auto", "all")]
    if tier == "thorough":
        for d in range(nd):
            modes.append((f"ones@{d}/map-reduce", d))
            modes.append((f"ones@{d}/auto", d))
    return modes


def axes_cases(rng: random.Random, tier: str) -> list[PCase]:
    """exhaustive enumeration of the axis space on one random small array per (layout, variant, mode)"""
    out = []
    funcs_per = 1 if tier == "quick" else len(AXES_FUNCS_THOROUGH)
    for nd, bn in LAYOUTS:
        for axis in axis_variants(nd, bn):
            for name, spec in chunk_modes(nd, tier):
                for fi in range(funcs_per):
                    func = rng.choice(ORDER_FREE[:11]) if tier == "quick" else AXES_FUNCS_THOROUGH[fi]
                    shape = [rng.randint(2, 3) if nd <= 2 else 2 for _ in range(nd)]
                    if nd >= 3 and spec is None:
                        shape[rng.randrange(nd)] = 3
                    c = PCase(func=func, dtype="float64", shape=shape, by_ndim=bn, vals=[], labels=[], axis=axis,
                              expected=rng.choice(EXPECTED), fill=rng.choice([NAN, -7]), stream=rng.choice(["finite", "nan"]),
                              engine=rng.choice(["numpy", "numpy", "flox"]))
                    if spec is not None:
                        c.chunks = [[1] * s if (spec == "all" or spec == d) else [s] for d, s in enumerate(shape)]
                        c.method = "map-reduce" if name.endswith("map-reduce") else None
                    make_data(rng, c)
                    c.stream = "axes:" + name.split("/")[0].split("@")[0]
                    out.append(c)
    return out


def _impl_worker(c: PCase):
    return run_impl(c)


def run_impls(cases: list[PCase]) -> list[dict]:
    """the real flox on every case.  Cases on the numpy / flox engines go through a process pool (fork; results are
    returned in order and every case is self-contained, so the outcome does not depend on the scheduling); cases that may
    use numbagg (engine None / "numbagg") run afterwards in this process, because 16 processes JIT-compiling the same
    numba kernels at once take minutes instead of seconds"""
    import multiprocessing as mp
    import os

    nproc = min(16, os.cpu_count() or 1)
    par = [i for i, c in enumerate(cases) if c.engine in ("numpy", "flox")]
    out: list = [None] * len(cases)
    if len(par) >= 64 and nproc >= 2:
        with mp.get_context("fork").Pool(nproc) as pool:
            for i, r in zip(par, pool.map(_impl_worker, [cases[i] for i in par], chunksize=4)):
                out[i] = r
    for i, c in enumerate(cases):
        if out[i] is None:
            out[i] = run_impl(c)
    return out


def nontrivial(c: PCase) -> bool:
    """>= 2 elements per slice or >= 2 slices, and at least one present label"""
    labs = [l for l in c.labels if l is not None]
    return len(c.vals) >= 2 and len(labs) >= 1


def slice_stats(c: PCase):
    """(has a missing label, groups absent from some slice but present in another)"""
    ax = norm_axis(c)
    if ax is None:
        return False, False
    import numpy as np

    nd = len(c.shape)
    lab = np.array([np.nan if l is None else float(l) for l in c.labels]).reshape(c.by_shape)
    bax = tuple(sorted(a - (nd - c.by_ndim) for a in ax))
    kept = [d for d in range(c.by_ndim) if d not in bax]
    moved = np.transpose(lab, kept + list(bax)).reshape(int(np.prod([lab.shape[d] for d in kept])) if kept else 1, -1)
    sets = [set(row[~np.isnan(row)].tolist()) for row in moved]
    uneven = len(sets) > 1 and any(s != sets[0] for s in sets[1:])
    return bool(np.isnan(lab).any()), uneven


class C08(Prop):
    id = "C08"
    lean_module = "FloxProps.C08"
    level = "proof"
    rule = ("two seeded streams. (axes) for each of the 9 layouts (value ndim 1-4 x label ndim 1-3, labels on the trailing dims) "
            "EVERY non-empty subset of the label dims in every order and every sign pattern, plus the bare-int forms (232 axis "
            "arguments), each run eager, chunked with size-1 chunks on all dims under method='map-reduce' and under method=None "
            "(thorough: also chunked along each single dim in turn, four reductions per variant); (random) random layouts/shapes "
            "(dims 1-3, thorough 1-4), 15 order-free reductions on any axis subset and 8 order-sensitive ones on a single axis, "
            "float64/int64/bool data with NaN/+-inf, engines numpy/flox (thorough: also None and numbagg), fills NaN/-7/0, random chunkings, numpy or "
            "dask labels, expected_groups given (75 %) or not (the labels found are the groups; oracle only). Labels: every index of the first label dim draws its own missing-rate (0/0.3/0.7/1) and its own subset "
            "of the expected groups, so missing labels and absent groups are spread unevenly over slices; sometimes a label "
            "outside expected_groups. Checks per case: flox == Lean model (values, shape, error kind), NumPy slice-by-slice oracle "
            "== Lean spec, flox == oracle (values exactly; mean 4ulp; var 1e-9), result shape == kept dims ascending + group axis "
            "last, announced lazy shape == computed shape. non-trivial = >= 2 elements and a present label; distinct = hash of the "
            "full case")
    assumptions = [
        "value-level theorems cover the situation after _move_reduce_dims_to_end/_collapse_axis (labels R x N, values B x R x N); "
        "the transposition of values for 3-D labels / several reduced axes is tied by correspondence only",
        "chunked values are modelled as 'eager values unless an order-dependent graph step fails' (per-block value algebra: C02/C03)",
        "numpy_groupies / numbagg treat the rows of a 2-D value array independently (validated by execution on every run)",
    ]

    def n_random(self, tier, search):
        n = 1600 if tier == "quick" else 8000
        return n * 3 if search else n

    def run(self, rng, tier, rep: Report, search=False):
        cases = axes_cases(rng, tier) + [random_case(rng, tier) for _ in range(self.n_random(tier, search))]
        rep.extra["axis_space"] = {"layouts": len(LAYOUTS), "axis_arguments_enumerated": sum(len(axis_variants(nd, bn)) for nd, bn in LAYOUTS),
                                   "exhaustive_over": "all non-empty subsets x orders x signs of the label dims (+ int forms) for every layout"}
        self.run_cases(cases, rep)

    def run_cases(self, cases, rep: Report):
        impls = run_impls(cases)
        lines, idx = [], []
        for i, (c, im) in enumerate(zip(cases, impls)):
            l = model_line(c, im.get("plan", {}))
            if l is not None:
                lines.append(l)
                idx.append(i)
        outs = core.Driver().run(lines)
        mout = {i: o for i, o in zip(idx, outs)}
        for i, (c, im) in enumerate(zip(cases, impls)):
            rep.evaluations += 1
            if nontrivial(c):
                rep.keys.add(c.key())
            plan = im.get("plan", {})
            ax = norm_axis(c)
            nax = len(ax) if ax is not None else -1
            has_missing, uneven = slice_stats(c)
            rep.dist["func:" + c.func] += 1
            rep.dist[f"layout:{len(c.shape)}D-values/{c.by_ndim}D-labels"] += 1
            rep.dist["nax:" + str(nax) + ("=all" if nax == c.by_ndim else "<all")] += 1
            rep.dist["axis-order:" + ("ascending" if ax is not None and list(ax) == sorted(ax) else "permuted")] += 1
            rep.dist["axis-sign:" + ("none" if c.axis is None else "int" if isinstance(c.axis, int) else
                                     "neg" if all(a < 0 for a in c.axis) else "pos" if all(a >= 0 for a in c.axis) else "mixed")] += 1
            rep.dist["mode:" + ("eager" if c.chunks is None else f"chunked/{plan.get('method')}" + ("/dask-labels" if c.dask_labels else ""))] += 1
            rep.dist["engine:" + str(c.engine or plan.get("engine") or plan.get("chosen_engine"))] += 1
            rep.dist["impl:" + (im["kind"] if im["kind"] == "ok" else im["err"])] += 1
            rep.dist["labels:" + ("missing" if has_missing else "complete") + ("/uneven-over-slices" if uneven else "/even")] += 1
            if c.chunks is not None:
                rep.dist["chunked-dims:" + str(sum(1 for ch in c.chunks if len(ch) > 1))] += 1
            orc = run_oracle(c)
            case = dict(asdict(c), resolved_method=plan.get("method"))
            if i in mout:
                eager_m, chunked_m, spec = parse_model_output(mout[i])
                model = eager_m if c.chunks is None else chunked_m
                rep.dist["model:" + model["kind"] + (":" + model.get("why", "") if model["kind"] == "unsupported" else "")] += 1
                d1 = cmp_impl_model(c, im, model)
                if d1:
                    rep.tie1.append((case, d1))
                d2 = cmp_oracle_spec(c, orc, spec)
                if d2:
                    rep.tie2.append((case, d2))
            else:
                rep.dist["model:not-expressible"] += 1
            d3 = cmp_impl_oracle(c, im, orc)
            if d3:
                rep.direct.append((case, d3))
            if len(rep.samples) < 6 and nontrivial(c) and (i % 97 == 0 or len(cases) < 10):
                rep.add_sample({"case": core.jsonable(asdict(c)),
                                "impl": core.jsonable(im.get("vals") if im["kind"] == "ok" else {k: im[k] for k in ("kind", "err", "msg")}),
                                "plan": core.jsonable(plan), "model_line_out": mout.get(i)})

    def replay(self, payload, rep: Report):
        self.run_cases([case_from_json(payload["case"])], rep)

    def match_finding(self, finding, case, detail) -> bool:
        from . import findings

        pred = findings.PREDICATES.get(finding["id"])
        return bool(pred and pred(case, detail))

    def check_finding_still_fails(self, finding) -> bool | None:
        w = finding.get("witness")
        if not w or w.get("op") != "partial":
            return None
        c = case_from_json(w["case"])
        im = run_impl(c)
        det = cmp_impl_oracle(c, im, run_oracle(c))
        case = dict(asdict(c), resolved_method=im.get("plan", {}).get("method"))
        return bool(det) and self.match_finding(finding, case, det)


def _unjson(x):
    if isinstance(x, str):
        if x in ("nan", "NaN"):
            return NAN
        if x in ("inf", "Infinity"):
            return float("inf")
        if x in ("-inf", "-Infinity"):
            return -float("inf")
    return x


def case_from_json(d: dict) -> PCase:
    d = {k: v for k, v in d.items() if k in PCase.__dataclass_fields__}
    d["vals"] = [_unjson(x) for x in d["vals"]]
    d["fill"] = _unjson(d.get("fill"))
    return PCase(**d)
