"""C18 – grouped order statistics (median / nanmedian / quantile / nanquantile) match NumPy's linear quantiles.

For each case the harness computes
  impl   – flox.groupby_reduce(..., func=..., finalize_kwargs={"q": ...}) in-process (eager, or dask + compute)
  model  – Lean `Quantile.runEager` / `runChunked` through the native driver (op `quantile`)
  spec   – Lean `Quantile.specRun` (same driver line)
  oracle – numpy.quantile / nanquantile / median / nanmedian per (q, batch row, group), written here
and compares impl~model (tie 1), oracle~spec (tie 2), impl~oracle (the property itself).
"""
from __future__ import annotations

import itertools
import math
import random
import warnings
from dataclasses import asdict, dataclass, field
from fractions import Fraction

import numpy as np

from . import core
from .framework import Prop, Report
from .reduce_ops import _patch_flox, _recorded, err_kind

warnings.filterwarnings("ignore")

NAN = float("nan")
FUNCS = ["median", "nanmedian", "quantile", "nanquantile"]
QS = ["0", "1/4", "1/2", "3/4", "1"]
METHOD_TOK = {None: "none", "blockwise": "blockwise", "map-reduce": "mapreduce", "cohorts": "cohorts"}
CLEAN = ("ValueError", "NotImplementedError")


@dataclass
class QCase:
    func: str
    engine: str | None            # None / "flox" / "numpy"
    q: list | None                # None | ["s", "1/4"] | ["v", ["0", "1/2"]]   (fractions as strings)
    dtype: str                    # float64 / int64
    labels: list                  # None = missing label
    rows: list                    # list of rows; values int/float, NaN allowed (float64 only)
    batch1d: bool = True
    chunks: list | None = None    # chunks along the grouped axis; None = eager (numpy input)
    method: str | None = None     # None / blockwise / map-reduce / cohorts (chunked only)
    bchunk1: bool = False         # 2-D chunked input: batch axis in chunks of 1
    stream: str = ""

    def key(self):
        d = asdict(self)
        d.pop("stream")
        return core.case_hash(d)


# ----------------------------------------------------------------------------------------------
# helpers


def qvals(c: QCase):
    """(list of Fractions, scalar?) or None when no q was passed"""
    if c.func in ("median", "nanmedian"):
        return [Fraction(1, 2)], True
    if c.q is None:
        return None
    if c.q[0] == "s":
        return [Fraction(c.q[1])], True
    return [Fraction(x) for x in c.q[1]], False


def np_array(c: QCase):
    a = np.array(c.rows, dtype=c.dtype)
    return a[0] if c.batch1d else a


def np_labels(c: QCase):
    if any(l is None for l in c.labels):
        return np.array([NAN if l is None else float(l) for l in c.labels], dtype="float64")
    return np.array([int(l) for l in c.labels], dtype="int64")


def group_positions(c: QCase):
    present = sorted({l for l in c.labels if l is not None})
    return present, {g: [i for i, l in enumerate(c.labels) if l == g] for g in present}


def blocks_of(chunks, xs):
    out, i = [], 0
    for k in chunks:
        out.append(xs[i:i + k])
        i += k
    return out


def groups_within_blocks(chunks, labels) -> bool:
    """every (non-missing) label occurs in exactly one block"""
    bl = blocks_of(chunks, labels)
    for g in {l for l in labels if l is not None}:
        if sum(1 for b in bl if g in b) != 1:
            return False
    return True


def allnan_group(c: QCase, row: int, g) -> bool:
    ms = [c.rows[row][i] for i, l in enumerate(c.labels) if l == g]
    return len(ms) > 0 and all(isinstance(v, float) and math.isnan(v) for v in ms)


# ----------------------------------------------------------------------------------------------
# implementation


def run_impl(c: QCase):
    import dask
    import dask.array as da
    import flox

    _patch_flox()
    _recorded.clear()
    arr = np_array(c)
    by = np_labels(c)
    kw = dict(func=c.func)
    if c.engine is not None:
        kw["engine"] = c.engine
    if c.q is not None:
        q = float(Fraction(c.q[1])) if c.q[0] == "s" else [float(Fraction(x)) for x in c.q[1]]
        kw["finalize_kwargs"] = {"q": q}
    phase = "call"
    try:
        if c.chunks is None:
            res, groups = flox.groupby_reduce(arr, by, **kw)
        else:
            if c.method is not None:
                kw["method"] = c.method
            if c.batch1d:
                ch = (tuple(c.chunks),)
            else:
                ch = ((1,) * arr.shape[0] if c.bchunk1 else (arr.shape[0],), tuple(c.chunks))
            darr = da.from_array(arr, chunks=ch)
            res, groups = flox.groupby_reduce(darr, by, **kw)
            phase = "compute"
            _recorded["lazy"] = hasattr(res, "dask")
            res, groups = dask.compute(res, groups, scheduler="sync")
    except Exception as e:  # noqa
        return dict(kind="err", err=err_kind(e), phase=phase, msg=str(e)[:200], plan=dict(_recorded))
    return dict(kind="ok", groups=np.asarray(groups), vals=np.asarray(res), plan=dict(_recorded))


# ----------------------------------------------------------------------------------------------
# oracle: NumPy per (q, row, group)


def run_oracle(c: QCase):
    qv = qvals(c)
    if qv is None:
        return dict(kind="err", err="ValueError")
    qs, scalar = qv
    present, pos = group_positions(c)
    skip = c.func.startswith("nan")
    out = []
    with np.errstate(all="ignore"):
        for q in qs:
            for row in c.rows:
                r = np.array(row, dtype="float64")
                for g in present:
                    ms = r[pos[g]]
                    if c.func == "median":
                        v = np.median(ms)
                    elif c.func == "nanmedian":
                        v = np.nanmedian(ms)
                    elif skip:
                        v = np.nanquantile(ms, float(q), method="linear")
                    else:
                        v = np.quantile(ms, float(q), method="linear")
                    out.append(float(v))
    shape = ([] if scalar else [len(qs)]) + ([] if c.batch1d else [len(c.rows)]) + [len(present)]
    return dict(kind="ok", groups=present, shape=shape, vals=out)


# ----------------------------------------------------------------------------------------------
# model line / parsing


def model_line(c: QCase, plan: dict) -> str:
    eng = "npg" if c.engine == "numpy" else "flox"
    if c.q is None:
        q = "-"
    elif c.q[0] == "s":
        q = "s:" + c.q[1]
    else:
        q = "v:" + ",".join(c.q[1])
    if c.chunks is None:
        method, uch, ch = "eager", "", ""
    else:
        method = METHOD_TOK[c.method]
        uch = ",".join(map(str, c.chunks))
        ch = ",".join(map(str, plan.get("chunks") or c.chunks))
    head = (f"quantile func={c.func} eng={eng} q={q} batch={'1d' if c.batch1d else '2d'} method={method} "
            f"uchunks={uch} chunks={ch}")
    return head + " | " + core.toks(c.labels) + "".join(" | " + core.toks(r) for r in c.rows)


def parse_outcome(s: str):
    s = s.strip()
    if s.startswith("ok "):
        parts = dict(p.split("=", 1) for p in s[3:].split(" "))
        return dict(kind="ok", groups=[x for x in parts["g"].split(",") if x], shape=[int(x) for x in parts["s"].split(",") if x],
                    vals=[x for x in parts["v"].split(",") if x])
    if s.startswith("err "):
        return dict(kind="err", err=s[4:].strip())
    return dict(kind="bad", why=s)


def parse_model_output(line: str):
    if not line.startswith("model "):
        return dict(kind="bad", why=line), dict(kind="bad", why=line)
    m, _, s = line[6:].partition(" ; spec ")
    return parse_outcome(m), parse_outcome(s)


# ----------------------------------------------------------------------------------------------
# comparisons


def cmp_impl_model(c: QCase, impl: dict, model: dict) -> str | None:
    if model["kind"] == "bad":
        return f"driver could not handle the line: {model['why']}"
    if impl["kind"] == "err":
        if model["kind"] == "err" and model["err"] == impl["err"]:
            return None
        return f"impl raised {impl['err']} ({impl.get('msg', '')}) but model gives {model}"
    if model["kind"] == "err":
        return f"model raises {model['err']} but impl returned values {impl['vals'].tolist()}"
    if list(impl["vals"].shape) != model["shape"]:
        return f"shape differs: impl {list(impl['vals'].shape)} model {model['shape']}"
    gi = list(np.asarray(impl["groups"]).reshape(-1))
    if len(gi) != len(model["groups"]) or any(not core.same_value(a, b) for a, b in zip(model["groups"], gi)):
        return f"groups differ: impl {gi} model {model['groups']}"
    vi = list(impl["vals"].reshape(-1))
    for j, (a, b) in enumerate(zip(model["vals"], vi)):
        if not core.same_value(a, b, "exact"):
            return f"value differs at flat index {j}: model {a} impl {b!r}"
    if impl["vals"].dtype != np.float64:
        return f"result dtype {impl['vals'].dtype} is not float64"
    return None


def cmp_oracle_spec(c: QCase, oracle: dict, spec: dict) -> str | None:
    if spec["kind"] == "bad":
        return f"driver could not handle the line: {spec['why']}"
    if oracle["kind"] == "err" or spec["kind"] == "err":
        return None if oracle["kind"] == spec["kind"] else f"oracle {oracle['kind']} vs spec {spec['kind']}"
    if oracle["shape"] != spec["shape"]:
        return f"shape: oracle {oracle['shape']} spec {spec['shape']}"
    if len(oracle["groups"]) != len(spec["groups"]) or any(not core.same_value(a, b) for a, b in zip(spec["groups"], oracle["groups"])):
        return f"groups: oracle {oracle['groups']} spec {spec['groups']}"
    for j, (a, b) in enumerate(zip(spec["vals"], oracle["vals"])):
        if not core.same_value(a, b, "exact"):
            return f"flat index {j}: spec {a} oracle {b!r}"
    return None


def refusal_allowed(c: QCase, impl: dict) -> str | None:
    """an exception instead of values: None if the property allows this refusal, else why not"""
    kind = impl["err"]
    qv = qvals(c)
    if qv is None:
        return None if kind == "ValueError" else f"missing q must be refused with ValueError, got {kind}"
    if c.chunks is not None and c.method in ("map-reduce", "cohorts"):
        return None if kind in CLEAN else f"method={c.method} must be refused cleanly, got {kind}: {impl.get('msg', '')}"
    if c.engine == "numpy" and not qv[1]:
        # documented limitation: engine="numpy" takes a scalar q only
        if kind == "ValueError":
            return None
    if c.chunks is None:
        return f"eager call raised {kind}: {impl.get('msg', '')}"
    within = len(c.chunks) == 1 or groups_within_blocks(c.chunks, c.labels)
    if within:
        return f"every group lies within one block (method={c.method}) but the call raised {kind}: {impl.get('msg', '')}"
    if kind in CLEAN:
        return None
    return f"unclean refusal: a group spans several blocks (method={c.method}); raised {kind}: {impl.get('msg', '')}"


def cmp_impl_oracle(c: QCase, impl: dict, oracle: dict) -> list:
    """the property itself; returns a list of (extra, detail) – at most one failure on an all-NaN group and one on
    any other group"""
    if impl["kind"] == "err":
        why = refusal_allowed(c, impl)
        return [({"fail": "refusal", "err": impl["err"]}, why)] if why else []
    if oracle["kind"] == "err":
        return [({"fail": "accepted"}, "the call has no q but returned values")]
    if list(impl["vals"].shape) != oracle["shape"]:
        return [({"fail": "shape"}, f"result shape {list(impl['vals'].shape)} but the property demands {oracle['shape']}")]
    gi = [float(x) for x in np.asarray(impl["groups"]).reshape(-1)]
    if gi != [float(g) for g in oracle["groups"]]:
        return [({"fail": "groups"}, f"groups {gi} but expected {oracle['groups']}")]
    vi = impl["vals"].reshape(-1)
    ng, nr = len(oracle["groups"]), len(c.rows)
    inside = outside = None
    for j, (a, b) in enumerate(zip(vi, oracle["vals"])):
        same = (math.isnan(a) and math.isnan(b)) or float(a) == float(b)
        if same:
            continue
        g = oracle["groups"][j % ng]
        row = (j // ng) % nr
        iq = j // (ng * nr)
        extra = {"fail": "value", "label": g, "row": row, "iq": iq}
        detail = f"label {g} row {row} q#{iq}: impl {float(a)!r} numpy {b!r}"
        if allnan_group(c, row, g):
            inside = inside or (extra, "allnan-group " + detail)
        else:
            outside = outside or (extra, detail)
    return [x for x in (outside, inside) if x]


# ----------------------------------------------------------------------------------------------
# generators

ALPHA = [-3, -2, -1, 0, 1, 2, 3, 5]


def gen_q(rng: random.Random, func: str):
    if func in ("median", "nanmedian"):
        return None
    r = rng.random()
    if r < 0.03:
        return None
    if r < 0.5:
        return ["s", rng.choice(QS)]
    k = rng.choice([1, 2, 2, 3, 5])
    return ["v", [rng.choice(QS) for _ in range(k)]]


def gen_labels(rng: random.Random, n: int, ng: int, pattern: str, missing: float):
    base = rng.sample([0, 1, 2, 3, 4, 7, 9, -2], ng)
    if pattern == "sorted":
        labs = sorted(rng.choice(base) for _ in range(n))
    elif pattern == "periodic":
        labs = [base[i % ng] for i in range(n)]
    elif pattern == "runs":
        labs = []
        while len(labs) < n:
            labs += [rng.choice(base)] * rng.randint(1, 3)
        labs = labs[:n]
    else:
        labs = [rng.choice(base) for _ in range(n)]
    return [None if rng.random() < missing else l for l in labs]


def gen_chunks(rng: random.Random, labels: list, aligned: bool):
    n = len(labels)
    if aligned:
        # cut only where the label changes (labels are runs): every group inside one block when labels are sorted
        cuts = [i for i in range(1, n) if labels[i] != labels[i - 1]]
        cuts = [x for x in cuts if rng.random() < 0.6]
        b = [0] + cuts + [n]
        return [b[i + 1] - b[i] for i in range(len(b) - 1)]
    out, left = [], n
    while left > 0:
        k = rng.randint(1, min(left, 4))
        out.append(k)
        left -= k
    return out


def make_case(rng: random.Random, nmax: int, chunked: bool | None = None) -> QCase:
    func = rng.choice(FUNCS)
    engine = rng.choice([None, "flox", "flox", "numpy"])
    n = rng.randint(1, nmax)
    ng = rng.randint(1, 4)
    stream = rng.choice(["finite", "nan", "nan", "allnan", "int"])
    pattern = rng.choice(["random", "sorted", "runs", "periodic"])
    labels = gen_labels(rng, n, ng, pattern, rng.choice([0, 0, 0, 0.2]))
    batch1d = rng.random() < 0.6
    nrows = 1 if batch1d else rng.randint(1, 3)
    dtype = "int64" if stream == "int" else "float64"
    rows = []
    for _ in range(nrows):
        if stream == "int":
            rows.append([rng.choice(ALPHA) for _ in range(n)])
            continue
        p = {"finite": 0.0, "nan": 0.35, "allnan": 0.15}[stream]
        row = [NAN if rng.random() < p else float(rng.choice(ALPHA)) for _ in range(n)]
        if stream == "allnan":
            present = sorted({l for l in labels if l is not None})
            for g in rng.sample(present, min(len(present), rng.choice([1, 1, 2]))) if present else []:
                row = [NAN if l == g else v for v, l in zip(row, labels)]
        rows.append(row)
    if chunked is not True and rng.random() < 0.06:
        # many groups (more than 127 / 255 group codes), unsorted labels: the partition by (label, value) must keep the groups in
        # ascending label order however wide the codes are
        ng2 = rng.choice([130, 200, 260, 300])
        n2 = ng2 + rng.randint(0, 60)
        labels = list(range(ng2)) + [rng.randrange(ng2) for _ in range(n2 - ng2)]
        rng.shuffle(labels)
        rows = [[NAN if rng.random() < 0.1 else float(rng.choice(ALPHA)) for _ in range(n2)]]
        return QCase(func=func, engine=rng.choice([None, "flox", "flox", "numpy"]), q=gen_q(rng, func), dtype="float64", labels=labels,
                     rows=rows, batch1d=True, stream="manygroups")
    c = QCase(func=func, engine=engine, q=gen_q(rng, func), dtype=dtype, labels=labels, rows=rows, batch1d=batch1d, stream=stream)
    if (rng.random() < 0.4) if chunked is None else chunked:
        c.method = rng.choice([None, None, "blockwise", "blockwise", "map-reduce", "cohorts"])
        if rng.random() < 0.7:
            order = sorted(range(n), key=lambda i: (labels[i] is None, labels[i] if labels[i] is not None else 0))
            if rng.random() < 0.3:
                # sorted runs in a non-ascending label order
                order = sorted(range(n), key=lambda i: (labels[i] is None, -(labels[i] if labels[i] is not None else 0)))
            c.labels = [labels[i] for i in order]
            c.rows = [[r[i] for i in order] for r in rows]
        c.chunks = gen_chunks(rng, c.labels, aligned=rng.random() < 0.7)
        c.bchunk1 = rng.random() < 0.5
    return c


def nontrivial(c: QCase) -> bool:
    labs = [l for l in c.labels if l is not None]
    return len(c.labels) >= 2 and (len(set(labs)) >= 2 or len(labs) > len(set(labs)))


def exhaustive_cases(nmax_full: int, nmax_sorted: int):
    """every array over {NaN, 1, 4} x every labelling over {0,1,2} up to length nmax_full (all label orders),
    and sorted labellings up to nmax_sorted; both NaN policies, q = all five levels at once"""
    qv = ["v", list(QS)]
    vals = [NAN, 1.0, 4.0]
    for n in range(1, nmax_sorted + 1):
        if n <= nmax_full:
            labelings = list(itertools.product([0, 1, 2], repeat=n))
        else:
            labelings = [l for l in itertools.product([0, 1, 2], repeat=n) if list(l) == sorted(l)]
        for labs in labelings:
            for row in itertools.product(vals, repeat=n):
                for func in ("nanquantile", "quantile"):
                    yield QCase(func=func, engine="flox", q=qv, dtype="float64", labels=list(labs), rows=[list(row)],
                                batch1d=True, stream="exhaustive")


# ----------------------------------------------------------------------------------------------
# the property


class C18(Prop):
    id = "C18"
    lean_module = "FloxProps.C18"
    level = "proof"
    rule = ("seeded generator: 1-D or 2-D (1-3 batch rows) arrays of 1..N values from {-3..3,5} and NaN (float64; int64 without "
            "NaN), 1-4 groups with random / sorted / run / periodic labels (optionally missing labels), streams finite / NaN 35% / "
            "forced all-NaN groups / int / 130-300 groups with unsorted labels (6 %); func in median, nanmedian, quantile, nanquantile; q scalar or vector (length 1-5, "
            "repeats and any order) over {0,1/4,1/2,3/4,1}, sometimes absent; engine None/flox/numpy; 40% on dask input with "
            "method None/blockwise/map-reduce/cohorts, chunks aligned to group boundaries or random, labels sorted ascending / "
            "descending runs / unsorted. thorough adds the exhaustive enumeration of all arrays over {NaN,1,4} x all labellings "
            "over {0,1,2} up to length 4 (any label order) and sorted labellings up to length 6, both NaN policies, all five q "
            "at once. non-trivial = at least two elements and (>=2 groups or a repeated label); distinct = hash of the case")
    assumptions = ["data are small integers / NaN and q is a multiple of 1/4, so NumPy's and flox's double arithmetic is exact "
                   "and is compared exactly with the rational model",
                   "infinities are outside the property's quantifier (theorems assume NoInf)",
                   "the blockwise assembly for chunked input (concatenation of the per-block results + reindex) is in the "
                   "executable model and checked by correspondence only; each block (blockwise_block_eq_spec) and the whole "
                   "eager call (eager_eq_spec) are proved equal to the specification"]

    def volumes(self, tier, search):
        n = 5000 if tier == "quick" else 30000
        return n * 3 if search else n

    def corpus(self):
        return findings_witness_cases() + regression_cases()

    def run(self, rng, tier, rep: Report, search=False):
        nmax = 10 if tier == "quick" else 16
        cases = list(self.corpus()) + [make_case(rng, nmax) for _ in range(self.volumes(tier, search))]
        if tier == "thorough" and not search:
            ex = list(exhaustive_cases(4, 6))
            rep.extra["exhaustive_cases"] = len(ex)
            cases += ex
        self.run_cases(cases, rep)

    def run_cases(self, cases, rep: Report):
        impls = [run_impl(c) for c in cases]
        lines = [model_line(c, im.get("plan", {})) for c, im in zip(cases, impls)]
        outs = core.Driver().run(lines)
        for c, im, out in zip(cases, impls, outs):
            rep.evaluations += 1
            if nontrivial(c):
                rep.keys.add(c.key())
            qv = qvals(c)
            rep.dist["func:" + c.func] += 1
            rep.dist["engine:" + str(c.engine)] += 1
            rep.dist["q:" + ("none" if qv is None else ("scalar" if qv[1] else f"vector{len(qv[0])}"))] += 1
            rep.dist["batch:" + ("1d" if c.batch1d else f"2d x{len(c.rows)}")] += 1
            rep.dist["n:" + str(min(len(c.labels), 12))] += 1
            rep.dist["stream:" + c.stream] += 1
            if c.chunks is None:
                rep.dist["plan:eager"] += 1
            else:
                within = len(c.chunks) == 1 or groups_within_blocks(c.chunks, c.labels)
                rep.dist[f"plan:dask method={c.method} groups-within-blocks={within}"] += 1
                rep.dist["nblocks:" + str(min(len(c.chunks), 9))] += 1
            rep.dist["impl:" + ("ok" if im["kind"] == "ok" else im["err"])] += 1
            present, _ = group_positions(c)
            nallnan = sum(1 for r in range(len(c.rows)) for g in present if allnan_group(c, r, g))
            rep.dist["allnan-groups:" + str(min(nallnan, 3))] += 1
            model, spec = parse_model_output(out)
            rep.dist["model:" + (model["kind"] if model["kind"] != "err" else model["err"])] += 1
            orc = run_oracle(c)
            d1 = cmp_impl_model(c, im, model)
            if d1:
                rep.tie1.append((asdict(c), d1))
            d2 = cmp_oracle_spec(c, orc, spec)
            if d2:
                rep.tie2.append((asdict(c), d2))
            for extra, d3 in cmp_impl_oracle(c, im, orc):
                case = asdict(c)
                case["_fail"] = extra
                rep.direct.append((case, d3))
            if len(rep.samples) < 6 and nontrivial(c) and c.stream not in ("witness", "regression"):
                rep.add_sample({"case": core.jsonable(asdict(c)),
                                "impl": core.jsonable(im["vals"].tolist() if im["kind"] == "ok" else {k: im[k] for k in ("err", "msg")}),
                                "model_line_out": out})

    def replay(self, payload, rep: Report):
        self.run_cases([case_from_json(payload["case"])], rep)

    # known findings -------------------------------------------------------------------------------
    def match_finding(self, finding, case, detail) -> bool:
        from . import findings

        pred = findings.PREDICATES.get(finding["id"])
        return bool(pred and pred(case, detail))

    def check_finding_still_fails(self, finding) -> bool | None:
        w = finding.get("witness")
        if not w or w.get("op") != "quantile":
            return None
        c = case_from_json(w["case"])
        im = run_impl(c)
        orc = run_oracle(c)
        for extra, det in cmp_impl_oracle(c, im, orc):
            case = asdict(c)
            case["_fail"] = extra
            if self.match_finding(finding, case, det):
                return True
        return False


def case_from_json(d: dict) -> QCase:
    d = {k: v for k, v in d.items() if not k.startswith("_")}

    def un(x):
        if isinstance(x, str) and x.lower() in ("nan",):
            return NAN
        return x

    d["rows"] = [[un(x) for x in r] for r in d["rows"]]
    d["labels"] = [None if l is None else l for l in d["labels"]]
    if d.get("dtype") == "float64":
        d["rows"] = [[float(x) for x in r] for r in d["rows"]]
    return QCase(**d)


def regression_cases():
    """inputs of the defects this check found and /repo repaired (7ebd75b, c997b44, a8e0051): part of every run, so a
    recurrence is a VIOLATION"""
    f = dict(dtype="float64", batch1d=True, stream="regression")
    out = [
        # all-NaN group between two groups, nan-skipping variants on flox's engine / the default engine
        QCase(func="nanmedian", engine="flox", q=None, labels=[0, 0, 1, 1, 2, 2], rows=[[1.0, 2.0, NAN, NAN, 5.0, 7.0]], **f),
        QCase(func="nanquantile", engine=None, q=["v", ["0", "1/4", "1"]], labels=[0, 0, 1, 1, 2, 2],
              rows=[[1.0, 2.0, NAN, NAN, 5.0, 7.0]], **f),
        QCase(func="nanmedian", engine="flox", q=None, labels=[0, None, 0, 1, 1, None], rows=[[1.0, 2.0, 3.0, NAN, NAN, 7.0]], **f),
        QCase(func="nanquantile", engine="flox", q=["s", "1/2"], labels=[0, 0, 1, 1, 2, 2], rows=[[1.0, 2.0, NAN, NAN, 5.0, 7.0]],
              chunks=[4, 2], method="blockwise", **f),
        # method="blockwise" with a group in two blocks: a clean refusal
        QCase(func="median", engine="flox", q=None, labels=[0, 1, 0, 1], rows=[[1.0, 2.0, 3.0, 4.0]], chunks=[2, 2],
              method="blockwise", **f),
        # every label missing, vector q: the empty result keeps the q axis
        QCase(func="nanquantile", engine="flox", q=["v", ["1/4", "1/2"]], labels=[None, None], rows=[[1.0, 2.0]], **f),
        QCase(func="quantile", engine="flox", q=["v", ["1/2"]], dtype="float64", batch1d=False, stream="regression",
              labels=[None, None], rows=[[1.0, 2.0], [3.0, 4.0]]),
    ]
    return out


def findings_witness_cases():
    """the recorded witnesses of this property's known findings are part of every run"""
    out = []
    for f in core.load_findings():
        w = f.get("witness") or {}
        if f.get("property") == "C18" and w.get("op") == "quantile":
            c = case_from_json(w["case"])
            c.stream = "witness"
            out.append(c)
    return out
