"""C14, parts (a) and (b): API calls as JSON-able descriptors, executed on the real flox with

  * spies on the stateful internals (`_initialize_aggregation`, `_get_optimal_chunks_for_groups`, `get_parts`, the Scan blueprint
    handed to `chunk_scan` / `dask_groupby_scan`) that record arguments and results without changing them,
  * structural snapshots of `flox.aggregations.AGGREGATIONS` and content hashes of every argument buffer,
  * canonical results (values, dtype, shape, group labels, chunks, task-key names).

The same module runs in the checking process (after arbitrary histories) and in pristine worker processes (the probe is the
first call there): `fresh_results`.
"""
from __future__ import annotations

import copy
import hashlib
import math
import os

os.environ.setdefault("NUMBA_NUM_THREADS", "1")

import numpy as np

NAN = float("nan")
RECORDS: list = []
_SPIES = False

# ------------------------------------------------------------------------------------------------
# text forms shared with the Lean driver


def clean(s: str) -> str:
    for a, b in ((" ", ""), ("|", "!"), ("=", "~"), (";", "_"), (":", "~")):
        s = s.replace(a, b)
    return s or "''"


def fname(f) -> str:
    if f is None:
        return "None"
    if isinstance(f, str):
        return f
    return getattr(f, "__name__", type(f).__name__)


def show_kw(kw) -> str:
    if kw is None:
        return "-"
    if not kw:
        return "."
    return ";".join(f"{clean(str(k))}:{clean(repr(v))}" for k, v in kw.items())


def show_blueprint(agg) -> str:
    return " ".join([
        "name=" + agg.name, "numpy=" + (",".join(fname(x) for x in agg.numpy) or "-"),
        "chunk=" + (",".join(fname(x) for x in agg.chunk) or "-"), "combine=" + (",".join(fname(x) for x in agg.combine) or "-"),
        "nfills=%d" % len(agg.fill_value["intermediate"]), "nnumpy=%d" % len(agg.fill_value.get("numpy", ())),
        "user=" + clean(repr(agg.fill_value.get("user", "unset"))), "mc=%d" % agg.min_count, "fk=" + (show_kw(agg.finalize_kwargs) if agg.finalize_kwargs else "."),
    ])


# ------------------------------------------------------------------------------------------------
# snapshots


def snap_obj(v, depth=0):
    """structural, identity-free snapshot of a python object (for registry entries and user Aggregations)"""
    if depth > 6:
        return "<deep>"
    if isinstance(v, dict):
        return {str(k): snap_obj(x, depth + 1) for k, x in v.items()}
    if isinstance(v, (list, tuple)):
        return [type(v).__name__] + [snap_obj(x, depth + 1) for x in v]
    if isinstance(v, np.ndarray):
        return ["ndarray", str(v.dtype), list(v.shape), hashlib.sha1(np.ascontiguousarray(v).tobytes()).hexdigest()]
    if isinstance(v, (np.dtype, type)):
        return str(v)
    if callable(v):
        return "fn:" + getattr(v, "__module__", "?") + "." + getattr(v, "__qualname__", type(v).__name__)
    if hasattr(v, "__dict__") and type(v).__module__.startswith("flox"):
        return {"__class__": type(v).__name__, **{k: snap_obj(x, depth + 1) for k, x in vars(v).items()}}
    return repr(v)


def snap_registry():
    from flox.aggregations import AGGREGATIONS

    return {"keys": list(AGGREGATIONS), "entries": {k: snap_obj(vars(v) if hasattr(v, "__dict__") else v) for k, v in AGGREGATIONS.items()},
            "ids": {k: id(v) for k, v in AGGREGATIONS.items()}}


def registry_digest() -> str:
    s = snap_registry()
    s.pop("ids")
    return hashlib.sha1(repr(s).encode()).hexdigest()[:16]


def hash_arg(x) -> str:
    """content hash of an argument (buffers, not identities)"""
    h = hashlib.sha1()

    def feed(v, depth=0):
        import pandas as pd

        if depth > 6:
            return
        if v is None or isinstance(v, (bool, int, float, str, np.generic)):
            h.update(repr(v).encode())
        elif isinstance(v, np.ndarray):
            h.update(str(v.dtype).encode() + str(v.shape).encode() + str(v.flags.writeable).encode())
            h.update(repr(v.tolist()).encode() if v.dtype == object else np.ascontiguousarray(v).tobytes())
        elif isinstance(v, pd.Index):
            h.update(type(v).__name__.encode() + str(v.dtype).encode() + repr(v.tolist()).encode() + repr(v.name).encode())
        elif isinstance(v, dict):
            for k in v:
                h.update(repr(k).encode())
                feed(v[k], depth + 1)
        elif isinstance(v, (list, tuple)):
            h.update(type(v).__name__.encode())
            for y in v:
                feed(y, depth + 1)
        elif type(v).__module__.startswith("dask"):
            h.update(str(v.name).encode() + repr(v.chunks).encode() + str(v.dtype).encode())
            # the buffers behind a dask array built by from_array
            for lay in v.dask.layers.values():
                for val in dict(lay).values():
                    if isinstance(val, np.ndarray):
                        feed(val, depth + 1)
                    elif hasattr(val, "value") and isinstance(getattr(val, "value", None), np.ndarray):
                        feed(val.value, depth + 1)
        elif type(v).__module__.startswith("xarray"):
            import xarray as xr

            ds = v if isinstance(v, xr.Dataset) else v._to_temp_dataset()
            h.update(type(v).__name__.encode() + repr(dict(v.sizes)).encode() + repr(v.attrs).encode() + repr(getattr(v, "name", None)).encode())
            for name in ds.variables:
                var = ds.variables[name]
                h.update(str(name).encode() + repr(var.dims).encode() + repr(var.chunks).encode() + repr(var.attrs).encode())
                feed(var.data if hasattr(var.data, "dask") else np.asarray(var.values), depth + 1)
        elif hasattr(v, "__dict__") and type(v).__module__.startswith("flox"):
            h.update(repr(snap_obj(v)).encode())
        else:
            h.update(repr(v).encode())

    feed(x)
    return h.hexdigest()[:16]


# ------------------------------------------------------------------------------------------------
# spies


def install_spies():
    global _SPIES
    if _SPIES:
        return
    _SPIES = True
    import flox.aggregations as fa
    import flox.core as fc
    import flox.dask_array_ops as fd

    orig_init = fc._initialize_aggregation

    def spy_init(func, dtype, array_dtype, fill_value, min_count, finalize_kwargs):
        user = isinstance(func, fa.Aggregation)
        before = snap_obj(func) if user else None
        ubp = None
        if user:
            ubp = dict(name=func.name, numpy=[fname(x) for x in func.numpy], chunk=[fname(x) for x in func.chunk],
                       combine=[fname(x) for x in func.combine], fills=len(func.fill_value["intermediate"]),
                       ff=clean(repr(func.fill_value[func.name])), arg=int(func.reduction_type == "argreduce"),
                       pristine=(func.min_count == 0 and not func.finalize_kwargs and "user" not in func.fill_value))
        try:
            agg = orig_init(func, dtype, array_dtype, fill_value, min_count, finalize_kwargs)
        except NotImplementedError:
            RECORDS.append({"op": "init", "func": None if user else func, "user": ubp, "fill": clean(repr(fill_value)), "rf": "-", "mc": int(min_count),
                            "fk": show_kw(finalize_kwargs), "result": "agg none"})
            raise
        after = "-" if not user else ("same" if snap_obj(func) == before else "changed")
        RECORDS.append({"op": "init", "func": None if user else func, "user": ubp, "fill": clean(repr(fill_value)),
                        "rf": clean(repr(agg.fill_value[agg.name])), "mc": int(min_count), "fk": show_kw(finalize_kwargs),
                        "result": "agg " + show_blueprint(agg) + " userafter=" + after})
        return agg

    fc._initialize_aggregation = spy_init

    orig_opt = fc._get_optimal_chunks_for_groups

    def spy_opt(chunks, labels):
        r = orig_opt(chunks, labels)
        RECORDS.append({"op": "chunks", "chunks": [int(c) for c in chunks], "labels": [int(x) for x in np.asarray(labels).tolist()],
                        "result": "chunks " + ",".join(str(int(c)) for c in r)})
        return r

    fc._get_optimal_chunks_for_groups = spy_opt

    orig_parts = fd.get_parts

    def spy_parts(split_every_items, chunks):
        r = orig_parts(split_every_items, chunks)
        keys, parts, out = r
        txt = ("parts " + "/".join(";".join(",".join(str(i) for i in p) for p in ax) for ax in parts) + " out="
               + "/".join(",".join(str(int(c)) for c in ax) for ax in out))
        RECORDS.append({"op": "parts", "se": [[int(a), int(b)] for a, b in split_every_items], "chunks": [[int(c) for c in ax] for ax in chunks],
                        "result": txt, "nkeys": len(keys)})
        return r

    fd.get_parts = spy_parts

    def scan_record(agg):
        import flox.xrdtypes as xd

        ident = agg.identity
        reg = fa.AGGREGATIONS[agg.name]
        if reg.identity is xd.NA:
            try:
                want = xd._get_fill_value(np.dtype(agg.dtype), xd.NA)
                okid = bool(want is ident or want == ident or (want != want and ident != ident))
            except Exception:  # noqa
                okid = False
            idt = ("NA@" + str(np.dtype(agg.dtype))) if okid else "BAD:" + clean(repr(ident))
        else:
            idt = clean(repr(ident))
        RECORDS.append({"op": "scan", "func": agg.name, "dtype": str(np.dtype(agg.dtype)),
                        "result": f"scan name={agg.name} dtype={np.dtype(agg.dtype)} identity={idt}"})

    orig_cs = fc.chunk_scan
    orig_ds = fc.dask_groupby_scan

    def spy_cs(inp, *, axis, agg, dtype=None, keepdims=None):
        # the eager entry only: while a graph is built the original function is put back (see spy_ds)
        scan_record(agg)
        return orig_cs(inp, axis=axis, agg=agg, dtype=dtype, keepdims=keepdims)

    def spy_ds(array, by, axes, agg):
        scan_record(agg)
        fc.chunk_scan = orig_cs          # the graph must close over the real function, not over the spy
        try:
            return orig_ds(array, by, axes=axes, agg=agg)
        finally:
            fc.chunk_scan = spy_cs

    fc.dask_groupby_scan = spy_ds
    fc.chunk_scan = spy_cs


def model_line(records) -> str | None:
    """the Lean `history` op for a sequence of recorded stateful calls"""
    secs = []
    for r in records:
        if r["op"] == "init":
            tail = f"fill={r['fill']} rf={r['rf']} mc={r['mc']} fk={r['fk']}"
            if r["user"] is None:
                secs.append(f"init func={clean(str(r['func']))} {tail}")
            else:
                u = r["user"]
                if not u["pristine"]:
                    return None
                secs.append(f"init user={clean(u['name'])} numpy={','.join(u['numpy'])} chunk={','.join(u['chunk'])} "
                            f"combine={','.join(u['combine'])} fills={','.join(['0'] * u['fills'])} ff={u['ff']} arg={u['arg']} {tail}")
        elif r["op"] == "chunks":
            secs.append(f"chunks chunks={','.join(map(str, r['chunks']))} labels={','.join(map(str, r['labels']))}")
        elif r["op"] == "parts":
            secs.append("parts se=" + ";".join(f"{a}:{b}" for a, b in r["se"]) + " chunks=" + "/".join(",".join(map(str, ax)) for ax in r["chunks"]))
        elif r["op"] == "scan":
            secs.append(f"scan func={r['func']} dtype={r['dtype']}")
    return "history | " + " | ".join(secs)


# ------------------------------------------------------------------------------------------------
# independent oracle for the recorded calls (pure Python, from a pristine registry description)


def oracle_optimal(chunks, labels):
    """_get_optimal_chunks_for_groups re-derived: move every old boundary to the nearer end of the group that straddles it"""
    n = len(labels)
    bounds = np.cumsum(chunks) - 1
    first, last = {}, {}
    for i, l in enumerate(labels):
        first.setdefault(l, i)
        last[l] = i
    at = sorted({labels[b] for b in bounds})
    lastidx = [last[l] for l in at]
    if len(bounds) == len(lastidx) and all(int(b) == l for b, l in zip(bounds, lastidx)):
        return list(chunks)
    new = [0]
    for c, l in zip(bounds, at):
        c = int(c)
        f, la = first[l], last[l]
        if c == 0 or new[-1] > la:
            continue
        if abs(c - f) < abs(c - la) and f > new[-1]:
            new.append(f)
        else:
            new.append(la + 1)
    if new[-1] != n:
        new.append(n)
    return [b - a for a, b in zip(new, new[1:])]


def oracle_parts(se, chunks):
    se = dict((a, b) for a, b in se)

    def part(k, xs):
        xs = list(xs)
        return [xs[i:i + k] for i in range(0, len(xs), k)]

    parts = [part(se.get(i, 1), range(len(c))) for i, c in enumerate(chunks)]
    out = [[1 for _ in part(se[i], c)] if i in se else list(c) for i, c in enumerate(chunks)]
    return ("parts " + "/".join(";".join(",".join(str(i) for i in p) for p in ax) for ax in parts) + " out="
            + "/".join(",".join(str(int(c)) for c in ax) for ax in out))


def oracle_init(pristine, r):
    """expected specialised blueprint from the description of the pristine registry entry (or the user's blueprint)"""
    if r["user"] is None:
        e = pristine.get(r["func"])
        if e is None:
            return "agg none"
        name, numpy, chunk, combine, nf, isarg = e["name"], list(e["numpy"]), list(e["chunk"]), list(e["combine"]), e["nfills"], e["arg"]
    else:
        u = r["user"]
        name, numpy, chunk, combine, nf, isarg = u["name"], list(u["numpy"]), list(u["chunk"]), list(u["combine"]), u["fills"], bool(u["arg"])
    user = r["fill"]
    mc = r["mc"]
    nnumpy = 1
    if name in ("nanmin", "nanmax") and mc == 0:
        mc = 1
        if user == "None":
            user = r["rf"]
    if mc > 0:
        numpy.append("nanlen")
        if chunk != ["None"]:
            chunk.append("nanlen")
            combine.append("sum")
        nf += 1
        nnumpy += 1
    fk = r["fk"] if r["fk"] not in ("-",) else "."
    after = "-" if r["user"] is None else "same"
    return (f"agg name={name} numpy={','.join(numpy)} chunk={','.join(chunk)} combine={','.join(combine)} nfills={nf} nnumpy={nnumpy} "
            f"user={user} mc={mc} fk={fk} userafter={after}")


def pristine_registry():
    """description of AGGREGATIONS as imported (taken in a pristine process)"""
    from flox.aggregations import AGGREGATIONS, Aggregation

    out = {}
    for k, a in AGGREGATIONS.items():
        if isinstance(a, Aggregation):
            out[k] = dict(name=a.name, numpy=[fname(x) for x in a.numpy], chunk=[fname(x) for x in a.chunk],
                          combine=[fname(x) for x in a.combine], nfills=len(a.fill_value["intermediate"]), arg=a.reduction_type == "argreduce")
    return out


def oracle_result(pristine, r):
    if r["op"] == "init":
        return oracle_init(pristine, r)
    if r["op"] == "chunks":
        return "chunks " + ",".join(map(str, oracle_optimal(r["chunks"], r["labels"])))
    if r["op"] == "parts":
        return oracle_parts(r["se"], r["chunks"])
    if r["op"] == "scan":
        ident = {"nancumsum": "0"}.get(r["func"], "NA@" + r["dtype"])
        return f"scan name={r['func']} dtype={r['dtype']} identity={ident}"
    return "?"


# ------------------------------------------------------------------------------------------------
# API call descriptors


USER_AGGS = {
    "mysum": dict(chunk="sum", combine="sum", numpy="sum", fill_value=0),
    "mymax": dict(chunk="nanmax", combine="nanmax", numpy="nanmax", fill_value=-np.inf),
    "mycount": dict(chunk="nanlen", combine="sum", numpy="nanlen", fill_value=0, final_fill_value=0),
}


def user_agg(ctx, name):
    from flox.aggregations import Aggregation

    if name not in ctx:
        ctx[name] = Aggregation(name, **USER_AGGS[name])
    return ctx[name]


def _vals(desc):
    a = np.array([NAN if (isinstance(v, float) and math.isnan(v)) or v is None else v for v in desc["vals"]], dtype="float64")
    if desc.get("adtype", "float64") != "float64":
        a = a.astype(desc["adtype"])
    if desc.get("rows", 1) > 1:
        a = np.stack([a + i for i in range(desc["rows"])])
    return a


def _labs(desc):
    labs = desc["labels"]
    if any(l is None for l in labs):
        return np.array([NAN if l is None else float(l) for l in labs])
    return np.array(labs, dtype="int64")


def canon_value(x):
    from . import core

    a = np.asarray(x)
    if a.dtype == object:
        return {"dtype": "object", "shape": list(a.shape), "v": [repr(v) for v in a.ravel().tolist()]}
    d = str(a.dtype)
    if a.dtype.kind in "Mm":
        a = a.astype("int64")
    return {"dtype": d, "shape": list(a.shape), "v": [core.tok(v) for v in a.ravel().tolist()]}


def canon_outputs(outs):
    """-> json-able description of the outputs of a call: values, dtype, shape, chunks and key names of lazy ones"""
    import dask

    res = []
    for o in outs:
        if hasattr(o, "__dask_graph__") and hasattr(o, "compute") and not type(o).__module__.startswith("xarray"):
            names = sorted({str(k[0] if isinstance(k, tuple) else k) for k in dict(o.__dask_graph__())})
            val = o.compute(scheduler="sync")
            res.append({"lazy": True, "chunks": [list(map(_nanint, c)) for c in o.chunks], "names": names, **canon_value(val)})
        elif type(o).__module__.startswith("xarray"):
            import xarray as xr

            ds = o if isinstance(o, xr.Dataset) else o.to_dataset(name="__da__")
            d = {"xr": type(o).__name__, "dims": {str(k): int(v) for k, v in ds.sizes.items()}, "vars": {}, "coords": {}}
            for name in ds.data_vars:
                v = ds[name]
                d["vars"][str(name)] = {"dims": list(map(str, v.dims)), "chunks": None if v.chunks is None else [list(c) for c in v.chunks],
                                        **canon_value(v.compute(scheduler="sync").values)}
            for name in ds.coords:
                d["coords"][str(name)] = {"dims": list(map(str, ds[name].dims)), **canon_value(ds[name].values)}
            res.append(d)
        elif isinstance(o, dict):
            res.append({"dict": {repr(k): repr(v) for k, v in sorted(o.items(), key=lambda kv: repr(kv[0]))}})
        elif isinstance(o, str) or o is None:
            res.append({"text": o})
        else:
            res.append({"lazy": False, **canon_value(o)})
    return res


def _nanint(c):
    return None if (isinstance(c, float) and math.isnan(c)) else int(c)


def exec_call(desc, ctx):
    """run one API call on the real flox.  -> (args kept for hashing, outputs | exception)"""
    import dask.array as da

    import flox.core as fc

    api = desc["api"]
    args = {}
    if api in ("reduce", "scan"):
        a = _vals(desc)
        by = _labs(desc)
        args["array_np"], args["by_np"] = a, by
        arr = a
        if desc.get("chunks") is not None:
            ch = tuple(desc["chunks"])
            arr = da.from_array(a, chunks=((a.shape[0],), ch) if a.ndim == 2 else (ch,))
            args["array"] = arr
            if desc.get("by_dask"):
                by = da.from_array(by, chunks=(ch,))
                args["by"] = by
        if api == "scan":
            dt = desc.get("dtype")
            return args, lambda: (fc.groupby_scan(arr, by, func=desc["func"], dtype=None if dt is None else np.dtype(dt)),)
        func = desc["func"]
        if isinstance(func, dict):
            func = user_agg(ctx, func["user"])
            args["user_agg"] = func
        kw = {}
        if desc.get("fk") is not None:
            kw["finalize_kwargs"] = copy.deepcopy(desc["fk"])
            args["fk"] = kw["finalize_kwargs"]
        if desc.get("expected") is not None:
            kw["expected_groups"] = np.array(desc["expected"])
            if desc.get("expected_range"):
                import pandas as pd

                # RangeIndex(n): flox takes the labels themselves as codes (no copy of the user's labels may be written to)
                assert list(desc["expected"]) == list(range(len(desc["expected"])))
                kw["expected_groups"] = pd.RangeIndex(len(desc["expected"]))
            args["expected"] = kw["expected_groups"]
        return args, lambda: tuple(fc.groupby_reduce(
            arr, by, func=func, min_count=desc.get("min_count"), fill_value=desc.get("fill"), dtype=desc.get("dtype"),
            method=desc.get("method"), engine=desc.get("engine"), sort=desc.get("sort", True), reindex=desc.get("reindex"), **kw))
    if api == "xr":
        import xarray as xr

        import flox.xarray as fx

        a = _vals(desc)
        n = a.shape[-1]
        labs = xr.DataArray(_labs(desc), dims="x", name="lab")
        data = a if desc.get("chunks") is None else da.from_array(a, chunks=tuple(desc["chunks"]) if a.ndim == 1 else ((a.shape[0],), tuple(desc["chunks"])))
        dims = ("x",) if a.ndim == 1 else ("y", "x")
        obj = xr.DataArray(data, dims=dims, name="a", coords={"x": np.arange(n)}, attrs={"units": "m"})
        if desc.get("dataset"):
            data2 = (a * 2) if desc.get("chunks") is None else da.from_array(a * 2, chunks=tuple(desc["chunks"]) if a.ndim == 1 else ((a.shape[0],), tuple(desc["chunks"])))
            obj = xr.Dataset({"a": obj, "b": xr.DataArray(data2, dims=dims), "c": xr.DataArray(np.arange(3.0), dims="z")})
        args["obj"], args["labels"] = obj, labs
        kw = {}
        if desc.get("expected") is not None:
            kw["expected_groups"] = np.array(desc["expected"])
            args["expected"] = kw["expected_groups"]
        if desc.get("fk") is not None:
            kw["finalize_kwargs"] = copy.deepcopy(desc["fk"])
            args["fk"] = kw["finalize_kwargs"]
        return args, lambda: (fx.xarray_reduce(obj, labs, func=desc["func"], method=desc.get("method"), engine=desc.get("engine"),
                                               fill_value=desc.get("fill"), min_count=desc.get("min_count"), **kw),)
    if api == "rechunk":
        a = _vals(desc)
        ch = tuple(desc["chunks"])
        arr = da.from_array(a, chunks=((a.shape[0],), ch) if a.ndim == 2 else (ch,))
        labs = np.array(desc["labels"], dtype="int64")
        args["array"], args["labels"] = arr, labs
        flavour = desc.get("flavour", "array")
        if flavour == "array":
            if desc["which"] == "blockwise":
                return args, lambda: (fc.rechunk_for_blockwise(arr, axis=-1, labels=labs),)
            forced = list(desc["forced"])
            args["forced"] = forced
            return args, lambda: (fc.rechunk_for_cohorts(arr, axis=-1, labels=labs, force_new_chunk_at=forced, chunksize=desc.get("chunksize"),
                                                          ignore_old_chunks=bool(desc.get("ignore"))),)
        import xarray as xr

        import flox.xarray as fx

        dims = ("x",) if a.ndim == 1 else ("y", "x")
        obj = xr.DataArray(arr, dims=dims, name="a", attrs={"k": 1})
        if flavour == "dataset":
            obj = xr.Dataset({"a": obj, "b": xr.DataArray(da.from_array(a * 2, chunks=arr.chunks), dims=dims), "c": xr.DataArray(np.arange(3.0), dims="z")})
        xl = xr.DataArray(labs, dims="x", name="lab")
        args["obj"], args["xlabels"] = obj, xl
        if desc["which"] == "blockwise":
            return args, lambda: (fx.rechunk_for_blockwise(obj, "x", xl),)
        forced = list(desc["forced"])
        args["forced"] = forced
        return args, lambda: (fx.rechunk_for_cohorts(obj, "x", xl, force_new_chunk_at=forced, chunksize=desc.get("chunksize"),
                                                     ignore_old_chunks=bool(desc.get("ignore"))),)
    if api == "cohorts":
        labs = np.array(desc["labels"], dtype="int64")
        chunks = (tuple(desc["chunks"]),)
        args["labels"], args["chunks"] = labs, chunks
        import pandas as pd

        ex = None if desc.get("expected") is None else pd.RangeIndex(int(desc["expected"]))
        return args, lambda: (lambda r: (r[0], {k: list(map(int, v)) for k, v in r[1].items()}))(
            fc.find_group_cohorts(labs, chunks, expected_groups=ex, merge=bool(desc.get("merge"))))
    raise KeyError(api)


REFUSALS = (NotImplementedError, ValueError, TypeError, AssertionError, ImportError, IndexError, KeyError, AttributeError)


def run_call(desc, ctx):
    """-> dict(outcome=canonical outputs | {"error": type}, records=[spied calls], mutated=[names of changed arguments],
    registry_changed=bool)"""
    install_spies()
    args, thunk = exec_call(desc, ctx)
    reg_before = registry_digest()
    before = {k: hash_arg(v) for k, v in args.items()}
    start = len(RECORDS)
    try:
        outs = thunk()
        outcome = canon_outputs(outs)
    except REFUSALS as e:
        outcome = {"error": type(e).__name__}
    except Exception as e:  # noqa
        outcome = {"error": type(e).__name__, "unexpected": str(e)[:200]}
    after = {k: hash_arg(v) for k, v in args.items()}
    mutated = [k for k in before if before[k] != after[k]]
    return {"outcome": outcome, "records": copy.deepcopy(RECORDS[start:]), "mutated": mutated,
            "registry_changed": registry_digest() != reg_before}


# ------------------------------------------------------------------------------------------------
# pristine processes


def _fresh_worker(desc):
    import warnings

    warnings.filterwarnings("ignore")
    import dask

    dask.config.set(scheduler="sync")
    r = run_call(desc, {})
    return {"outcome": r["outcome"], "records": r["records"]}


def _fresh_pristine(_):
    install_spies()
    return {"registry": pristine_registry(), "digest": registry_digest()}


def fresh_results(descs, workers=4):
    """each descriptor executed as the FIRST call of a pristine process (fork of a server that has only imported the modules)"""
    import multiprocessing as mp

    ctx = mp.get_context("forkserver")
    ctx.set_forkserver_preload(["numpy", "pandas", "dask.array", "xarray", "flox", "flox.core", "flox.xarray", "flox.aggregations",
                                "harness.state_ops"])
    with ctx.Pool(processes=workers, maxtasksperchild=1) as pool:
        pristine = pool.apply(_fresh_pristine, (None,))
        out = pool.map(_fresh_worker, descs, chunksize=1)
    return pristine, out


FRESH_SCRIPT = """
import sys, json, warnings
warnings.filterwarnings("ignore")
from harness import state_ops
desc = json.loads(sys.stdin.read())
print("RESULT" + json.dumps(state_ops._fresh_worker(desc), default=str))
"""


def fresh_interpreter(desc):
    """the same in a brand-new interpreter (slow; used for a few probes to validate the fork-server shortcut)"""
    import json
    import subprocess

    from . import core

    env = dict(os.environ)
    env["PYTHONPATH"] = core.REPO + ":" + core.VERIF
    p = subprocess.run([core.PY, "-W", "ignore", "-c", FRESH_SCRIPT], input=json.dumps(desc), capture_output=True, text=True, env=env, cwd=core.VERIF)
    for line in p.stdout.split("\n"):
        if line.startswith("RESULT"):
            return json.loads(line[6:])
    raise RuntimeError("fresh interpreter failed: " + p.stderr[-800:])
