"""Configuration cells of `flox.groupby_reduce` for property C19 (clean refusals; auto plan >= map-reduce).

A *cell* is one combination of
    reduction x engine x method x reindex x label kind (numpy/dask) x (label ndim, value ndim) x axis x
    expected_groups given? x chunk layout
evaluated on a tiny canonical input (<= 8 elements).  For a cell this module
  * builds the input deterministically from the cell description (`build_input`),
  * runs the real flox: graph construction, then compute on the synchronous scheduler (`run_impl`), recording the
    exception class and the phase in which it was raised, the plan flox resolved (method / reindex / engine, observed
    by wrapping `dask_groupby_agg`, `find_group_cohorts`, `_choose_engine` from outside), and which `assert` /
    `raise` source lines of flox the traceback went through,
  * computes an independent NumPy oracle of the values (`oracle`), and
  * produces the abstract description handed to the Lean model of the validation chain (`model_line`).
"""
from __future__ import annotations

import itertools
import math
import traceback
import warnings

import numpy as np

warnings.filterwarnings("ignore")

NAN = float("nan")

# (func, dtype of the value array): one representative per class of reduction
REDUCTIONS = [
    ("sum", "f8"), ("nanmax", "f8"), ("mean", "i8"), ("var", "f8"), ("count", "f8"), ("argmax", "f8"),
    ("nanargmin", "f8"), ("first", "f8"), ("nanfirst", "f8"), ("nanlast", "i8"), ("median", "f8"),
    ("quantile", "f8"), ("any", "b1"),
]
ENGINES = [None, "numpy", "flox", "numbagg"]
METHODS = [None, "map-reduce", "cohorts", "blockwise"]
REINDEX = [None, True, False]
BYDASK = [False, True]
# (label ndim, value ndim, axis option); for 1-D labels first/all coincide with last
SHAPES = [(1, 1, "none"), (1, 1, "last"), (1, 2, "none"), (1, 2, "last"), (1, 3, "none"), (1, 3, "last"),
          (2, 2, "none"), (2, 2, "last"), (2, 2, "first"), (2, 2, "all"),
          (2, 3, "none"), (2, 3, "last"), (2, 3, "first"), (2, 3, "all")]
EXPECTED = [False, True]
LAYOUTS = ["eager", "single", "sorted", "periodic", "cohorts", "absent", "allmissing"]

ARG = {"argmax", "argmin", "nanargmax", "nanargmin"}
FIRSTLAST = {"first", "last", "nanfirst", "nanlast"}
BLOCKWISE_ONLY = {"median", "nanmedian", "quantile", "nanquantile", "mode", "nanmode"}
FACTORS = ["func", "dtype", "engine", "method", "reindex", "bydask", "lnd", "vnd", "axis", "expected", "layout"]


def all_cells():
    for (f, dt), e, m, r, bd, (lnd, vnd, ax), ex, lay in itertools.product(
            REDUCTIONS, ENGINES, METHODS, REINDEX, BYDASK, SHAPES, EXPECTED, LAYOUTS):
        yield dict(func=f, dtype=dt, engine=e, method=m, reindex=r, bydask=bd, lnd=lnd, vnd=vnd, axis=ax, expected=ex,
                   layout=lay)


def cell_key(c: dict) -> str:
    return "|".join(f"{k}={c.get(k)}" for k in FACTORS + ["extra"] if k in c)


# ----------------------------------------------------------------------------------------------
# canonical inputs

_L1 = {  # 1-D labels, length 8 / 4 : (labels, chunks)
    8: {"single": ([0, 1, 0, 2, 1, 0, 2, 1], (8,)),
        "sorted": ([0, 0, 0, 1, 1, 2, 2, 2], (2, 2, 2, 2)),        # rechunked by flox to group boundaries
        "periodic": ([0, 1, 2, 0, 1, 2, 0, 1], (3, 3, 2)),
        "cohorts": ([0, 1, 0, 1, 2, 3, 2, 3], (2, 2, 2, 2)),
        "absent": ([0, 1, 0, 2, 1, 0, 2, 1], (3, 3, 2)),
        "allmissing": ([None] * 8, (3, 3, 2))},
    4: {"single": ([0, 1, 0, 1], (4,)),
        "sorted": ([0, 0, 1, 1], (1, 1, 2)),
        "periodic": ([0, 1, 0, 1], (2, 1, 1)),
        "cohorts": ([0, 0, 1, 1], (1, 1, 1, 1)),
        "absent": ([0, 1, 1, 0], (2, 1, 1)),
        "allmissing": ([None] * 4, (2, 1, 1))},
}
_L2 = {  # 2-D labels of shape (2, 4): (labels, chunks)
    "single": ([[0, 1, 0, 2], [1, 0, 2, 1]], ((2,), (4,))),
    "sorted": ([[0, 0, 1, 1], [2, 2, 3, 3]], ((1, 1), (2, 2))),     # every group inside one block
    "periodic": ([[0, 1, 0, 1], [1, 0, 1, 0]], ((1, 1), (2, 1, 1))),
    "cohorts": ([[0, 0, 1, 1], [0, 0, 1, 1]], ((1, 1), (2, 2))),
    "absent": ([[0, 1, 0, 2], [1, 0, 2, 1]], ((1, 1), (2, 1, 1))),
    "allmissing": ([[None] * 4, [None] * 4], ((1, 1), (2, 1, 1))),
}


def build_input(c: dict):
    """-> dict(array=ndarray, by=ndarray(float if missing labels), chunks=tuple per array dim, axis, expected, fill, kwargs)"""
    lnd, vnd, lay = c["lnd"], c["vnd"], c["layout"]
    lay = "single" if lay == "eager" else lay
    if lnd == 1:
        n = 8 if vnd == 1 else 4
        labs, lch = _L1[n][lay]
        lshape = (n,)
        lchunks = (tuple(lch),)
        lead = {1: (), 2: (2,), 3: (2, 1)}[vnd]
    else:
        labs, lch = _L2[lay]
        lshape = (2, 4)
        lchunks = tuple(tuple(x) for x in lch)
        lead = {2: (), 3: (1,)}[vnd]
    flat = np.array(labs, dtype=object).reshape(-1)
    missing = any(x is None for x in flat)
    if c["layout"] == "absent" and not c["expected"]:
        # nothing is "requested" when expected_groups is not given: make the layout useful by dropping some labels
        flat = flat.copy()
        flat[1] = None
        flat[-1] = None
        missing = True
    if missing:
        by = np.array([NAN if x is None else float(x) for x in flat], dtype="f8").reshape(lshape)
    else:
        by = np.array([int(x) for x in flat], dtype="i8").reshape(lshape)
    shape = lead + lshape
    size = int(np.prod(shape))
    base = np.array([3, -1, 4, 1, -5, 9, 2, 6][:size] if size <= 8 else np.arange(size))
    # a fixed permutation so that extremes are not at block boundaries only
    if c["dtype"] == "f8":
        arr = base.astype("f8")
        if c["func"].startswith("nan") and size > 2:
            arr[2] = NAN
    elif c["dtype"] == "i8":
        arr = base.astype("i8")
    else:
        arr = (base % 2 == 0)
    arr = arr.reshape(shape)
    chunks = tuple((s,) for s in lead) + lchunks
    # axis
    ax = c["axis"]
    if ax == "none":
        axis = None
    elif ax == "last":
        axis = -1
    elif ax == "first":
        axis = vnd - lnd
    else:
        axis = tuple(range(vnd - lnd, vnd))
    present = sorted({float(x) for x in by.reshape(-1) if not (isinstance(x, float) and math.isnan(x))})
    expected = None
    fill = None
    if c["expected"]:
        if lay == "absent":
            expected = [7, 9]
        elif lay == "allmissing":
            expected = [0, 1]
        else:
            expected = [int(p) for p in present] + [5]
        if c["func"] in ARG or c["dtype"] == "i8" and c["func"] in FIRSTLAST:
            fill = -1
        elif c["func"] == "any":
            fill = False
        elif c["func"] == "count":
            fill = 0
        else:
            fill = NAN
    kw = dict(func=c["func"])
    if axis is not None:
        kw["axis"] = axis
    if expected is not None:
        kw["expected_groups"] = np.array(expected)
        kw["fill_value"] = fill
    if c["engine"] is not None:
        kw["engine"] = c["engine"]
    if c["method"] is not None:
        kw["method"] = c["method"]
    if c["reindex"] is not None:
        kw["reindex"] = c["reindex"]
    if c["func"] in ("quantile", "nanquantile") and c.get("extra") != "noq":
        kw["finalize_kwargs"] = {"q": 0.5}
    if c.get("extra") == "dtype":
        kw["dtype"] = "float64"
    if c.get("extra") == "misaligned":
        by = by.reshape(-1)[:-1] if lnd == 1 else by[:, :-1]
    if c.get("extra") == "axis-outside" and vnd > lnd:
        kw["axis"] = 0
    if c.get("extra") == "axis-toomany" and vnd > lnd:
        kw["axis"] = tuple(range(vnd))
    return dict(array=arr, by=by, chunks=chunks, lchunks=lchunks, axis=kw.get("axis"), expected=expected, fill=fill, kwargs=kw)


# ----------------------------------------------------------------------------------------------
# the implementation

_rec: dict = {}
_patched = False
_sites = None


def flox_sites():
    """AST inventory of every `assert` / `raise` in /repo/flox/*.py: {(file, line): (kind, function, exception class)}"""
    global _sites
    if _sites is not None:
        return _sites
    import ast
    import glob
    import os

    import flox

    root = os.path.dirname(flox.__file__)
    out = {}
    for path in sorted(glob.glob(os.path.join(root, "*.py"))):
        tree = ast.parse(open(path).read())
        stack = []

        def visit(node, fn):
            for ch in ast.iter_child_nodes(node):
                f2 = fn
                if isinstance(ch, (ast.FunctionDef, ast.AsyncFunctionDef, ast.ClassDef)):
                    f2 = (fn + "." if fn else "") + ch.name
                if isinstance(ch, ast.Assert):
                    out[(os.path.basename(path), ch.lineno)] = ("assert", fn or "<module>", "AssertionError")
                elif isinstance(ch, ast.Raise):
                    exc = ch.exc
                    name = "<re-raise>"
                    if isinstance(exc, ast.Call):
                        exc = exc.func
                    if isinstance(exc, ast.Name):
                        name = exc.id
                    elif isinstance(exc, ast.Attribute):
                        name = exc.attr
                    out[(os.path.basename(path), ch.lineno)] = ("raise", fn or "<module>", name)
                visit(ch, f2)

        visit(tree, "")
    _sites = out
    return out


def _patch():
    global _patched
    if _patched:
        return
    import flox.core as fc

    orig_agg = fc.dask_groupby_agg
    orig_eng = fc._choose_engine
    orig_coh = fc.find_group_cohorts

    def agg_wrapper(*a, **k):
        _rec["method"] = k.get("method")
        r = k.get("reindex")
        _rec["reindex"] = None if r is None else r.blockwise
        _rec["engine"] = k.get("engine")
        arr = k.get("array", a[0] if a else None)
        ax = k.get("axis")
        by_ = k.get("by", a[1] if len(a) > 1 else None)
        nbsrc = arr if hasattr(arr, "numblocks") else by_           # in-memory values take the chunks of the labels
        off = (arr.ndim - nbsrc.ndim) if arr is not None and hasattr(nbsrc, "ndim") else 0
        _rec["numblocks_axis"] = ([int(nbsrc.numblocks[i - off if i >= 0 else i]) for i in ax]
                                  if hasattr(nbsrc, "numblocks") and ax is not None else None)
        return orig_agg(*a, **k)

    def eng_wrapper(by, agg):
        e = orig_eng(by, agg)
        _rec["chosen_engine"] = e
        _rec["codes_sorted"] = bool((by[:-1] <= by[1:]).all()) if isinstance(by, np.ndarray) else False
        return e

    def coh_wrapper(*a, **k):
        pm, cc = orig_coh(*a, **k)
        _rec["preferred"] = pm
        _rec["cohorts_empty"] = not cc
        return pm, cc

    fc.dask_groupby_agg = agg_wrapper
    fc._choose_engine = eng_wrapper
    fc.find_group_cohorts = coh_wrapper
    _patched = True


CLEAN = ("ValueError", "NotImplementedError", "ImportError")


def classify_exc(e: BaseException):
    mro = [k.__name__ for k in type(e).__mro__]
    if isinstance(e, (ValueError, NotImplementedError, ImportError)):
        kind = next(k for k in mro if k in CLEAN)
    else:
        kind = "internal:" + type(e).__name__
    return kind, mro


def _exc_sites(e: BaseException):
    """flox source lines on the traceback that are recorded assert/raise sites"""
    sites = flox_sites()
    hit = []
    import os

    for fr in traceback.extract_tb(e.__traceback__):
        key = (os.path.basename(fr.filename), fr.lineno)
        if "/flox/" in fr.filename and key in sites:
            hit.append(f"{key[0]}:{key[1]}:{sites[key][0]}:{sites[key][1]}")
    last = traceback.extract_tb(e.__traceback__)[-1] if e.__traceback__ else None
    where = f"{os.path.basename(last.filename)}:{last.lineno}:{last.name}" if last else "?"
    return hit, where


def run_impl(c: dict, inp: dict | None = None) -> dict:
    """-> dict(kind='ok'|'err', phase, err, mro, msg, vals, groups, plan, sites, where)"""
    import dask
    import dask.array as da
    import flox

    _patch()
    _rec.clear()
    inp = inp or build_input(c)
    arr, by = inp["array"], inp["by"]
    phase = "call"
    try:
        if c["layout"] == "eager":
            a, b = arr, by
        else:
            a = arr if c.get("extra") == "npvalues" else da.from_array(arr, chunks=inp["chunks"])
            if c.get("extra") == "diffchunks":
                a = da.from_array(arr, chunks=-1)       # one block; the (lazy) labels keep the layout's finer chunks
            if c.get("extra") == "misaligned":
                b = da.from_array(by, chunks=-1) if c["bydask"] else by
            else:
                b = da.from_array(by, chunks=inp["lchunks"]) if c["bydask"] else by
        with dask.config.set(scheduler="sync", split_every=2):
            res, groups = flox.groupby_reduce(a, b, **inp["kwargs"])
            _rec["lazy"] = hasattr(res, "dask")
            phase = "compute"
            res, groups = dask.compute(res, groups)
    except Exception as e:  # noqa
        kind, mro = classify_exc(e)
        sites, where = _exc_sites(e)
        return dict(kind="err", phase=phase, err=kind, mro=mro, msg=str(e)[:160], plan=dict(_rec), sites=sites, where=where)
    return dict(kind="ok", phase="done", vals=np.asarray(res), groups=np.asarray(groups), plan=dict(_rec))


# ----------------------------------------------------------------------------------------------
# independent oracle (NumPy applied to each group's members)


def _np_reduce(func, ms: np.ndarray, pos: np.ndarray):
    with np.errstate(all="ignore"):
        if func == "count":
            return float(np.sum(~np.isnan(ms))) if ms.dtype.kind == "f" else float(len(ms))
        if func == "first":
            return float(ms[0])
        if func in ("nanfirst", "nanlast"):
            ok = ms[~np.isnan(ms)] if ms.dtype.kind == "f" else ms
            if len(ok) == 0:
                return NAN
            return float(ok[0] if func == "nanfirst" else ok[-1])
        if func == "argmax":
            return float(pos[int(np.argmax(ms))])
        if func == "nanargmin":
            valid = ~np.isnan(ms)
            if not valid.any():
                return None
            return float(pos[np.flatnonzero(valid & (ms == ms[valid].min()))[0]])
        if func == "any":
            return float(bool(np.any(ms)))
        if func == "quantile":
            return float(np.quantile(ms, 0.5))
        if func == "var":
            return float(np.var(ms.astype("f8")))
        return float(getattr(np, func)(ms.astype("f8") if ms.dtype.kind != "f" else ms))


def oracle(c: dict, inp: dict):
    """-> dict(kind='ok', groups=[...], vals=ndarray of float (NaN-able), undefined=mask) | dict(kind='nofill') | dict(kind='na')

    result[lead..., kept label dims..., g] = NumPy reduction of the members of label g along the reduced label dims,
    members in C order; the arg-reductions return the position along the last reduced dim.
    """
    arr, by = inp["array"], inp["by"]
    lnd = by.ndim
    if by.shape != arr.shape[arr.ndim - lnd:]:
        return dict(kind="na")
    ax = inp["axis"]
    if ax is None:
        red = tuple(range(arr.ndim - lnd, arr.ndim))
    else:
        red = tuple(sorted(a % arr.ndim for a in ((ax,) if isinstance(ax, int) else ax)))
    if any(a < arr.ndim - lnd for a in red):
        return dict(kind="na")
    byf = by.astype("f8")
    present = sorted({float(x) for x in byf.reshape(-1) if not math.isnan(x)})
    groups = sorted(float(x) for x in inp["expected"]) if inp["expected"] is not None else present
    fill = inp["fill"]
    kept = tuple(a for a in range(arr.ndim) if a not in red)
    # move reduced axes to the end and flatten them
    arr2 = np.moveaxis(arr, red, tuple(range(arr.ndim - len(red), arr.ndim)))
    arr2 = arr2.reshape(arr2.shape[: len(kept)] + (-1,))
    byb = np.broadcast_to(byf, arr.shape)
    by2 = np.moveaxis(byb, red, tuple(range(arr.ndim - len(red), arr.ndim)))
    by2 = by2.reshape(by2.shape[: len(kept)] + (-1,))
    out = np.full(arr2.shape[:-1] + (len(groups),), NAN)
    undefined = np.zeros(out.shape, bool)
    partial = len(red) < lnd          # flox documents an implicit min_count=1 here
    for idx in np.ndindex(*arr2.shape[:-1]):
        for j, g in enumerate(groups):
            pos = np.flatnonzero(by2[idx] == g)
            ms = arr2[idx][pos]
            nvalid = int(np.sum(~np.isnan(ms))) if ms.dtype.kind == "f" else len(ms)
            empty = len(ms) == 0 or ((fill is not None and inp["expected"] is not None or partial) and nvalid == 0)
            if empty:
                if fill is None:
                    if len(ms) == 0 and not partial:
                        return dict(kind="nofill")
                    undefined[idx + (j,)] = True      # default fill of the aggregation: not part of this property
                    continue
                out[idx + (j,)] = float(fill)
                continue
            # arg-reductions: flox reports the position along the LAST reduced axis (its documented-by-behaviour
            # convention for in-memory input, `np.unravel_index(...)[-1]`); for one reduced axis this is NumPy's
            v = _np_reduce(c["func"], ms, pos % arr.shape[red[-1]])
            if v is None:
                undefined[idx + (j,)] = True
            else:
                out[idx + (j,)] = v
    return dict(kind="ok", groups=groups, vals=out, undefined=undefined)


def values_match(c: dict, impl_vals: np.ndarray, orc: dict) -> str | None:
    want = orc["vals"]
    got = np.asarray(impl_vals)
    if got.dtype.kind not in "fiub":
        return f"result dtype {got.dtype}"
    got = got.astype("f8")
    if got.shape != want.shape:
        return f"shape {got.shape} != oracle {want.shape}"
    ok = np.isclose(got, want, rtol=1e-9, atol=1e-12, equal_nan=True) | orc["undefined"]
    if not ok.all():
        i = tuple(int(x) for x in np.argwhere(~ok)[0])
        return f"value at {i}: flox {got[i]!r} oracle {want[i]!r} (flox {got.tolist()} oracle {want.tolist()})"
    return None


def groups_match(groups, orc: dict) -> str | None:
    g = [float(x) for x in np.asarray(groups).reshape(-1)]
    g = [x for x in g if not math.isnan(x)]
    if g != [float(x) for x in orc["groups"]]:
        return f"group labels {g} != oracle {orc['groups']}"
    return None


def blockwise_precondition(c: dict, inp: dict) -> bool:
    """every group inside one block (for 1-D labels: the labels are sequential runs, flox rechunks itself)"""
    by = inp["by"].astype("f8")
    if by.ndim == 1:
        seen, prev = set(), None
        for x in by:
            if math.isnan(x):
                prev = None
                continue
            if x != prev and x in seen:
                return False
            seen.add(x)
            prev = x
        return True
    owner = {}
    offs = [np.cumsum((0,) + ch) for ch in inp["lchunks"]]
    for bi in itertools.product(*[range(len(ch)) for ch in inp["lchunks"]]):
        sl = tuple(slice(int(offs[d][i]), int(offs[d][i + 1])) for d, i in enumerate(bi))
        for x in np.unique(by[sl]):
            if math.isnan(x):
                continue
            if owner.setdefault(float(x), bi) != bi:
                return False
    return True


# ----------------------------------------------------------------------------------------------
# abstract description for the Lean model


def func_kind(f: str) -> str:
    if f in ("argmax", "argmin"):
        return "arg"
    if f in ("nanargmax", "nanargmin"):
        return "nanarg"
    if f in ("first", "last"):
        return "first"
    if f in ("nanfirst", "nanlast"):
        return "nanfirst"
    if f in ("median", "quantile"):
        return "quantile"
    if f in ("nanmedian", "nanquantile"):
        return "nanquantile"
    if f == "mode":
        return "mode"
    if f == "nanmode":
        return "nanmode"
    if f in ("any", "all"):
        return "anyall"
    if "nan" in f or f in ("count", "mean", "var", "std"):
        return "nanskip"       # the chunk tuple uses a NaN-skipping kernel (mean/var/std count with nanlen)
    return "plain"


def model_line(c: dict, inp: dict, plan: dict) -> str:
    arr, by = inp["array"], inp["by"]
    ax = inp["axis"]
    nax = by.ndim if ax is None else (1 if isinstance(ax, int) else len(ax))
    bydask = bool(c["bydask"]) and c["layout"] != "eager"
    arrdask = c["layout"] != "eager" and c.get("extra") != "npvalues"
    flat = by.reshape(-1)
    issorted = bool(plan.get("codes_sorted", False))      # `_issorted` of the integer codes `_choose_engine` received
    pref = plan.get("preferred") or "map-reduce"
    nb = plan.get("numblocks_axis")
    if c.get("extra") == "diffchunks":
        # values in one block, labels chunked: flox unifies the chunks inside dask_groupby_agg, the blocks are the labels'
        nb = [len(ch) for ch in inp["lchunks"]][-nax:] if nax <= by.ndim else None
    if nb is None:
        nchunks = [len(ch) for ch in inp["chunks"]][-nax:] if nax <= arr.ndim else []
    else:
        nchunks = nb
    single = all(n == 1 for n in nchunks)
    aligned = all(j in (i, 1) for i, j in zip(arr.shape[arr.ndim - by.ndim:], by.shape)) if by.ndim <= arr.ndim else False
    axis_in_by = True
    if ax is not None:
        axs = (ax,) if isinstance(ax, int) else tuple(ax)
        axis_in_by = all((a % arr.ndim) >= arr.ndim - by.ndim for a in axs)
    return ("c19validate fk=%s qgiven=%d eng=%s dtypegiven=%d dtypeint=0 method=%s reindex=%s bydask=%d arrdask=%d nax=%d ndim=%d "
            "expected=%d float=%d preferred=%s cohortsempty=%d single=%d sorted=%d numbagg=%d aligned=%d countmask=%d" % (
                func_kind(c["func"]), 0 if c.get("extra") == "noq" else 1, c["engine"] or "none",
                1 if c.get("extra") == "dtype" else 0, c["method"] or "none",
                {None: "none", True: "true", False: "false"}[c["reindex"]], bydask, arrdask, nax, by.ndim,
                1 if inp["expected"] is not None else 0, 1 if arr.dtype.kind == "f" else 0, pref,
                1 if plan.get("cohorts_empty") else 0, 1 if single else 0, 1 if issorted else 0, 1, 1 if aligned else 0,
                1 if (nax < by.ndim or (inp["fill"] is not None and inp["expected"] is not None)) else 0))


# ----------------------------------------------------------------------------------------------
# evaluating one group (= one input under the four settings of `method`); picklable, used by worker processes

GROUP_FACTORS = [f for f in FACTORS if f != "method"]


def vtokens(groups, vals, undefined=None) -> list[str]:
    """canonical text of a result: shape, group labels, values rounded to 9 decimals (`u` = slot not defined by the oracle)"""
    v = np.asarray(vals)
    if v.dtype.kind not in "fiub":
        return ["dtype:" + str(v.dtype)]
    v = v.astype("f8")
    out = ["s" + "x".join(str(s) for s in v.shape)]
    for g in np.asarray(groups, dtype="f8").reshape(-1):
        if not math.isnan(g):
            out.append("g" + repr(round(float(g), 9)))
    und = np.zeros(v.shape, bool) if undefined is None or undefined.shape != v.shape else undefined
    for x, u in zip(v.reshape(-1), und.reshape(-1)):
        if u:
            out.append("u")
        elif math.isnan(x):
            out.append("nan")
        elif math.isinf(x):
            out.append("inf" if x > 0 else "-inf")
        else:
            out.append(repr(round(float(x), 9) + 0.0))
    return out


def eval_group(g: dict) -> dict:
    """g: the group factors (+ optional 'extra', 'methods') -> per-method records + the oracle"""
    methods = g.get("methods") or METHODS
    out = {"group": {k: g[k] for k in list(GROUP_FACTORS) + (["extra"] if "extra" in g else [])}, "cells": []}
    orc = None
    for m in methods:
        c = dict(out["group"])
        c["method"] = m
        inp = build_input(c)
        if orc is None:
            try:
                orc = oracle(c, inp)
            except Exception as e:  # noqa
                orc = dict(kind="na", why=repr(e))
        r = run_impl(c, inp)
        rec = dict(cell=c, kind=r["kind"], phase=r["phase"], plan={k: v for k, v in r["plan"].items()},
                   line=model_line(c, inp, r["plan"]))
        if m == "blockwise":
            rec["pre"] = bool(blockwise_precondition(c, inp)) if c.get("extra") != "misaligned" else False
        if r["kind"] == "err":
            rec.update(err=r["err"], mro=r["mro"], msg=r["msg"], where=r["where"], sites=r["sites"])
        else:
            und = orc.get("undefined") if orc["kind"] == "ok" else None
            rec["tokens"] = vtokens(r["groups"], r["vals"], und)
            if orc["kind"] == "ok":
                rec["diff"] = values_match(c, r["vals"], orc) or groups_match(r["groups"], orc)
        out["cells"].append(rec)
    out["oracle"] = orc["kind"]
    if orc["kind"] == "ok":
        out["oracle_tokens"] = vtokens(orc["groups"], orc["vals"], orc["undefined"])
    return out
