"""C17 – rechunking helpers keep the data and establish their alignment postconditions.

Correspondence streams for `flox.core._get_optimal_chunks_for_groups`, `flox.core.rechunk_for_blockwise`,
`flox.core.rechunk_for_cohorts`, their xarray wrappers (`flox.xarray.rechunk_for_blockwise/_cohorts`, `_rechunk`)
and the automatic rechunk inside `groupby_reduce(method="blockwise")`.

  tie1   : chunks computed by the real helpers  ==  Lean model (`rechunk-optimal/-blockwise/-cohorts` driver ops)
  tie2   : independent pure-Python predicates   ==  Lean specification (`rechunk-spec` op), on the real result and on a
           perturbed chunking (so that both truth values occur)
  direct : the property itself, judged by the Python oracle on the real result (same shape / dtype / values, other axes
           untouched, positive chunks summing to n, no straddling group for sequential labels, forced labels start a chunk,
           old boundaries kept, blockwise == eager, independence of the memoisation history)
"""
from __future__ import annotations

import itertools
import random
from dataclasses import asdict, dataclass, field

import numpy as np

from . import core
from .framework import Prop, Report

# ------------------------------------------------------------------------------------------------
# cases


@dataclass
class RCase:
    kind: str                      # "blockwise" | "cohorts" | "reduce"
    labels: list                   # ints; None = missing label (NaN)
    chunks: list                   # old chunks along the axis
    forced: list | None = None     # cohorts: force_new_chunk_at
    chunksize: int | None = None   # cohorts: chunksize hint (None = median of old chunks)
    ignore: bool = False           # cohorts: ignore_old_chunks
    flavour: str = "array"         # "fake" | "array" | "dataarray" | "dataset" | "dataset-nodim"
    ndim: int = 1
    axis: int = 0                  # as passed to the helper (may be negative)
    other: list | None = None      # chunks of the other axis when ndim == 2
    chunks2: list | None = None    # dataset flavours: chunks of the second variable along the dimension
    dtype: str = "float64"
    func: str = "sum"              # reduce only
    alt: list | None = None        # a perturbed chunking, used for the spec-vs-oracle tie only
    nlabels: int | None = None     # cohorts: length of the label vector actually passed (None = n); for the ValueError path
    stream: str = ""

    def key(self):
        d = asdict(self)
        d.pop("alt")
        d.pop("stream")
        return core.case_hash(d)


def compositions(n):
    """all tuples of positive integers summing to n"""
    if n == 0:
        yield ()
        return
    for k in range(1, n + 1):
        for rest in compositions(n - k):
            yield (k,) + rest


def rand_composition(rng, n, mode=None):
    mode = mode or rng.choice(["random", "random", "ones", "single", "even", "few"])
    if n == 0:
        return []
    if mode == "ones":
        return [1] * n
    if mode == "single":
        return [n]
    if mode == "even":
        k = rng.randint(1, max(1, n // 2))
        out = [k] * (n // k)
        if n % k:
            out.append(n % k)
        return out
    p = 0.5 if mode == "random" else 0.15
    out, cur = [], 1
    for _ in range(n - 1):
        if rng.random() < p:
            out.append(cur)
            cur = 1
        else:
            cur += 1
    out.append(cur)
    return out


def labels_from_runs(values, runs):
    out = []
    for v, r in zip(values, runs):
        out += [v] * r
    return out


def gen_seq_labels(rng, n):
    """sequential labels: runs of arbitrary lengths; ascending, arbitrary distinct, or with one NaN run"""
    runs = rand_composition(rng, n, rng.choice(["random", "few", "few", "even", "ones", "single"]))
    k = len(runs)
    mode = rng.choice(["ascending", "ascending", "ascending-gaps", "distinct", "nan-run"])
    if mode == "ascending":
        vals = list(range(k))
    elif mode == "ascending-gaps":
        vals = sorted(rng.sample(range(-5, 3 * k + 5), k))
    elif mode == "distinct":
        vals = rng.sample(range(-3, 2 * k + 3), k)
    else:
        vals = sorted(rng.sample(range(0, 2 * k + 2), k))
        vals[rng.randrange(k)] = None
    return labels_from_runs(vals, runs), mode


def gen_any_labels(rng, n):
    mode = rng.choice(["periodic", "periodic", "random", "random", "runs-repeat"])
    k = rng.randint(1, 5)
    if mode == "periodic":
        period = rng.randint(1, max(1, min(n, 6)))
        base = [rng.randrange(k) for _ in range(period)] if rng.random() < 0.4 else list(range(period))
        labs = [base[i % period] for i in range(n)]
        # irregular: drop / repeat an element now and then (the "1,2,3,1,2,3,4,1,2,3" pattern of the docstring)
        if rng.random() < 0.5 and n > 2:
            i = rng.randrange(n)
            labs[i] = period
    elif mode == "random":
        labs = [rng.randrange(k) for _ in range(n)]
    else:
        runs = rand_composition(rng, n, "few")
        labs = labels_from_runs([rng.randrange(k) for _ in runs], runs)
    off = rng.choice([0, 0, -2, 10])
    return [l + off for l in labs], mode


def perturb(rng, n, base):
    """another chunking of (about) the same axis: valid, or invalid in one of the ways the spec must reject"""
    m = rng.random()
    if m < 0.45 or not base:
        return rand_composition(rng, n)
    out = list(base)
    if m < 0.6 and len(out) >= 2:            # merge two chunks
        i = rng.randrange(len(out) - 1)
        out[i:i + 2] = [out[i] + out[i + 1]]
    elif m < 0.75:                           # move one boundary
        i = rng.randrange(len(out))
        if out[i] > 1 and len(out) >= 2:
            j = (i + 1) % len(out)
            out[i] -= 1
            out[j] += 1
    elif m < 0.85:                           # zero-size chunk
        out.insert(rng.randrange(len(out) + 1), 0)
    elif m < 0.95:                           # wrong total
        out[rng.randrange(len(out))] += rng.choice([1, 2])
    else:
        out = out[:-1]
    return out


def decorate(rng, c: RCase, flavours):
    """choose flavour / dimensionality / dtype for a case"""
    c.flavour = rng.choice(flavours)
    n = sum(c.chunks)
    c.dtype = rng.choice(["float64", "float64", "int64", "float32", "bool"])
    if c.flavour in ("dataset", "dataset-nodim"):
        c.ndim = 2
        c.axis = rng.choice([0, 1])
        c.chunks2 = rand_composition(rng, n)
    elif c.flavour == "fake":
        c.ndim, c.axis = 1, 0
    else:
        c.ndim = rng.choice([1, 2, 2])
        c.axis = rng.choice([0, -1]) if c.ndim == 1 else rng.choice([0, 1, -1, -2])
    if c.ndim == 2:
        m = rng.randint(1, 3)
        c.other = rand_composition(rng, m)
    c.alt = perturb(rng, n, c.chunks)
    if rng.random() < 0.05 and c.flavour != "fake":
        # dask allows zero-length chunks; outside the Lean model's domain (no model line), judged by the oracle only
        c.chunks = list(c.chunks)
        c.chunks.insert(rng.randrange(len(c.chunks) + 1), 0)
        c.stream += "+zero-chunk"
    return c


def make_blockwise(rng, nmax, flavours, sequential=None):
    n = rng.randint(1, nmax)
    seq = rng.random() < 0.75 if sequential is None else sequential
    labels, mode = gen_seq_labels(rng, n) if seq else gen_any_labels(rng, n)
    c = RCase(kind="blockwise", labels=labels, chunks=rand_composition(rng, n), stream="B:" + mode)
    return decorate(rng, c, flavours)


def make_cohorts(rng, nmax, flavours):
    n = rng.randint(1, nmax)
    if rng.random() < 0.8:
        labels, mode = gen_any_labels(rng, n)
    else:
        labels, mode = gen_seq_labels(rng, n)
        labels = [0 if l is None else l for l in labels]
    present = sorted(set(labels))
    r = rng.random()
    if r < 0.55:
        forced = [rng.choice(present)]
    elif r < 0.8:
        forced = rng.sample(present, rng.randint(1, len(present)))
    elif r < 0.92:
        forced = rng.sample(present, rng.randint(1, len(present))) + [max(present) + 7]     # partly absent
    else:
        forced = [max(present) + 7]                                                         # absent -> ValueError
    cs = rng.choice([None, None, 1, 2, 3, 4, 5, 6, 8, n, n + 3, 0])
    c = RCase(kind="cohorts", labels=labels, chunks=rand_composition(rng, n), forced=forced, chunksize=cs,
              ignore=rng.random() < 0.4, stream="C:" + mode)
    decorate(rng, c, flavours)
    if rng.random() < 0.04 and c.flavour != "dataset-nodim":
        c.nlabels = n + rng.choice([-1, 1, 2])
        c.stream = "C:len-mismatch"
    return c


REDUCE_FUNCS = ["sum", "nansum", "max", "nanmin", "count", "mean", "first", "last", "prod", "nanmean"]


def make_reduce(rng, nmax):
    n = rng.randint(1, nmax)
    labels, mode = gen_seq_labels(rng, n)
    if mode == "distinct" and rng.random() < 0.5:
        # keep most of this stream on the documented pattern (non-decreasing labels, as produced by resample)
        labels = sorted(labels)
        mode = "ascending-gaps"
    c = RCase(kind="reduce", labels=labels, chunks=rand_composition(rng, n), func=rng.choice(REDUCE_FUNCS),
              dtype=rng.choice(["float64", "float64", "int64"]), stream="R:" + mode)
    c.alt = perturb(rng, n, c.chunks)
    return c


# ------------------------------------------------------------------------------------------------
# independent oracle (pure Python; written from the property text)


def o_valid(n, chunks):
    return all(c > 0 for c in chunks) and sum(chunks) == n


def o_ends(chunks):
    out, acc = [], 0
    for c in chunks:
        acc += c
        out.append(acc)
    return out


def o_starts(chunks):
    return [0] + o_ends(chunks)[:-1] if chunks else []


def o_nostraddle(labels, chunks):
    for b in o_ends(chunks):
        if set(labels[:b]) & set(labels[b:]):
            return False
    return True


def o_blocks(labels, chunks):
    out, pos = [], 0
    for c in chunks:
        out.append(labels[pos:pos + c])
        pos += c
    return out


def o_oneblock(labels, chunks):
    seen = {}
    for k, blk in enumerate(o_blocks(labels, chunks)):
        for v in blk:
            if seen.setdefault(v, k) != k:
                return False
    return True


def o_contiguous(labels):
    nruns = sum(1 for i, l in enumerate(labels) if i == 0 or labels[i - 1] != l)
    return nruns == len(set(labels))


def o_forced(labels, forced, chunks):
    st = set(o_starts(chunks))
    return all(i in st for i, l in enumerate(labels) if i == 0 or l in forced)


def o_keepold(old, new):
    return set([0] + o_ends(old)) <= set([0] + o_ends(new))


def oracle_spec(labels, old, new, forced):
    b = lambda x: "1" if x else "0"  # noqa
    return (f"valid={b(o_valid(len(labels), new))} nostraddle={b(o_nostraddle(labels, new))} "
            f"oneblock={b(o_oneblock(labels, new))} contiguous={b(o_contiguous(labels))} "
            f"forced={b(o_forced(labels, forced, new))} keepold={b(o_keepold(old, new))}")


# ------------------------------------------------------------------------------------------------
# protocol lines


def ltok(l):
    return "n" if l is None else str(int(l))


def ltoks(ls):
    return ",".join(ltok(l) for l in ls)


def ntoks(xs):
    return ",".join(str(int(x)) for x in xs)


def line_blockwise(chunks, raw):
    return f"rechunk-blockwise chunks={ntoks(chunks)} raw={ltoks(raw)}"


def line_optimal(chunks, codes):
    return f"rechunk-optimal chunks={ntoks(chunks)} labels={ntoks(codes)}"


def line_cohorts(chunks, labels, forced, cs, ignore):
    return (f"rechunk-cohorts chunks={ntoks(chunks)} labels={ltoks(labels)} forced={ltoks(forced)} "
            f"cs={'-' if cs is None else int(cs)} ignore={1 if ignore else 0}")


def line_spec(labels, old, new, forced):
    return f"rechunk-spec labels={ltoks(labels)} old={ntoks(old)} new={ntoks(new)} forced={ltoks(forced or [])}"


# ------------------------------------------------------------------------------------------------
# the real flox


def np_labels(labels):
    if any(l is None for l in labels):
        return np.array([np.nan if l is None else float(l) for l in labels], dtype="float64")
    return np.array(labels, dtype="int64")


class FakeArray:
    """duck array exposing exactly what the array-level helpers touch (chunks, shape, rechunk) – used for the large
    enumerations where building a dask graph per case would dominate"""

    def __init__(self, chunks):
        self.chunks = (tuple(int(c) for c in chunks),)
        self.shape = (sum(self.chunks[0]),)
        self.rechunked = None

    def rechunk(self, d):
        assert list(d) == [0] or list(d) == [-1], d
        out = FakeArray(list(d.values())[0])
        out.rechunked = True
        return out


def _data(c: RCase, n):
    shape = (n,) if c.ndim == 1 else ((n, sum(c.other)) if c.axis % 2 == 0 else (sum(c.other), n))
    size = int(np.prod(shape))
    a = (np.arange(size) * 3 - 7).reshape(shape)
    if c.dtype == "bool":
        return (a % 2 == 0)
    return a.astype(c.dtype)


def _chunks_nd(c: RCase, along):
    if c.ndim == 1:
        return (tuple(along),)
    return (tuple(along), tuple(c.other)) if c.axis % 2 == 0 else (tuple(c.other), tuple(along))


def _err(e: Exception):
    msg = str(e)
    if isinstance(e, ValueError) and msg.startswith("labels must be equal to array.shape[axis]"):
        return "labels-length"
    if isinstance(e, ValueError) and msg.startswith("One or more labels in ``force_new_chunk_at`` not present"):
        return "no-forced-label"
    return f"{type(e).__name__}: {msg[:200]}"


def _compare_obj(before, after, problems, what):
    if tuple(after.shape) != tuple(before.shape):
        problems.append(f"{what}: shape changed {before.shape} -> {after.shape}")
        return
    if after.dtype != before.dtype:
        problems.append(f"{what}: dtype changed {before.dtype} -> {after.dtype}")
    if not np.array_equal(np.asarray(after), before, equal_nan=before.dtype.kind == "f"):
        problems.append(f"{what}: values changed")


def run_rechunk(c: RCase) -> dict:
    """call the real helper; returns {"kind": "ok", "vars": [(name, old, new)], "problems": [...]} or {"kind": "err"}"""
    import dask
    import dask.array as da
    import flox
    import flox.core as fc
    import flox.xarray as fx

    n = sum(c.chunks)
    labels = list(c.labels)
    if c.nlabels is not None:
        labels = (labels * 3)[: c.nlabels] if labels else [0] * c.nlabels
    labs = np_labels(labels)
    kw = {}
    if c.kind == "cohorts":
        kw = dict(force_new_chunk_at=list(c.forced), chunksize=c.chunksize, ignore_old_chunks=c.ignore)
    problems, out_vars = [], []
    try:
        with dask.config.set(scheduler="sync"):
            if c.flavour == "fake":
                arr = FakeArray(c.chunks)
                res = (fc.rechunk_for_blockwise(arr, 0, labs) if c.kind == "blockwise"
                       else fc.rechunk_for_cohorts(arr, 0, labs, **kw))
                out_vars.append(("array", list(c.chunks), [int(x) for x in res.chunks[0]]))
            elif c.flavour == "array":
                data = _data(c, n)
                arr = da.from_array(data, chunks=_chunks_nd(c, c.chunks))
                res = (flox.rechunk_for_blockwise(arr, c.axis, labs) if c.kind == "blockwise"
                       else fc.rechunk_for_cohorts(arr, c.axis, labs, **kw))
                pos = c.axis % c.ndim
                out_vars.append(("array", list(c.chunks), [int(x) for x in res.chunks[pos]]))
                for ax in range(c.ndim):
                    if ax != pos and res.chunks[ax] != arr.chunks[ax]:
                        problems.append(f"array: chunks of the other axis {ax} changed {arr.chunks[ax]} -> {res.chunks[ax]}")
                _compare_obj(data, res.compute(), problems, "array")
            else:
                import xarray as xr

                dims = ("t",) if c.ndim == 1 else (("t", "x") if c.axis % 2 == 0 else ("x", "t"))
                data = _data(c, n)
                lab_da = xr.DataArray(labs, dims="t", name="labels")
                func = fx.rechunk_for_blockwise if c.kind == "blockwise" else fx.rechunk_for_cohorts
                if c.flavour == "dataarray":
                    obj = xr.DataArray(da.from_array(data, chunks=_chunks_nd(c, c.chunks)), dims=dims, name="a",
                                       coords={"t": np.arange(n) * 10}, attrs={"units": "K"})
                    res = func(obj, "t", lab_da, **kw)
                    pos = dims.index("t")
                    out_vars.append(("a", list(c.chunks), [int(x) for x in res.chunks[pos]]))
                    for ax in range(c.ndim):
                        if ax != pos and res.chunks[ax] != obj.chunks[ax]:
                            problems.append(f"dataarray: chunks of the other axis changed {obj.chunks[ax]} -> {res.chunks[ax]}")
                    if res.dims != obj.dims:
                        problems.append(f"dataarray: dims changed {obj.dims} -> {res.dims}")
                    if not np.array_equal(res["t"].values, obj["t"].values):
                        problems.append("dataarray: coordinate values changed")
                    if obj.chunks[pos] != tuple(c.chunks):
                        problems.append("dataarray: the input object was modified in place")
                    _compare_obj(data, res.compute().values, problems, "dataarray")
                else:
                    d2 = (np.arange(n) * 2 + 1).astype("int64")
                    d3 = np.arange(n).astype("float64") / 2
                    variables = {
                        "a": (dims, da.from_array(data, chunks=_chunks_nd(c, c.chunks))),
                        "c": (("t",), da.from_array(d2, chunks=(tuple(c.chunks2),))),
                        "d": (("t",), d3),                                   # not dask-backed: must be left alone
                    }
                    if c.flavour == "dataset-nodim":
                        m = sum(c.other)
                        variables["b"] = (("x",), da.from_array(np.arange(m) * 1.0, chunks=(tuple(c.other),)))
                    obj = xr.Dataset(variables)
                    res = func(obj, "t", lab_da, **kw)
                    pos = dims.index("t")
                    out_vars.append(("a", list(c.chunks), [int(x) for x in res["a"].chunks[pos]]))
                    out_vars.append(("c", list(c.chunks2), [int(x) for x in res["c"].chunks[0]]))
                    for ax in range(c.ndim):
                        if ax != pos and res["a"].chunks[ax] != obj["a"].chunks[ax]:
                            problems.append("dataset: chunks of the other axis of variable a changed")
                    if res["d"].chunks is not None:
                        problems.append("dataset: the in-memory variable d became chunked")
                    if set(res.data_vars) != set(obj.data_vars):
                        problems.append(f"dataset: variables changed {set(obj.data_vars)} -> {set(res.data_vars)}")
                    comp = res.compute()
                    _compare_obj(data, comp["a"].values, problems, "dataset.a")
                    _compare_obj(d2, comp["c"].values, problems, "dataset.c")
                    _compare_obj(d3, comp["d"].values, problems, "dataset.d")
                    if "b" in variables:
                        if res["b"].chunks != obj["b"].chunks:
                            problems.append("dataset: variable b (without the dimension) was rechunked")
                        _compare_obj(np.arange(sum(c.other)) * 1.0, comp["b"].values, problems, "dataset.b")
    except Exception as e:  # noqa
        return {"kind": "err", "err": _err(e)}
    return {"kind": "ok", "vars": out_vars, "problems": problems}


def run_reduce(c: RCase) -> dict:
    """groupby_reduce(method='blockwise') on a 1-D dask array with in-memory sequential labels vs the eager result; the
    internal call of rechunk_for_blockwise is recorded by wrapping the module global from outside"""
    import dask
    import dask.array as da
    import flox
    import flox.core as fc

    n = sum(c.chunks)
    labs = np_labels(c.labels)
    data = ((np.arange(n) * 5) % 7 - 2).astype(c.dtype)
    if c.dtype == "float64" and n > 2 and c.func.startswith("nan"):
        data[n // 2] = np.nan
    rec = []
    orig = fc.rechunk_for_blockwise

    def spy(array, axis, labels):
        out = orig(array, axis=axis, labels=labels)
        rec.append(([int(x) for x in array.chunks[axis]], [int(x) for x in np.asarray(labels).tolist()],
                    [int(x) for x in out.chunks[axis]]))
        return out

    fc.rechunk_for_blockwise = spy
    try:
        with dask.config.set(scheduler="sync"):
            r, g = flox.groupby_reduce(da.from_array(data, chunks=(tuple(c.chunks),)), labs, func=c.func, method="blockwise")
            r = np.asarray(r.compute())
            g = np.asarray(g)
    except Exception as e:  # noqa
        return {"kind": "err", "err": f"{type(e).__name__}: {str(e)[:200]}", "rec": rec}
    finally:
        fc.rechunk_for_blockwise = orig
    try:
        e, ge = flox.groupby_reduce(data, labs, func=c.func)
    except Exception as ex:  # noqa
        return {"kind": "err", "err": f"eager: {type(ex).__name__}: {str(ex)[:200]}", "rec": rec}
    return {"kind": "ok", "vals": r, "groups": g, "eager": np.asarray(e), "eager_groups": np.asarray(ge), "rec": rec, "data": data}


def numpy_group_oracle(c: RCase, data):
    """per-group NumPy reduction over the members in positional order (labels ascending, NaN label dropped)"""
    f = {"sum": np.sum, "nansum": np.nansum, "max": np.max, "nanmin": np.nanmin, "mean": np.mean, "nanmean": np.nanmean,
         "prod": np.prod, "count": lambda x: np.sum(~np.isnan(x.astype("float64"))), "first": lambda x: x[0],
         "last": lambda x: x[-1]}[c.func]
    gs = sorted({l for l in c.labels if l is not None})
    vals = []
    for g in gs:
        mem = np.array([data[i] for i, l in enumerate(c.labels) if l == g])
        with np.errstate(all="ignore"):
            vals.append(float(f(mem)))
    return gs, vals


# ------------------------------------------------------------------------------------------------
# the property


class C17(Prop):
    id = "C17"
    lean_module = "FloxProps.C17"
    level = "proof"
    rule = ("streams: (B) rechunk_for_blockwise on sequential labels (runs of arbitrary lengths: ascending, ascending with gaps, "
            "arbitrary distinct values, one NaN run) and on periodic/random labels; (C) rechunk_for_cohorts on periodic / "
            "irregular / random / run labels with forced-label sets (one, several, partly absent, absent) x chunksize hints "
            "(None, 0..n+3) x ignore_old_chunks; (R) groupby_reduce(method='blockwise') on 1-D dask input with sequential "
            "in-memory labels vs the eager result; flavours: dask array (1-D/2-D, positive and negative axis), xarray DataArray, "
            "Dataset (two dask variables chunked differently + one in-memory variable), duck array for the enumerations; "
            "(X) exhaustive: every run-length pattern x every chunking for n<=7 (quick) / n<=9 (thorough), and every label "
            "vector over {0,1,2} x chunking x forced set x chunksize in {None,1..4} x ignore for n<=4 (quick) / n<=5 (thorough); "
            "(M) memoised _get_optimal_chunks_for_groups called repeatedly in different orders, with cold and warm cache, vs "
            "the undecorated function. non-trivial = axis length >= 2 and (>= 2 old chunks or >= 2 distinct labels); "
            "distinct = hash of (kind, labels, chunks, forced, chunksize, ignore, flavour, layout)")
    assumptions = [
        "labels passed to _get_optimal_chunks_for_groups are factorised codes (its only callers factorise first)",
        "old chunks are positive (dask's zero-length chunks are outside the modelled domain; the driver refuses them)",
        "label vectors are integers or floats with NaN (one missing-label code); strings / datetimes factorise the same way (pandas) and are not exercised",
        "dask's Array.rechunk and xarray's copy(data=...) keep values (validated by .compute() on every sampled case, not modelled)",
    ]

    volumes = {"quick": dict(B=350, C=450, R=120, nB=7, nC=4, nmax=14), "thorough": dict(B=4000, C=5000, R=1200, nB=9, nC=5, nmax=40)}

    # -- generation -----------------------------------------------------------------------------
    def gen_cases(self, rng, tier, search):
        v = dict(self.volumes[tier])
        if search:
            v = {k: (x * 3 if k in "BCR" else x) for k, x in v.items()}
        flav = ["array", "array", "dataarray", "dataset", "fake", "dataset-nodim"]
        cases = list(self.corpus())
        cases += [make_blockwise(rng, v["nmax"], flav) for _ in range(v["B"])]
        cases += [make_cohorts(rng, v["nmax"], flav) for _ in range(v["C"])]
        cases += [make_reduce(rng, v["nmax"]) for _ in range(v["R"])]
        return cases, v

    def corpus(self):
        # the vector used by flox's own tests and the docstring patterns
        out = []
        labels = [0, 0, 0, 1, 1, 1, 1, 2, 2, 2]  # noqa
        for ch in ([10], [1] * 10, [3, 3, 3, 1], [2, 8], [5, 5], [1, 2, 3, 4], [4, 3, 2, 1], [3, 4, 3], [9, 1], [1, 9], [2, 2, 2, 2, 2], [6, 4]):
            out.append(RCase(kind="blockwise", labels=labels, chunks=ch, alt=[3, 4, 3], stream="B:corpus"))
        lab2 = [1, 2, 3, 1, 2, 3, 4, 1, 2, 3]
        for cs in (None, 1, 2, 3, 4):
            for ign in (False, True):
                out.append(RCase(kind="cohorts", labels=lab2, chunks=[4, 4, 2], forced=[1], chunksize=cs, ignore=ign,
                                 alt=[3, 4, 3], stream="C:corpus"))
        return out

    def exhaustive_blockwise(self, nmax):
        for n in range(1, nmax + 1):
            comps = list(compositions(n))
            for runs in comps:
                labels = labels_from_runs(list(range(len(runs))), runs)
                for ch in comps:
                    yield labels, list(ch)

    def exhaustive_cohorts(self, nmax):
        subsets = [list(s) for k in (1, 2, 3) for s in itertools.combinations((0, 1, 2), k)]
        for n in range(1, nmax + 1):
            comps = list(compositions(n))
            for labels in itertools.product((0, 1, 2), repeat=n):
                for ch in comps:
                    for forced in subsets:
                        for cs in (None, 1, 2, 3, 4):
                            for ign in (False, True):
                                yield list(labels), list(ch), forced, cs, ign

    # -- run --------------------------------------------------------------------------------------
    def run(self, rng, tier, rep: Report, search=False):
        cases, v = self.gen_cases(rng, tier, search)
        self.run_cases(cases, rep)
        self.run_exhaustive(v, rep)
        self.run_memo(rng, cases, rep)
        rep.extra["exhaustive"] = True
        rep.extra["exhaustive_scope"] = (f"blockwise: all run-length patterns x chunkings, n<={v['nB']}; cohorts: all label vectors "
                                         f"over 3 symbols x chunkings x forced sets x chunksize x ignore, n<={v['nC']}")

    def replay(self, payload, rep: Report):
        d = dict(payload["case"])
        if d.get("kind") == "memo":
            c = RCase(kind="blockwise", labels=d["labels"], chunks=d["chunks"], flavour="fake", stream="M:replay")
            self.run_cases([c], rep)
            self.run_memo(random.Random(0), [c, c], rep)
            return
        self.run_cases([RCase(**d)], rep)

    def run_cases(self, cases, rep: Report):
        queries = []       # (line, expected-or-None, case, what, channel)
        for c in cases:
            rep.evaluations += 1
            n = sum(c.chunks)
            if n >= 2 and (len(c.chunks) >= 2 or len(set(c.labels)) >= 2):
                rep.keys.add(c.key())
            rep.dist["stream:" + c.stream] += 1
            rep.dist["kind:" + c.kind] += 1
            rep.dist["n:" + (str(n) if n < 10 else f"{n // 10 * 10}+")] += 1
            rep.dist["oldchunks:" + str(min(len(c.chunks), 9))] += 1
            cd = asdict(c)
            if c.kind == "reduce":
                self._reduce_case(c, cd, rep, queries)
                continue
            rep.dist["flavour:" + c.flavour] += 1
            im = run_rechunk(c)
            rep.dist["impl:" + ("ok" if im["kind"] == "ok" else im["err"].split(":")[0])] += 1
            if c.kind == "cohorts":
                rep.dist["chunksize:" + str(c.chunksize if c.chunksize is None or c.chunksize < 9 else "9+")] += 1
                rep.dist["ignore_old:" + str(c.ignore)] += 1
            labels = list(c.labels)
            passed = labels if c.nlabels is None else ((labels * 3)[: c.nlabels] if labels else [0] * c.nlabels)
            # ---- model lines (tie1)
            olds = [("main", c.chunks)] + ([("second", c.chunks2)] if c.chunks2 is not None and c.flavour.startswith("dataset") else [])
            if im["kind"] == "ok":
                for (name, old, new) in im["vars"]:
                    line = (line_blockwise(old, passed) if c.kind == "blockwise"
                            else line_cohorts(old, passed, c.forced, c.chunksize, c.ignore))
                    if 0 in old:
                        rep.dist["model:not-expressible(zero-length old chunk)"] += 1
                    else:
                        queries.append((line, "ok " + ntoks(new), cd, f"chunks of {name}", "tie1"))
                    if new != old:
                        rep.dist["changed:yes"] += 1
                    else:
                        rep.dist["changed:no"] += 1
            else:
                # an error: the model must predict the same refusal for (one of) the variables processed first
                name, old = olds[0]
                if c.kind == "cohorts" and im["err"] in ("labels-length", "no-forced-label") and 0 not in old:
                    queries.append((line_cohorts(old, passed, c.forced, c.chunksize, c.ignore), "err " + im["err"], cd,
                                    "refusal", "tie1"))
            # ---- the property on the real result (direct)
            if im["kind"] == "err":
                expected_refusal = c.kind == "cohorts" and (
                    (c.nlabels is not None and im["err"] == "labels-length")
                    or (c.nlabels is None and not (set(c.forced) & set(labels)) and im["err"] == "no-forced-label"))
                if not expected_refusal:
                    rep.direct.append((cd, f"helper raised instead of returning the rechunked object: {im['err']}"))
                continue
            for p in im["problems"]:
                rep.direct.append((cd, p))
            for (name, old, new) in im["vars"]:
                if not o_valid(n, new):
                    rep.direct.append((cd, f"{name}: new chunks {new} are not positive chunks summing to {n}"))
                    continue
                if c.kind == "blockwise":
                    seq = o_contiguous(labels)
                    rep.dist["sequential:" + str(seq)] += 1
                    if seq and not (o_nostraddle(labels, new) and o_oneblock(labels, new)):
                        rep.direct.append((cd, f"{name}: a group straddles a boundary of the new chunks {new} (old {old})"))
                else:
                    if not o_forced(labels, c.forced, new):
                        rep.direct.append((cd, f"{name}: a forced label (or position 0) does not start a chunk in {new}"))
                    if not c.ignore and not o_keepold(old, new):
                        rep.direct.append((cd, f"{name}: old boundary of {old} lost in {new}"))
                    if c.nlabels is not None or not (set(c.forced) & set(labels)):
                        rep.direct.append((cd, f"{name}: invalid request was not refused (returned {new})"))
                # ---- spec lines (tie2): the real result and a perturbed chunking
                forced = c.forced or []
                for cand in (new, c.alt):
                    if cand is None:
                        continue
                    queries.append((line_spec(labels, old, cand, forced), oracle_spec(labels, old, cand, forced), cd,
                                    f"spec on {cand}", "tie2"))
            rep.add_sample({"case": core.jsonable(cd), "impl": core.jsonable(im)})
        self._flush(queries, rep)

    def _reduce_case(self, c: RCase, cd, rep: Report, queries):
        im = run_reduce(c)
        rep.dist["func:" + c.func] += 1
        rep.dist["impl:" + ("ok" if im["kind"] == "ok" else "err")] += 1
        n = sum(c.chunks)
        for (old, by, new) in im.get("rec", []):
            rep.dist["reduce:internal-rechunk"] += 1
            queries.append((line_blockwise(old, by), "ok " + ntoks(new), cd, "internal rechunk_for_blockwise", "tie1"))
            queries.append((line_spec(by, old, new, []), oracle_spec(by, old, new, []), cd, "spec on internal rechunk", "tie2"))
            if c.alt is not None:
                queries.append((line_spec(by, old, c.alt, []), oracle_spec(by, old, c.alt, []), cd, "spec on perturbed", "tie2"))
            if not o_valid(n, new) or (o_contiguous(by) and not o_nostraddle(by, new)):
                rep.direct.append((cd, f"internal rechunk for method='blockwise' produced {new} from {old}: invalid or a group straddles"))
        if not im.get("rec"):
            rep.dist["reduce:no-internal-rechunk"] += 1
        if im["kind"] == "err":
            rep.direct.append((cd, "groupby_reduce(method='blockwise') raised: " + im["err"]))
            return
        same = (im["vals"].shape == im["eager"].shape and np.array_equal(im["vals"], im["eager"], equal_nan=True)
                and np.array_equal(im["groups"], im["eager_groups"], equal_nan=True))
        if not same:
            rep.direct.append((cd, f"method='blockwise' gives {im['groups'].tolist()} -> {im['vals'].tolist()} but eager gives "
                                   f"{im['eager_groups'].tolist()} -> {im['eager'].tolist()}"))
        gs, vals = numpy_group_oracle(c, im["data"])
        ok = (len(gs) == len(im["groups"]) and np.asarray(im["vals"]).shape == (len(gs),)
              and all(float(a) == float(b) for a, b in zip(gs, im["groups"]))
              and np.allclose(np.asarray(im["vals"], dtype="float64"), np.asarray(vals, dtype="float64"), rtol=1e-12, atol=0, equal_nan=True))
        if not ok:
            rep.direct.append((cd, f"method='blockwise' gives {im['groups'].tolist()} -> {im['vals'].tolist()} but NumPy per group gives {gs} -> {vals}"))
        rep.add_sample({"case": core.jsonable(cd), "blockwise": core.jsonable(im["vals"]), "eager": core.jsonable(im["eager"]),
                        "internal_rechunk": im["rec"]})

    def _flush(self, queries, rep: Report):
        outs = core.Driver().run([q[0] for q in queries])
        for (line, exp, cd, what, channel), out in zip(queries, outs):
            rep.dist["driver:" + channel] += 1
            if out.startswith("bad-op"):
                rep.dist["model:outside-domain"] += 1
                (rep.tie1 if channel == "tie1" else rep.tie2).append((cd, f"{what}: driver refused `{line}`: {out}"))
                continue
            if out != exp:
                (rep.tie1 if channel == "tie1" else rep.tie2).append(
                    (cd, f"{what}: {'flox' if channel == 'tie1' else 'oracle'} says `{exp}`, Lean says `{out}` for `{line}`"))

    # -- exhaustive enumerations (duck array: only the chunk arithmetic) ----------------------------
    def run_exhaustive(self, v, rep: Report):
        import flox.core as fc

        queries = []
        nb = 0
        for labels, ch in self.exhaustive_blockwise(v["nB"]):
            nb += 1
            n = len(labels)
            labs = np.array(labels, dtype="int64")
            cd = {"kind": "blockwise", "labels": labels, "chunks": ch, "flavour": "fake", "stream": "X:blockwise"}
            try:
                new = [int(x) for x in fc.rechunk_for_blockwise(FakeArray(ch), 0, labs).chunks[0]]
                direct = [int(x) for x in fc._get_optimal_chunks_for_groups(tuple(ch), labs)]
            except Exception as e:  # noqa
                rep.direct.append((cd, f"helper raised: {type(e).__name__}: {e}"))
                continue
            if new != direct:
                rep.direct.append((cd, f"rechunk_for_blockwise gives {new} but a second (memoised) call gives {direct}"))
            if not o_valid(n, new):
                rep.direct.append((cd, f"new chunks {new} are not positive chunks summing to {n}"))
            elif not (o_nostraddle(labels, new) and o_oneblock(labels, new)):
                rep.direct.append((cd, f"a group straddles a boundary of the new chunks {new} (old {ch})"))
            queries.append((line_optimal(ch, labels), "ok " + ntoks(new), cd, "chunks", "tie1"))
            if n >= 2 and (len(ch) >= 2 or len(set(labels)) >= 2):
                rep.keys.add(core.case_hash(cd))
            if nb % 7 == 0:
                queries.append((line_spec(labels, ch, new, []), oracle_spec(labels, ch, new, []), cd, "spec", "tie2"))
        rep.evaluations += nb
        rep.dist["stream:X:blockwise"] += nb
        nc = 0
        for labels, ch, forced, cs, ign in self.exhaustive_cohorts(v["nC"]):
            nc += 1
            n = len(labels)
            cd = {"kind": "cohorts", "labels": labels, "chunks": ch, "forced": forced, "chunksize": cs, "ignore": ign,
                  "flavour": "fake", "stream": "X:cohorts"}
            try:
                new = [int(x) for x in fc.rechunk_for_cohorts(FakeArray(ch), 0, np.array(labels, dtype="int64"), forced, cs, ign).chunks[0]]
                exp = "ok " + ntoks(new)
            except Exception as e:  # noqa
                new, exp = None, "err " + _err(e)
            present = bool(set(forced) & set(labels))
            if new is None:
                if present or exp != "err no-forced-label":
                    rep.direct.append((cd, f"helper raised instead of returning: {exp}"))
            else:
                if not present:
                    rep.direct.append((cd, f"no forced label present but {new} returned"))
                if not o_valid(n, new):
                    rep.direct.append((cd, f"new chunks {new} are not positive chunks summing to {n}"))
                elif not o_forced(labels, forced, new):
                    rep.direct.append((cd, f"a forced label (or position 0) does not start a chunk in {new}"))
                elif not ign and not o_keepold(ch, new):
                    rep.direct.append((cd, f"old boundary of {ch} lost in {new}"))
            queries.append((line_cohorts(ch, labels, forced, cs, ign), exp, cd, "chunks", "tie1"))
            if n >= 2 and (len(ch) >= 2 or len(set(labels)) >= 2):
                rep.keys.add(core.case_hash(cd))
            if new is not None and nc % 23 == 0:
                queries.append((line_spec(labels, ch, new, forced), oracle_spec(labels, ch, new, forced), cd, "spec", "tie2"))
        rep.evaluations += nc
        rep.dist["stream:X:cohorts"] += nc
        self._flush(queries, rep)

    # -- memoisation --------------------------------------------------------------------------------
    def run_memo(self, rng, cases, rep: Report):
        import flox.cache
        import flox.core as fc

        memo = fc._get_optimal_chunks_for_groups
        raw = None
        for cell in (memo.__closure__ or ()):
            if callable(cell.cell_contents) and getattr(cell.cell_contents, "__name__", "") == "_get_optimal_chunks_for_groups":
                raw = cell.cell_contents
        rep.dist["memo:undecorated-function-found"] += int(raw is not None)
        pairs = []
        for c in cases:
            if c.kind == "blockwise" and c.nlabels is None and 0 not in c.chunks:
                u = sorted({l for l in c.labels if l is not None})
                codes = [len(u) if l is None else u.index(l) for l in c.labels]
                pairs.append((tuple(int(x) for x in c.chunks), codes))
                if c.chunks2:
                    pairs.append((tuple(int(x) for x in c.chunks2), codes))
        pairs = pairs[:1500]
        if not pairs:
            return

        def call(f, p):
            return [int(x) for x in f(p[0], np.array(p[1], dtype="int64"))]

        try:
            ref = [call(raw or memo, p) for p in pairs]
        except Exception as e:  # noqa
            rep.direct.append(({"kind": "memo", "stream": "M"}, f"_get_optimal_chunks_for_groups raised {type(e).__name__}: {e}"))
            return
        order = list(range(len(pairs)))
        passes = []
        if hasattr(flox.cache.cache, "clear"):
            flox.cache.cache.clear()
        passes.append(("cold cache, generation order", list(order)))
        o2 = list(order)
        rng.shuffle(o2)
        passes.append(("warm cache, shuffled order", o2))
        passes.append(("warm cache, reversed order", list(reversed(order))))
        queries = []
        for name, od in passes:
            if name.startswith("cold") is False and name.endswith("reversed order") and hasattr(flox.cache.cache, "clear") and rng.random() < 0.5:
                flox.cache.cache.clear()
            for i in od:
                try:
                    got = call(memo, pairs[i])
                except Exception as e:  # noqa
                    got = f"{type(e).__name__}: {e}"
                rep.evaluations += 1
                rep.dist["stream:M:memo"] += 1
                if got != ref[i]:
                    cd = {"kind": "memo", "chunks": list(pairs[i][0]), "labels": pairs[i][1], "stream": "M:" + name}
                    rep.direct.append((cd, f"memoised result {got} differs from the undecorated function's {ref[i]} ({name})"))
        for p, r in zip(pairs, ref):
            cd = {"kind": "memo", "chunks": list(p[0]), "labels": p[1], "stream": "M"}
            queries.append((line_optimal(p[0], p[1]), "ok " + ntoks(r), cd, "optimal chunks (codes)", "tie1"))
        self._flush(queries, rep)

    # -- known findings ----------------------------------------------------------------------------
    def match_finding(self, finding, case, detail) -> bool:
        from . import findings

        pred = findings.PREDICATES.get(finding["id"])
        return bool(pred and pred(case, detail))

    def check_finding_still_fails(self, finding):
        w = finding.get("witness")
        if not w or w.get("op") != "rechunk":
            return None
        c = RCase(**w["case"])
        im = run_rechunk(c)
        if im["kind"] != "err":
            return False
        det = f"helper raised instead of returning the rechunked object: {im['err']}"
        return self.match_finding(finding, asdict(c), det)
