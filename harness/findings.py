"""Signatures of the known findings listed in KNOWN_FINDINGS.json.

A finding is identified by (property, configuration cell, symptom).  A predicate receives the failing case
(dict) and the failure description and says whether the failure falls into that finding's cell; any other
failure of the same property is still reported as a violation.
"""
import math


def _isnan(x):
    return isinstance(x, float) and math.isnan(x)


def f9_mincount0_absent(case, detail):
    # explicit min_count=0 together with a requested label that never occurs: the user's fill is not applied
    if case.get("min_count") != 0 or case.get("expected") is None:
        return False
    present = {l for l in case["labels"] if l is not None}
    absent = [e for e in case["expected"] if e not in present]
    return bool(absent) and detail.startswith("label ") and any(detail.startswith(f"label {a}:") for a in absent)


PREDICATES = {
    "F9": f9_mincount0_absent,
}


# ---- C10 (grouped scans) -------------------------------------------------------------------------


def _c10_inf(case):
    return any(isinstance(v, float) and math.isinf(v) for v in case["vals"])


def c10_f2_inf_kernel(case, detail):
    # nancumsum with +-inf in the data: numpy_groupies' cumsum-minus-group-start trick yields NaN and poisons later groups
    return case["func"] == "nancumsum" and _c10_inf(case) and detail.startswith("value at position")


def c10_f3_inf_state(case, detail):
    # nancumsum with +-inf on chunked input: the carried state drops NaN (nanlast), result depends on the chunking
    return case["func"] == "nancumsum" and _c10_inf(case) and case.get("chunks") is not None and detail.startswith("chunked != eager")


def c10_f5_nat_not_filled(case, detail):
    # ffill / bfill on datetime64 / timedelta64 data: returned unchanged ("no NaNs"), NaT is not filled
    return (case["func"] in ("ffill", "bfill") and case["dtype"] in ("datetime64[ns]", "timedelta64[ns]")
            and any(_isnan(v) for v in case["vals"]) and detail.startswith("value at position") and ": nan but" in detail)


PREDICATES.update({
    "C10-F2": c10_f2_inf_kernel,
    "C10-F3": c10_f3_inf_state,
    "C10-F5": c10_f5_nat_not_filled,
})


# ---- C08 (partial-axis reductions) ---------------------------------------------------------------


def _c08_axes(case):
    if "by_ndim" not in case or "shape" not in case:
        return None
    nd = len(case["shape"])
    ax = case.get("axis")
    if ax is None:
        return tuple(range(nd - case["by_ndim"], nd))
    ax = [ax] if isinstance(ax, int) else list(ax)
    if any(not (-nd <= a < nd) for a in ax):
        return None
    out = tuple(a % nd for a in ax)
    return out if len(set(out)) == len(out) else None


def c08_f3_first_last_int_offset(case, detail):
    ax = _c08_axes(case)
    if ax is None or case.get("chunks") is None:
        return False
    if case.get("func") not in ("nanfirst", "nanlast") or str(case.get("dtype", "")).startswith("float"):
        return False
    if not (len(ax) < case["by_ndim"]):
        return False
    return any(len(case["chunks"][a]) > 1 for a in ax) and detail.startswith("slot ")


PREDICATES.update({"C08-F3": c08_f3_first_last_int_offset})
# ---- C12 (laziness; labels found at compute time) -------------------------------------------------


def _c12_no_requested_label(case):
    present = {l for l in case["labels"] if l is not None}
    if case.get("expected") is None:
        return not present
    return not (present & set(case["expected"]))


def c12_f1_eager_when_no_label(case, detail):
    # chunked values, in-memory labels, none of the requested labels occurs (or every label is missing): the final
    # reindex_ shortcut (`array.shape[axis] == 0 -> np.full`) turns the lazy result into an in-memory array
    return (case.get("kind") == "lazy" and case["api"] in ("reduce", "xarray") and not case["by_dask"]
            and _c12_no_requested_label(case) and detail.startswith("returned eager"))


def c12_f2_spurious_nan_label(case, detail):
    # dask labels without expected_groups, every label missing: one spurious NaN label (eager: no label at all)
    return (case.get("kind") in ("unknown", "unknown-2d") and all(l is None for l in case["labels"])
            and detail.startswith("labels differ") and "[nan]" in detail.replace("NaN", "nan"))


def c12_f3_blockwise_dask_labels(case, detail):
    # method='blockwise' with chunked labels: rechunk_for_blockwise / the per-block group count hand the lazy labels to
    # pd.factorize / pd.unique (TypeError; nothing is computed only because pandas refuses a dask array)
    return (case.get("kind") == "lazy" and case["by_dask"] and case.get("method") == "blockwise"
            and detail.startswith("tried to inspect the values of a lazy array"))


PREDICATES.update({
    "C12-F1": c12_f1_eager_when_no_label,
    "C12-F2": c12_f2_spurious_nan_label,
    "C12-F3": c12_f3_blockwise_dask_labels,
})
