"""Signatures of the known findings listed in KNOWN_FINDINGS.json.

A finding is identified by (property, configuration cell, symptom).  A predicate receives the failing case
(dict) and the failure description and says whether the failure falls into that finding's cell; any other
failure of the same property is still reported as a violation.
"""
import math


def _isnan(x):
    return isinstance(x, float) and math.isnan(x)


def f9_mincount0_absent(case, detail):
    # explicit min_count=0 together with a requested label that never occurs: the user's fill is not applied
    if case.get("min_count") != 0 or case.get("expected") is None:
        return False
    present = {l for l in case["labels"] if l is not None}
    absent = [e for e in case["expected"] if e not in present]
    return bool(absent) and detail.startswith("label ") and any(detail.startswith(f"label {a}:") for a in absent)


PREDICATES = {
    "F9": f9_mincount0_absent,
}


# ---- C10 (grouped scans) -------------------------------------------------------------------------


def _c10_inf(case):
    return any(isinstance(v, float) and math.isinf(v) for v in case["vals"])


def c10_f2_inf_kernel(case, detail):
    # nancumsum with +-inf in the data: numpy_groupies' cumsum-minus-group-start trick yields NaN and poisons later groups
    return case["func"] == "nancumsum" and _c10_inf(case) and detail.startswith("value at position")


def c10_f3_inf_state(case, detail):
    # nancumsum with +-inf on chunked input: the carried state drops NaN (nanlast), result depends on the chunking
    return case["func"] == "nancumsum" and _c10_inf(case) and case.get("chunks") is not None and detail.startswith("chunked != eager")


def c10_f5_nat_not_filled(case, detail):
    # ffill / bfill on datetime64 / timedelta64 data: returned unchanged ("no NaNs"), NaT is not filled
    return (case["func"] in ("ffill", "bfill") and case["dtype"] in ("datetime64[ns]", "timedelta64[ns]")
            and any(_isnan(v) for v in case["vals"]) and detail.startswith("value at position") and ": nan but" in detail)


PREDICATES.update({
    "C10-F2": c10_f2_inf_kernel,
    "C10-F3": c10_f3_inf_state,
    "C10-F5": c10_f5_nat_not_filled,
})


# ---- C08 (partial-axis reductions) ---------------------------------------------------------------


def _c08_axes(case):
    if "by_ndim" not in case or "shape" not in case:
        return None
    nd = len(case["shape"])
    ax = case.get("axis")
    if ax is None:
        return tuple(range(nd - case["by_ndim"], nd))
    ax = [ax] if isinstance(ax, int) else list(ax)
    if any(not (-nd <= a < nd) for a in ax):
        return None
    out = tuple(a % nd for a in ax)
    return out if len(set(out)) == len(out) else None


def c08_f3_first_last_int_offset(case, detail):
    ax = _c08_axes(case)
    if ax is None or case.get("chunks") is None:
        return False
    if case.get("func") not in ("nanfirst", "nanlast") or str(case.get("dtype", "")).startswith("float"):
        return False
    if not (len(ax) < case["by_ndim"]):
        return False
    return any(len(case["chunks"][a]) > 1 for a in ax) and detail.startswith("slot ")


PREDICATES.update({"C08-F3": c08_f3_first_last_int_offset})
# ---- C12 (laziness; labels found at compute time) -------------------------------------------------


def _c12_no_requested_label(case):
    present = {l for l in case["labels"] if l is not None}
    if case.get("expected") is None:
        return not present
    return not (present & set(case["expected"]))


def c12_f1_eager_when_no_label(case, detail):
    # chunked values, in-memory labels, none of the requested labels occurs (or every label is missing): the final
    # reindex_ shortcut (`array.shape[axis] == 0 -> np.full`) turns the lazy result into an in-memory array
    return (case.get("kind") == "lazy" and case["api"] in ("reduce", "xarray") and not case["by_dask"]
            and _c12_no_requested_label(case) and detail.startswith("returned eager"))


PREDICATES.update({
    "C12-F1": c12_f1_eager_when_no_label,
})
# ---- C03 ---------------------------------------------------------------------------------------------------------------


def c03_f1_argmax_nan_group(case, detail):
    # NaN-propagating argmax / argmin of a group that contains NaN (outside C01's value domain: flox returns the fill /
    # an arbitrary position there): on chunked input the position additionally depends on the tree shape
    import ast
    import math

    if case.get("func") not in ("argmax", "argmin") or not detail.startswith("value depends on split_every/scheduler at labels "):
        return False
    try:
        labs = ast.literal_eval(detail[len("value depends on split_every/scheduler at labels "):].split("]: ", 1)[0] + "]")
    except Exception:  # noqa
        return False
    def has_nan(g):
        return any(isinstance(v, float) and math.isnan(v) or v == "nan"
                   for v, l in zip(case["vals"], case["labels"]) if l is not None and float(l) == float(g))
    return bool(labs) and all(has_nan(g) for g in labs)


PREDICATES["C03-F1"] = c03_f1_argmax_nan_group
# ---- C18 ---------------------------------------------------------------------------------------------------------------


def c18_f1_blockwise_rechunk_splits_run(case, detail):
    # explicit method='blockwise' on 1-D labels whose chunking already keeps every group inside one block, with a MISSING label
    # inside the run of a group: groupby_reduce rechunks anyway (the planner is not consulted for an explicit method),
    # rechunk_for_blockwise treats the missing code -1 as a label of its own and cuts the run in two, and the duplicate-group
    # guard then refuses the call
    labs = case.get("labels") or []
    if case.get("method") != "blockwise" or case.get("chunks") is None:
        return False
    if not (detail.startswith("every group lies within one block (method=blockwise) but the call raised ValueError")
            and "requires that all members of a group lie within a single block" in detail):
        return False
    for i, l in enumerate(labs):
        if l is None and any(a is not None and a in labs[i + 1:] for a in labs[:i]):
            return True
    return False


PREDICATES["C18-F1"] = c18_f1_blockwise_rechunk_splits_run
# ---- C15 (xarray_reduce vs native xarray groupby) ------------------------------------------------------
# the harness attaches its classification of the call to the case: case["_cls"] = {gd, t, shortcut, needs_broadcast,
# per: {var: {passthrough, lacks_some}}, unique_dim, anybin, nan_labels}


def _c15_var(detail):
    import re

    m = re.match(r"^(data|passthrough|groupby_reduce)\[(.*?)\]", detail)
    return m.group(2) if m else None


def c15_f1_group_dim_position(case, detail):
    # _restore_dim_order recognises the group dim only if it is named like the grouper (not `<name>_bins`) and the grouper is
    # 1-D: binned group dims (DataArray with a 1-D grouper, any Dataset) and N-D groupers of Datasets end up last
    cls = case.get("_cls", {})
    if "dims order" not in detail or len(case["by"]) != 1 or cls.get("shortcut"):
        return False
    b = case["by"][0]
    return (b["bins"] is not None and (case["kind"] == "ds" or len(b["dims"]) == 1)) or (case["kind"] == "ds" and len(b["dims"]) >= 2)


def c15_f3_dataset_broadcast(case, detail):
    # Dataset variables lacking a grouper dim or a reduced dim are broadcast against ALL of them before reducing:
    # replication-sensitive reductions (sum, prod, count, var, std) are inflated; in the shortcut even pass-through variables
    cls = case.get("_cls", {})
    var = _c15_var(detail)
    if case["kind"] != "ds" or not cls.get("needs_broadcast") or var is None:
        return False
    p = cls.get("per", {}).get(var, {})
    return bool(p.get("lacks_some")) and case["func"] in ("sum", "prod", "count", "var", "std") and \
        ("values differ" in detail or detail.startswith("passthrough[") or "dtype" in detail)


def c15_f5_shortcut_keeps_unlabelled(case, detail):
    # the shortcut never looks at the labels: positions whose label is NaN are kept (native drops them), and the
    # expected_groups of a dimension-coordinate grouper are not applied (no reindexing of that dimension)
    cls = case.get("_cls", {})
    exp_dim = any(b["src"] == "dimcoord" and b["expected"] is not None for b in case["by"])
    return bool(cls.get("shortcut") and (cls.get("nan_labels") or exp_dim)) and \
        (detail.startswith("data[") or detail.startswith("coords") or detail.startswith("indexes") or detail.startswith("passthrough["))


def c15_f6_missing_core_dims(case, detail):
    # Dataset variable having some but not all of the explicitly reduced dims (and no broadcasting needed): apply_ufunc raises
    cls = case.get("_cls", {})
    return case["kind"] == "ds" and not cls.get("needs_broadcast") and detail.startswith("flox-raised ValueError: Missing core dims")


def c15_f7_order_several_groupers(case, detail):
    # several groupers: `_restore_dim_order` is skipped (nby == 1 guard); after the Dataset broadcast (which transposes every
    # variable to the Dataset's dim order) the kept dims of a variable come out in Dataset order, not in the variable's own
    cls = case.get("_cls", {})
    return case["kind"] == "ds" and bool(cls.get("needs_broadcast")) and "dims order" in detail \
        and (len(case["by"]) > 1 or bool(cls.get("shortcut")))


PREDICATES.update({
    "C15-F7": c15_f7_order_several_groupers,
    "C15-F1": c15_f1_group_dim_position,
    "C15-F3": c15_f3_dataset_broadcast,
    "C15-F5": c15_f5_shortcut_keeps_unlabelled,
    "C15-F6": c15_f6_missing_core_dims,
})
# ---- C19 (cases are configuration cells of harness/c19_cells.py, see props_c19.C19.case_of) -------------------------

_ARG = ("argmax", "argmin", "nanargmax", "nanargmin")


def _nax(case):
    if case.get("axis") in ("none", "all"):
        return case.get("lnd")
    return 1


def c19_f5_nanfirstlast_int_partial_axes(case, detail):
    # nanfirst / nanlast (first / last) on non-float data, a subset of the label axes reduced over several blocks:
    # the integer intermediate fill (dtype minimum) overwrites real values in the combine
    return (case.get("func") in ("nanfirst", "nanlast", "first", "last") and case.get("dtype") != "f8"
            and case.get("lnd", 1) >= 2 and _nax(case) < case.get("lnd", 1) and case.get("layout") not in ("eager", "single")
            and case.get("_outcome") == "ok"
            and (detail.startswith("wrong-answer") or detail.startswith("auto-differs") or "neither-matches" in detail))


PREDICATES.update({
    "C19-F5": c19_f5_nanfirstlast_int_partial_axes,
})
