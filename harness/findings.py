"""Signatures of the known findings listed in KNOWN_FINDINGS.json.

A finding is identified by (property, configuration cell, symptom).  A predicate receives the failing case
(dict) and the failure description and says whether the failure falls into that finding's cell; any other
failure of the same property is still reported as a violation.
"""
import math


def _isnan(x):
    return isinstance(x, float) and math.isnan(x)


def f9_mincount0_absent(case, detail):
    # explicit min_count=0 together with a requested label that never occurs: the user's fill is not applied
    if case.get("min_count") != 0 or case.get("expected") is None:
        return False
    present = {l for l in case["labels"] if l is not None}
    absent = [e for e in case["expected"] if e not in present]
    return bool(absent) and detail.startswith("label ") and any(detail.startswith(f"label {a}:") for a in absent)


PREDICATES = {
    "F9": f9_mincount0_absent,
}
