"""C09 – cohort planner sound: labels partitioned, blocks covered, members counted once.

Streams
  plan   : real `find_group_cohorts` vs Lean model (`cohorts` op) vs independent soundness oracle vs Lean spec (`cohortspec`)
           - corpus + seeded samples (random / planted incidence patterns), unpatched flox
           - exhaustive enumeration of small label arrays x all chunk layouts (multi-process)
  graph  : real lazy `groupby_reduce(..., func="sum")` results: the planner call made inside (args and return value
           recorded from outside) vs the model; the cohorts handed to `dask_groupby_agg`; the resolved method; dependency
           closure of every output chunk of the raw and of the final result; provenance sums (element i carries 2**i).
"""
from __future__ import annotations

import itertools
import multiprocessing
import os
import random

import numpy as np

from . import core
from . import cohorts_ops as co
from .framework import Prop, Report

NPROC = max(1, min(16, os.cpu_count() or 1))


# ------------------------------------------------------------------------------------------------
# plan stream: evaluation of one case (runs in the main process or in a pool worker)


def eval_plan(case, cand_sel: int = 0):
    """-> dict(impl=<canonical string>, direct=<None|str>, cand=<cohort string>, osound=<bool>, oconf=<bool>)"""
    im = co.run_plan_impl(case)
    nl, inc = co.incidence(case)
    nchunks = int(np.prod([len(c) for c in case["chunks"]]))
    direct = None
    if im[0] == "err":
        impl_s = f"err {im[1]}"
        direct = f"planner raised {im[1]}: {im[2]}"
        cohorts = []
    else:
        _, method, cohorts = im
        impl_s = f"ok {method} {co.fmt_cohorts(cohorts)}"
        must_be_sound = bool(cohorts) or method != "map-reduce" or bool(case["merge"])
        d = co.oracle_sound(inc, cohorts)
        if must_be_sound and d:
            direct = f"unsound cohorts ({method}): {d}"
        elif method == "blockwise" and not co.oracle_confined(inc):
            direct = "blockwise proposed although a label spans several blocks"
        elif nchunks >= 2 and co.oracle_exact(inc, cohorts):
            direct = "cohort blocks are not the union of its labels' blocks: " + co.oracle_exact(inc, cohorts)
        elif any(any(a >= b for a, b in zip(ls, ls[1:])) for _, ls in cohorts):
            # dask_groupby_agg relies on it (theorem cohort_labels_ascending): otherwise values and groups are misaligned
            direct = "a cohort does not list its labels in ascending order: " + co.fmt_cohorts(cohorts)
        elif method not in ("blockwise", "cohorts", "map-reduce"):
            direct = f"unknown method {method!r}"
    # candidate structure for the spec-vs-oracle tie: the implementation's own answer, or a corrupted copy of it
    cand = cohorts if cand_sel == 0 else co.mutate(cand_sel, cohorts)
    # (distribution only) did two merged cohorts have the same union of blocks?  then the repaired code joins them
    coll = bool(case.get("gen", "").startswith(("planted", "corpus"))) and co.merge_key_collision(case)
    return {"impl": impl_s, "direct": direct, "cand": co.fmt_cohorts(cand), "osound": co.oracle_sound(inc, cand) is None,
            "oconf": co.oracle_confined(inc), "collision": coll}


def _worker_plan(args):
    case, sel = args
    return eval_plan(case, sel)


_INLINE = False


def _worker_init_inline():
    """exhaustive stream only: `ThreadPoolExecutor()` inside `_compute_label_chunk_bitmask` costs ~4 ms per call; the workers
    of the exhaustive enumeration substitute an executor that runs the submitted function at once (same submit()/result()
    interface, same results); every 16th case and every other stream run the unmodified code (see `rule`)."""
    import flox.core as fc

    class _Fut:
        def __init__(self, v):
            self._v = v

        def result(self):
            return self._v

    class _Inline:
        def __enter__(self):
            return self

        def __exit__(self, *a):
            return False

        def submit(self, fn, *a, **k):
            return _Fut(fn(*a, **k))

    fc.ThreadPoolExecutor = _Inline
    global _INLINE
    _INLINE = True


def compare_plan(cases, evals) -> dict:
    """impl vs model (tie1), oracle vs spec (tie2), direct failures, distribution; returns a partial report (plain data)"""
    import collections

    part = {"n": 0, "keys": [], "dist": collections.Counter(), "tie1": [], "tie2": [], "direct": [], "samples": []}
    dist = part["dist"]
    lines = []
    for c, e in zip(cases, evals):
        lines.append(co.model_line(c))
        lines.append(co.spec_line(c, co.parse_cohorts(e["cand"])))
    outs = core.Driver().run(lines)
    for i, (c, e) in enumerate(zip(cases, evals)):
        mo, so = outs[2 * i], outs[2 * i + 1]
        part["n"] += 1
        nchunks = int(np.prod([len(x) for x in c["chunks"]]))
        if nchunks >= 2 and any(l >= 0 for l in c["labels"]):
            part["keys"].append(core.case_hash({k: c[k] for k in ("labels", "chunks", "nlabels", "merge")}))
        br = "?"
        if mo.startswith("ok "):
            mo, _, br = mo.rpartition(" br=")
        elif mo.startswith("ierr"):
            br = "8-merge-loop:assert"
        g = c.get("gen", "?").split(":")
        dist["branch:" + br] += 1
        dist["gen:" + g[0] + ":" + (g + [""])[1]] += 1
        dist["impl:" + " ".join(e["impl"].split()[:2])] += 1
        dist[f"ndim:{len(c['chunks'])}"] += 1
        dist["nblocks:" + (str(nchunks) if nchunks < 8 else "8-15" if nchunks < 16 else "16+")] += 1
        dist[f"merge:{int(bool(c['merge']))}/expected:{'none' if c['nlabels'] is None else 'range'}"] += 1
        if _INLINE:
            dist["executor:inline"] += 1
        else:
            dist["executor:unmodified"] += 1
        # tie 1
        if mo.startswith("bad-op"):
            part["tie1"].append((c, f"model rejects the input: {mo}"))
        elif mo.startswith("ierr"):
            # cannot happen (theorem planner_always_answers); an AssertionError of the real planner is a direct failure anyway
            part["tie1"].append((c, f"model: {mo} ; impl: {e['impl']}"))
        elif mo != e["impl"]:
            part["tie1"].append((c, f"model: {mo} ; impl: {e['impl']}"))
        # tie 2
        want = f"sound={int(e['osound'])} confined={int(e['oconf'])}"
        dist["spec:" + so] += 1
        if so != want:
            part["tie2"].append((dict(c, cand=e["cand"]), f"spec: {so} ; oracle: {want} on candidate {e['cand']}"))
        if e.get("collision") and br.startswith("8"):
            dist["merge-loop:key-collision-joined"] += 1
        if e["direct"]:
            part["direct"].append((c, e["direct"]))
        if len(part["samples"]) < 2 and g[0] in ("planted", "random") and br.startswith("8"):
            part["samples"].append({"case": c, "impl": e["impl"], "model": outs[2 * i], "spec": so})
    return part


def merge_partial(rep: Report, part: dict):
    rep.evaluations += part["n"]
    rep.keys.update(part["keys"])
    rep.dist.update(part["dist"])
    rep.tie1 += part["tie1"][:50]
    rep.tie2 += part["tie2"][:50]
    rep.direct += part["direct"]
    for smp in part["samples"]:
        rep.add_sample(smp)


def _worker_batch(args):
    cases, seed = args
    sels = [0 if (i + seed) % 3 else 1 + ((i * 2654435761 + seed) % 999983) for i in range(len(cases))]
    evals = [eval_plan(c, s) for c, s in zip(cases, sels)]
    return compare_plan(cases, evals)


def enum_cases(n_list, grids, settings):
    """exhaustive: all label vectors over {-1,0,1,2} of the given lengths x all chunkings (1-D), all label arrays on the given
    2-D shapes x all chunk grids; `settings(i)` -> list of (nlabels, merge) to run for the i-th (labels, chunks) pair"""
    i = 0
    for n in n_list:
        chunkings = list(co.all_chunkings(n))
        for labels in itertools.product((-1, 0, 1, 2), repeat=n):
            for ch in chunkings:
                for nl, mg in settings(i):
                    yield {"kind": "plan", "labels": list(labels), "chunks": [ch], "nlabels": nl, "merge": mg, "gen": f"enum1d:{n}"}
                i += 1
    for (a, b) in grids:
        cha, chb = list(co.all_chunkings(a)), list(co.all_chunkings(b))
        for labels in itertools.product((-1, 0, 1, 2), repeat=a * b):
            for c0 in cha:
                for c1 in chb:
                    for nl, mg in settings(i):
                        yield {"kind": "plan", "labels": list(labels), "chunks": [c0, c1], "nlabels": nl, "merge": mg,
                               "gen": f"enum2d:{a}x{b}"}
                    i += 1


# ------------------------------------------------------------------------------------------------
# graph / provenance stream

_rec: dict = {}
_patched = False


def _patch():
    """observe from outside: the planner call made by groupby_reduce and what is handed to / returned by dask_groupby_agg"""
    global _patched
    if _patched:
        return
    import flox.core as fc

    orig_find = fc.find_group_cohorts
    orig_agg = fc.dask_groupby_agg

    def find_wrapper(labels, chunks, expected_groups=None, merge=False):
        r = orig_find(labels, chunks, expected_groups=expected_groups, merge=merge)
        _rec["find"] = {
            "labels": np.asarray(labels).copy(), "chunks": [list(map(int, c)) for c in chunks],
            "nlabels": None if expected_groups is None else (int(expected_groups[-1]) + 1 if len(expected_groups) else 0),
            "eg_type": type(expected_groups).__name__, "merge": bool(merge),
            "ret": (str(r[0]), [(sorted(int(b) for b in k), [int(x) for x in v]) for k, v in r[1].items()]),
        }
        return r

    def agg_wrapper(*a, **k):
        cc = k.get("chunks_cohorts")
        _rec["agg_method"] = k.get("method")
        _rec["agg_cohorts"] = None if cc is None else [(sorted(int(b) for b in kk), [int(x) for x in v]) for kk, v in cc.items()]
        r = orig_agg(*a, **k)
        _rec["raw"] = r
        _rec["raw_array"] = k.get("array", a[0] if a else None)
        return r

    fc.find_group_cohorts = find_wrapper
    fc.dask_groupby_agg = agg_wrapper
    _patched = True


def array_closure(collection, array_name):
    """per output key: the set of keys of the value array (`array_name`) it (transitively) depends on"""
    from .graphexec import flat_keys, materialize

    graph = materialize(collection)
    deps = {k: set(getattr(t, "dependencies", ())) for k, t in graph.items()}
    memo: dict = {}

    def reach(k):
        if k in memo:
            return memo[k]
        memo[k] = s = set()
        if isinstance(k, tuple) and k and k[0] == array_name:
            s.add(k)
        for d in deps.get(k, ()):
            s |= reach(d)
        return s

    return {k: reach(k) for k in flat_keys(collection.__dask_keys__())}


def gen_graph_case(rng: random.Random, big=False):
    """labels (1-D or 2-D, float with NaN = missing), optional batch dimension, chunks for every array axis, method"""
    method = rng.choice([None, None, "map-reduce", "cohorts", "cohorts", "blockwise"])
    two_d = rng.random() < 0.3
    batch = rng.choice([0, 0, 2, 3]) if not two_d else rng.choice([0, 0, 2])
    budget = 50 // max(batch, 1)
    if two_d:
        a = rng.randint(1, 4)
        b = rng.randint(1, max(1, min(6, budget // a)))
        lshape = [a, b]
    else:
        lshape = [rng.randint(1, min(budget, 24 if not big else budget))]
    n = int(np.prod(lshape))
    nl = rng.randint(1, 5)
    pat = rng.choice(["random", "sorted", "periodic", "runs"])
    if method == "blockwise":
        pat = "sorted"
    if pat == "random":
        labels = [rng.randrange(nl) for _ in range(n)]
    elif pat == "sorted":
        labels = sorted(rng.randrange(nl) for _ in range(n))
    elif pat == "periodic":
        p = rng.randint(1, nl)
        labels = [i % p for i in range(n)]
    else:
        labels, cur = [], 0
        while len(labels) < n:
            labels += [cur % nl] * rng.randint(1, 4)
            cur += 1
        labels = labels[:n]
    miss = rng.choice([0, 0, 0.2])
    labels = [None if rng.random() < miss else l for l in labels]
    lchunks = [co.random_chunking(rng, s) for s in lshape]
    if two_d and method in (None, "cohorts") and rng.random() < 0.5:
        lchunks = [co.random_chunking(rng, s, rng.choice(["ones", "equal"])) for s in lshape]
    if method == "blockwise":
        # documented precondition of blockwise: every group inside one block.  1-D: flox rechunks sorted labels itself;
        # 2-D: one label per row-run, chunk boundaries of axis 0 at label changes, axis 1 in one chunk
        if two_d:
            a, b = lshape
            rowlab = sorted(rng.randrange(nl) for _ in range(a))
            labels = [rowlab[i] for i in range(a) for _ in range(b)]
            runs = [len(list(g)) for _, g in itertools.groupby(rowlab)]
            merged, i = [], 0
            while i < len(runs):
                k = rng.randint(1, 2)
                merged.append(sum(runs[i:i + k]))
                i += k
            lchunks = [merged, [b]]
        else:
            labels = sorted([l for l in labels if l is not None]) + [None] * sum(l is None for l in labels)
    exp_mode = rng.choice(["none", "none", "exact", "superset", "subset"])
    present = sorted({l for l in labels if l is not None})
    if exp_mode == "none" or not present:
        expected = None if present else [0, 1]
    elif exp_mode == "exact":
        expected = present
    elif exp_mode == "superset":
        expected = sorted(set(present) | {max(present) + 1, max(present) + 3})
    else:
        expected = sorted(rng.sample(present, max(1, len(present) - 1)))
    if method == "blockwise" and expected is not None and exp_mode == "subset":
        expected = present
    chunks = ([co.random_chunking(rng, batch)] if batch else []) + lchunks
    # fan-in of the reduction trees (dask config `split_every`; None = dask's default 4): the per-cohort tree of
    # flox.dask_array_ops._tree_reduce must cover every block of the cohort for every fan-in, not only powers of two
    split_every = rng.choice([None, None, 2, 3, 3, 5, 6, 7])
    return {"kind": "graph", "labels": labels, "lshape": lshape, "batch": batch, "chunks": chunks, "method": method,
            "expected": expected, "split_every": split_every,
            "gen": f"graph:{pat}:{'2d' if two_d else '1d'}:b{batch}"}


def _se(case):
    se = case.get("split_every")
    return {"split_every": se} if se else {}


def run_graph_case(case):
    """-> dict(model_line=…, impl_plan=…, direct=…, info for dist)"""
    import dask
    import dask.array as da
    import pandas as pd
    import flox

    _patch()
    _rec.clear()
    lshape = tuple(case["lshape"])
    B = case["batch"]
    by = np.array([np.nan if l is None else float(l) for l in case["labels"]], dtype="float64").reshape(lshape)
    n = by.size
    shape = ((B,) if B else ()) + lshape
    total = int(np.prod(shape))
    vals = (2.0 ** np.arange(total)).reshape(shape)          # exact in float64 for total <= 50 (sums < 2**53)
    arr = da.from_array(vals, chunks=tuple(tuple(c) for c in case["chunks"]))
    exp = None if case["expected"] is None else pd.Index([float(x) for x in case["expected"]])
    kw = dict(func="sum", method=case["method"], fill_value=0, axis=tuple(range(-len(lshape), 0)), engine="numpy")
    if exp is not None:
        kw["expected_groups"] = exp
    out = {"direct": None, "find": None, "notes": []}
    try:
        with dask.config.set(scheduler="sync", **_se(case)):
            result, groups = flox.groupby_reduce(arr, by, **kw)
    except Exception as e:  # noqa
        out["direct"] = f"groupby_reduce raised {type(e).__name__}: {str(e)[:160]}"
        out["err"] = type(e).__name__
        return out
    groups = np.asarray(groups)
    out["resolved"] = _rec.get("agg_method")

    # --- oracle: factorisation, members, incidence over the array's blocks (label axes only) -----------------------------
    lblock = co.block_index(case["chunks"][1:] if B else case["chunks"]).reshape(-1)      # block of each label position
    flat_by = by.reshape(-1)
    gvals = [float(g) for g in groups.reshape(-1)]
    members = {g: [i for i in range(n) if flat_by[i] == g] for g in gvals}
    if case["expected"] is None:
        want_groups = sorted({float(x) for x in flat_by if x == x})
    else:
        want_groups = sorted(float(x) for x in case["expected"])
    if gvals != want_groups:
        out["direct"] = f"groups returned {gvals}, expected {want_groups}"
        return out

    # --- planner call made inside (tie 1 material) ---------------------------------------------------------------------------
    f = _rec.get("find")
    if f is not None:
        codes = f["labels"].reshape(-1).astype(int).tolist()
        ocodes = [want_groups.index(float(x)) if (x == x and float(x) in want_groups) else -1 for x in flat_by]
        if list(np.broadcast_to(f["labels"], lshape).reshape(-1).astype(int)) != ocodes:
            out["direct"] = f"planner was called with codes {codes}, oracle factorisation gives {ocodes}"
            return out
        if f["chunks"] != [list(c) for c in (case["chunks"][1:] if B else case["chunks"])]:
            out["direct"] = f"planner was called with chunks {f['chunks']}"
            return out
        if f["merge"] != (case["method"] == "cohorts"):
            out["direct"] = f"planner called with merge={f['merge']} for method={case['method']}"
            return out
        pc = {"kind": "plan", "labels": ocodes, "chunks": f["chunks"], "nlabels": f["nlabels"], "merge": f["merge"]}
        out["find"] = {"case": pc, "impl": f"ok {f['ret'][0]} {co.fmt_cohorts(f['ret'][1])}"}
        preferred, planned = f["ret"]
        # the graph builder receives exactly what the planner returned
        if _rec.get("agg_cohorts") is not None and _rec["agg_cohorts"] != planned:
            out["direct"] = f"dask_groupby_agg received cohorts {_rec['agg_cohorts']}, planner returned {planned}"
            return out
        # method choice trusts the planner's preference (sum: no arg-reduction, all label axes reduced)
        if case["method"] is None:
            want = preferred if not (preferred in ("cohorts", "blockwise") and not planned) else "map-reduce"
            if out["resolved"] != want:
                out["direct"] = f"method=None resolved to {out['resolved']}, planner preferred {preferred}"
                return out
            nlr, inc = co.incidence(pc)
            if out["resolved"] == "blockwise" and not co.oracle_confined(inc):
                out["direct"] = "blockwise chosen although a label spans several blocks"
                return out
    elif case["method"] in (None, "cohorts"):
        out["direct"] = "groupby_reduce did not consult the planner"
        return out

    # --- dependency closures ---------------------------------------------------------------------------------------------------
    def need(gs, bidx):
        req = set()
        for g in gs:
            for i in members.get(g, []):
                req.add(((arr.name,) + ((bidx,) if B else ()) + tuple(int(x) for x in np.unravel_index(lblock[i], lgrid))))
        return req

    lgrid = tuple(len(c) for c in (case["chunks"][1:] if B else case["chunks"]))

    def check_closure(coll, glist, what):
        if not hasattr(coll, "__dask_graph__"):
            # an eager ndarray (all labels missing, method=None; recorded for property C12): no graph to inspect, values still checked
            out["notes"].append(f"{what}:not-lazy")
            return None
        cl = array_closure(coll, arr.name)
        gch = coll.chunks[-1]
        if any(c != c for c in gch) or sum(gch) != len(glist):
            bounds = [(0, len(glist))] * len(gch)
        else:
            cs = np.cumsum((0,) + tuple(gch))
            bounds = [(int(cs[i]), int(cs[i + 1])) for i in range(len(gch))]
        tight = True
        for key, leaves in cl.items():
            j = key[-1]
            bidx = key[1] if B else None
            gs = glist[bounds[j][0]:bounds[j][1]]
            req = need(gs, bidx)
            if not req <= leaves:
                return f"{what}: output chunk {key[1:]} (groups {gs}) does not depend on input block(s) {sorted(k[1:] for k in req - leaves)}"
            if B:
                foreign = [k for k in leaves if k[1] != bidx]
                if foreign:
                    return f"{what}: output chunk {key[1:]} depends on block(s) of another batch slice: {sorted(k[1:] for k in foreign)}"
            if leaves != req:
                tight = False
        out["notes"].append(f"{what}:{'tight' if tight else 'superset'}")
        return None

    d = check_closure(result, gvals, "final")
    if d:
        out["direct"] = d
        return out
    raw = _rec.get("raw")
    if raw is not None and _rec.get("raw_array") is not None and _rec["raw_array"].name == arr.name:
        rres, rgroups = raw
        rg = [want_groups[int(c)] if 0 <= int(c) < len(want_groups) else None for c in np.asarray(rgroups[0]).reshape(-1)]
        d = check_closure(rres, rg, "raw")
        if d:
            out["direct"] = d
            return out
        if out["resolved"] == "cohorts" and _rec.get("agg_cohorts"):
            # one output chunk per cohort, depending on the cohort's blocks; for N-D chunk grids `_normalize_indexes` selects
            # the product of the per-axis index sets (a hull that may contain foreign blocks, whose labels are dropped by the
            # reindex to the cohort's labels): cohort blocks <= closure <= hull
            cl = array_closure(rres, arr.name)
            for key, leaves in cl.items():
                blks = _rec["agg_cohorts"][key[-1]][0]
                got = sorted(int(np.ravel_multi_index(k[(2 if B else 1):], lgrid)) for k in leaves)
                axes = np.unravel_index(blks, lgrid)
                hull = sorted(int(np.ravel_multi_index(t, lgrid)) for t in itertools.product(*[sorted(set(a.tolist())) for a in axes]))
                if not (set(blks) <= set(got) <= set(hull)):
                    out["direct"] = (f"raw: output chunk {key[1:]} of cohort {key[-1]} depends on label-blocks {got}, cohort blocks are "
                                     f"{blks} (index hull {hull})")
                    return out
                out["notes"].append("cohort-chunk:" + ("exact" if got == blks else "hull"))

    # --- provenance ----------------------------------------------------------------------------------------------------------------
    try:
        with dask.config.set(scheduler="sync", **_se(case)):
            got = np.asarray(result.compute() if hasattr(result, "compute") else result)
    except Exception as e:  # noqa
        out["direct"] = f"compute raised {type(e).__name__}: {str(e)[:160]}"
        return out
    want = np.zeros(((B,) if B else ()) + (len(gvals),))
    flatv = vals.reshape((B if B else 1, n))
    for r in range(B if B else 1):
        for gi, g in enumerate(gvals):
            s = float(sum(flatv[r, i] for i in members[g]))
            if B:
                want[r, gi] = s
            else:
                want[gi] = s
    if got.shape != want.shape or not np.array_equal(got, want):
        def who(x):
            x = int(x)
            return [i for i in range(total) if x >> i & 1]
        bad = np.argwhere(got != want)[0] if got.shape == want.shape else None
        if bad is None:
            out["direct"] = f"result shape {got.shape}, expected {want.shape}"
        else:
            out["direct"] = (f"group {gvals[bad[-1]]}{' row ' + str(bad[0]) if B else ''}: got sum {got[tuple(bad)]} = elements "
                             f"{who(got[tuple(bad)]) if float(got[tuple(bad)]).is_integer() else '?'}, members are {who(want[tuple(bad)])}")
    return out


# ------------------------------------------------------------------------------------------------


class C09(Prop):
    id = "C09"
    lean_module = "FloxProps.C09"
    level = "proof"
    rule = ("plan stream: the real find_group_cohorts(labels, chunks, expected_groups, merge) vs the Lean model (exact outcome: method + "
            "cohorts in dict order) vs an independent set-based soundness oracle vs the Lean specification decided on the returned "
            "structure and on corrupted copies. Inputs: corpus first (incl. the witnesses of the repaired dict-key collision), seeded samples (random / sorted / "
            "periodic / runs / row patterns, 1-D and 2-D, missing labels, expected_groups larger than the labels present) and planted "
            "incidence tables (periodic, nested containment, |Q∩S|/|Q| at 3/4 and 3/4±1/|Q|, sparsity at 2/5 ± one cell, hub-and-satellite "
            "tables that provoke key collisions); exhaustive: every label vector over {-1,0,1,2} with every chunk layout, quick n<=5 (one setting per pair), "
            "thorough n<=6 under all four (expected_groups None/RangeIndex(4)) x (merge False/True) settings, n=7 and the 2x3/3x2 2-D "
            "arrays (all chunk grids) under one setting per (labels, layout) pair rotating with the pair index and the seed. The workers of "
            "the exhaustive stream replace flox.core.ThreadPoolExecutor by an inline executor (speed only); every 16th pair is re-run "
            "on the unmodified code. graph stream (corpus first: witnesses of the repaired layer-name collision on N-D block grids, 3-D labels): lazy groupby_reduce(sum) on 2**i data for method None/map-reduce/cohorts/blockwise, "
            "1-D/2-D labels with NaN, optional batch axis, expected_groups none/exact/superset/subset: recorded planner call vs model, "
            "cohorts handed to dask_groupby_agg, resolved method, dependency closure of every output chunk of the raw and final result "
            "(contains every block holding one of its labels; no block of another batch row; cohort chunks depend on exactly the "
            "cohort's blocks), and exact provenance sums. non-trivial = at least two blocks and one present label; distinct = hash of the case")
    assumptions = [
        "thresholds: the model uses the exact rational comparisons 5*nnz > 2*size and 4*|Q∩S| >= 3*|Q|; scipy evaluates |Q∩S| * fl(1/|Q|) "
        "which differs first at |Q| = 196 (147 * fl(1/196) < 0.75): the correspondence is claimed for labels spanning < 196 blocks; "
        "the theorems hold for arbitrary thresholds",
        "the graph part of the property (dependency closures, provenance) is observed on the real dask graphs, not proved: dask graph "
        "construction is not modelled; members_counted_once is its model-level form",
        "codes outside -1..nlabels-1 and empty arrays are outside the modelled domain (flox factorises labels before calling the planner)",
    ]

    # ---- plan stream ---------------------------------------------------------------------------------------------------------------
    def plan_corpus(self):
        cs = [co.collision_witness(True), co.collision_witness(False)]
        for labels, chunks, nl, mg in [
            ([0, 0, 1, 1], [[2, 2]], None, False), ([0, 1, 0, 1], [[2, 2]], None, False), ([0, 1, 0, 1], [[2, 2]], None, True),
            ([0, 1, 0, 1], [[1, 1, 1, 1]], None, False), ([-1, -1, -1], [[1, 2]], None, True), ([-1, -1, -1], [[1, 2]], 3, False),
            ([0, 1, 2], [[3]], 5, True), ([-1], [[1]], 0, False), ([0, -1, 0, -1, 1, 1], [[2, 2, 2]], None, False),
            ([0, 0, -1, -1, 1, 1], [[2, 2, 2]], None, True), ([0, 1, 1, 2, 2, 3, 3, 0], [[2, 2, 2, 2]], 6, True),
            ([0, 1, 3, 0, 1, -1, 0, 2, 3, 0, 2, 3], [[3, 3, 3, 3]], 5, True),
            ([0, 1, 0, 1, 0, 2, 0, 2, 3, 4, 3, 4, 4, -1], [[2] * 7], 6, False),
            ([0, 0, 1, 0, 0, 1, 2, 2, -1], [[2, 1], [2, 1]], None, False), ([0, 1, 1, -1, 1, 1, 2, 2, 3], [[2, 1], [1, 2]], 4, True),
        ]:
            cs.append({"kind": "plan", "labels": labels, "chunks": chunks, "nlabels": nl, "merge": mg, "gen": "corpus"})
        return cs

    def process_plan(self, cases, evals, rep: Report, sels=None):
        merge_partial(rep, compare_plan(cases, evals))

    def run_plan_pool(self, case_iter, rep, seed, inline: bool, batch=4000):
        """evaluate + compare inside the workers (each batch: real flox, one driver call, comparisons); merge the partial reports"""
        def batches():
            j = 0
            while True:
                cases = list(itertools.islice(case_iter, batch))
                if not cases:
                    return
                yield (cases, seed + j)
                j += 1

        ctx = multiprocessing.get_context("fork")
        with ctx.Pool(NPROC, initializer=_worker_init_inline if inline else None) as pool:
            for part in pool.imap_unordered(_worker_batch, batches()):
                merge_partial(rep, part)

    # ---- graph stream --------------------------------------------------------------------------------------------------------------
    def process_graph(self, cases, rep: Report):
        if len(cases) > 50:
            with multiprocessing.get_context("fork").Pool(NPROC) as pool:
                results = pool.map(run_graph_case, cases, chunksize=20)
        else:
            results = [run_graph_case(c) for c in cases]
        idx, lines = [], []
        for i, r in enumerate(results):
            if r.get("find"):
                idx.append(i)
                lines.append(co.model_line(r["find"]["case"]))
        outs = core.Driver().run(lines)
        mout = dict(zip(idx, outs))
        for i, (c, r) in enumerate(zip(cases, results)):
            rep.evaluations += 1
            rep.keys.add(core.case_hash({k: c.get(k) for k in ("labels", "lshape", "batch", "chunks", "method", "expected", "split_every")}))
            rep.dist["graph:split_every=" + str(c.get("split_every"))] += 1
            rep.dist["graph:method=" + str(c["method"]) + "->" + str(r.get("resolved", r.get("err")))] += 1
            rep.dist["graph:" + c["gen"].split(":", 2)[2]] += 1
            for nte in r.get("notes", []):
                rep.dist["closure:" + nte] += 1
            if i in mout:
                mo = mout[i]
                if mo.startswith("ok "):
                    mo = mo.rpartition(" br=")[0]
                if mo != r["find"]["impl"]:
                    rep.tie1.append((c, f"model: {mo} ; planner inside groupby_reduce: {r['find']['impl']}"))
                rep.dist["graph:planner-call-compared"] += 1
            if r["direct"]:
                rep.direct.append((c, r["direct"]))
            if len(rep.samples) < 6 and c["method"] in (None, "cohorts") and r.get("resolved") == "cohorts":
                rep.add_sample({"case": c, "resolved": r.get("resolved"), "planner": r["find"]["impl"] if r.get("find") else None,
                                "closures": r.get("notes")})

    def graph_corpus(self):
        """witnesses of the two repaired defects (former findings C09-F12 / C09-F1): any recurrence is a VIOLATION"""
        w = co.collision_witness(True)
        return [
            # the planner's dict-key collision reached through the API (was AssertionError)
            {"kind": "graph", "labels": w["labels"], "lshape": [len(w["labels"])], "batch": 0, "chunks": w["chunks"],
             "method": "cohorts", "expected": None, "gen": "graph:corpus-collision:1d:b0"},
            # two cohorts with the same per-axis hull of blocks (was: a group silently received another group's value)
            {"kind": "graph", "labels": [0, 1, 1, 0], "lshape": [2, 2], "batch": 0, "chunks": [[1, 1], [1, 1]], "method": None,
             "expected": None, "gen": "graph:corpus-hull:2d:b0"},
            {"kind": "graph", "labels": [0, 1, 0, 1, 0, 1], "lshape": [2, 3], "batch": 2, "chunks": [[1, 1], [1, 1], [1, 1, 1]],
             "method": "cohorts", "expected": None, "gen": "graph:corpus-hull:2d:b2"},
            # … cohorts of different sizes with the same hull (was: ValueError at compute)
            {"kind": "graph", "labels": [0, 0, 0, 1, 1, 2, 2, 0, 0, 0, 0, 1], "lshape": [4, 3], "batch": 0,
             "chunks": [[3, 1], [1, 1, 1]], "method": "cohorts", "expected": None, "gen": "graph:corpus-hull:2d:b0"},
            # 3-D labels (was: IndexError while building the graph)
            {"kind": "graph", "labels": [0, 1, 1, 0, 2, 0, 1, 2], "lshape": [2, 2, 2], "batch": 0,
             "chunks": [[1, 1], [1, 1], [1, 1]], "method": "cohorts", "expected": None, "gen": "graph:corpus-3d:3d:b0"},
            {"kind": "graph", "labels": [0, 1, 1, 0, 2, 0, 1, 2], "lshape": [2, 2, 2], "batch": 2,
             "chunks": [[2], [1, 1], [2], [1, 1]], "method": None, "expected": [0, 1, 2, 5], "gen": "graph:corpus-3d:3d:b2"},
            {"kind": "graph", "labels": [0, 0, 1, 1, 2, 2, 0, 0], "lshape": [8], "batch": 2, "chunks": [[1, 1], [2, 2, 2, 2]],
             "method": "cohorts", "expected": [0, 1, 2, 3], "gen": "graph:corpus:1d:b2"},
        ]

    # ---- driver --------------------------------------------------------------------------------------------------------------------
    def run(self, rng, tier, rep: Report, search=False):
        import time as _t

        t0 = _t.time()

        def lap(what):
            rep.notes.append(f"{what}: {_t.time() - t0:.1f}s")

        quick = tier == "quick"
        seed = rng.randrange(10**6)
        mult = 3 if search else 1
        # sampled plan cases on the unmodified code
        n_s = (4000 if quick else 40000) * mult
        cases = self.plan_corpus()
        for i in range(n_s):
            c = co.gen_planted(rng, big=not quick) if i % 2 else co.gen_random(rng, nmax=24 if quick else 40)
            cases.append(co.finish(rng, c))
        self.run_plan_pool(iter(cases), rep, seed, inline=False)
        lap("sampled plan cases done")
        # exhaustive
        ALL4 = [(None, False), (None, True), (4, False), (4, True)]
        if quick:
            self.run_plan_pool(enum_cases([1, 2, 3, 4, 5], [(2, 2)], lambda i: [ALL4[(i + seed) % 4]]), rep, seed, inline=True)
        else:
            self.run_plan_pool(enum_cases([1, 2, 3, 4, 5, 6], [], lambda i: ALL4), rep, seed, inline=True)
            self.run_plan_pool(enum_cases([7], [(2, 3), (3, 2)], lambda i: [ALL4[(i + seed) % 4]]), rep, seed, inline=True)
            # every 16th pair again on the unmodified code
            it = (c for j, c in enumerate(enum_cases([5, 6, 7], [(2, 3), (3, 2)], lambda i: [ALL4[(i + seed) % 4]])) if j % 16 == seed % 16)
            self.run_plan_pool(it, rep, seed, inline=False)
        lap("exhaustive plan cases done")
        # graphs
        n_g = (1500 if quick else 15000) * mult
        self.process_graph(self.graph_corpus() + [gen_graph_case(rng, big=not quick) for _ in range(n_g)], rep)
        lap("graph cases done")

    def replay(self, payload, rep: Report):
        c = payload["case"]
        if c.get("kind") == "graph":
            self.process_graph([c], rep)
        else:
            c = {k: v for k, v in c.items() if k != "cand"}
            self.process_plan([c], [eval_plan(c, 0)], rep, [0])

    # no open findings: C09-F1 (layer-name collision) and C09-F12 (dict-key collision) are repaired in /repo; their witnesses are
    # corpus cases and any recurrence is a VIOLATION (match_finding of the base class returns False)
