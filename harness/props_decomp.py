"""C04 – the block / combine / finalize decomposition of each aggregation is exact; fills are neutral; user-defined
`Aggregation` objects run on the same machinery.

Streams
  enum   exhaustive split enumeration: the members of one group (values from {-2, 0, 3, NaN, +inf, -inf}; int64 streams
         use {-2, 0, 3} and the int64 extremes) are split in every way into 2 or 3 ordered parts (empty parts included);
         part i becomes block i of a dask array, and every block also holds one filler element that belongs to a second
         group or has a missing label, so that no block is empty.  All member lists of one size that share a layout are
         stacked as the rows of a 2-D array (leading axis = independent cases, the grouped axis is the last one), so one
         flox call evaluates hundreds of cases; every row is checked separately against the Lean model (one driver line
         per row), the NumPy oracle and the eager flox result.
  one    the same cases as individual 1-D calls (the API form the property names), sampled.
  user   user-defined `flox.Aggregation` objects from a small grammar: lawful ones (clones of built-in blueprints under
         new names, incl. finalize callables from a fixed menu) – chunked = eager = NumPy = built-in; unlawful ones
         (chunk "max" / combine "sum", non-neutral fills, …) – only implementation = Lean machinery model.
  chunkless  first / last (no chunk function): flox must refuse map-reduce / cohorts (NotImplementedError).
"""
from __future__ import annotations

import itertools
import math
import random
import warnings
from dataclasses import asdict, replace

import numpy as np

from . import core
from .framework import Prop, Report
from . import reduce_ops as ro
from .reduce_ops import ARG, INF, NAN, Case

warnings.filterwarnings("ignore")

I64MIN, I64MAX = -(2 ** 63), 2 ** 63 - 1
ALPHA_F = [-2.0, 0.0, 3.0, NAN, INF, -INF]
ALPHA_I = [-2, 0, 3]
ALPHA_IEXT = [-2, 3, I64MIN]          # I64MIN = the int64 fill of max / nanmax / nanfirst / nanlast (exact as a double;
                                      # I64MAX is not, the +extreme fill is exercised on int8 data instead)
ALPHA_I8 = [-2, 3, -128, 127]

CHUNKED_BUILTINS = [f for f in ro.REDUCTIONS if f not in ("first", "last")]
ORDER_SENSITIVE = ARG | {"nanfirst", "nanlast"}
MINMAX = {"max", "min", "nanmax", "nanmin", "argmax", "argmin", "nanargmax", "nanargmin", "nanfirst", "nanlast"}
PLANS = [("map-reduce", True), ("map-reduce", False), ("cohorts", None)]


# ------------------------------------------------------------------------------------------------
# user aggregations


def _mean_like(s, c):
    with np.errstate(invalid="ignore", divide="ignore"):
        return s / c


def _identity(x):
    return x


def _second(*x):
    return x[1]


def user_aggs():
    """name -> (constructor kwargs, lawful?, NumPy reference kernel or None, domain restriction)"""
    import flox.xrdtypes as xd
    from flox.aggregations import _var_finalize

    i = np.intp
    return {
        # lawful clones of built-in blueprints
        "my_sum": (dict(numpy="sum", chunk="sum", combine="sum", fill_value=0), True, "sum"),
        "my_nansum": (dict(numpy="nansum", chunk="nansum", combine="sum", fill_value=0), True, "nansum"),
        "my_prod": (dict(numpy="prod", chunk="prod", combine="prod", fill_value=1, final_fill_value=1), True, "prod"),
        "my_max": (dict(numpy="max", chunk="max", combine="max", fill_value=xd.NINF), True, "max"),
        "my_nanmin": (dict(numpy="nanmin", chunk="nanmin", combine="nanmin", fill_value=xd.INF), True, "nanmin"),
        "my_count": (dict(numpy="nanlen", chunk="nanlen", combine="sum", fill_value=0, final_fill_value=0, dtypes=i,
                          final_dtype=i), True, "count"),
        "my_mean": (dict(numpy="mean", chunk=("sum", "nanlen"), combine=("sum", "sum"), finalize=_mean_like,
                         fill_value=(0, 0), dtypes=(None, i), final_dtype=np.floating), True, "mean"),
        "my_nanmean": (dict(numpy="nanmean", chunk=("nansum", "nanlen"), combine=("sum", "sum"), finalize=_mean_like,
                            fill_value=(0, 0), dtypes=(None, i), final_dtype=np.floating), True, "nanmean"),
        "my_var": (dict(numpy="var", chunk=("sum_of_squares", "sum", "nanlen"), combine=("sum", "sum", "sum"),
                        finalize=_var_finalize, fill_value=0, final_fill_value=np.nan, dtypes=(None, None, i),
                        final_dtype=np.floating), True, "var"),
        "my_second_sum": (dict(numpy="sum", chunk=("nanlen", "sum"), combine=("sum", "sum"), finalize=_second,
                               fill_value=(0, 0), dtypes=(i, None)), True, "sum"),
        "my_id_nansum": (dict(numpy="nansum", chunk="nansum", combine="sum", finalize=_identity, fill_value=0), True, "nansum"),
        "my_nanlast": (dict(numpy="nanlast", chunk="nanlast", combine="nanlast", fill_value=xd.NA), True, "nanlast"),
        # unlawful blueprints: the machinery runs them all the same
        "max_sum": (dict(numpy="max", chunk="max", combine="sum", fill_value=0), False, None),
        "sum_max": (dict(numpy="sum", chunk="sum", combine="max", fill_value=0), False, None),
        "sum_fill1": (dict(numpy="sum", chunk="sum", combine="sum", fill_value=1), False, None),
        "mean_maxcount": (dict(numpy="mean", chunk=("sum", "nanlen"), combine=("sum", "max"), finalize=_mean_like,
                               fill_value=(0, 0), dtypes=(None, i), final_dtype=np.floating), False, None),
        "nanmax_fill0": (dict(numpy="nanmax", chunk="nanmax", combine="nanmax", fill_value=0), False, None),
        "sum_nanfirst": (dict(numpy="sum", chunk="sum", combine="nanfirst", fill_value=xd.NA), False, None),
        "second_of_max_min": (dict(numpy="min", chunk=("max", "min"), combine=("max", "min"), finalize=_second,
                                   fill_value=(0, 0)), False, None),
    }


_AGG_CACHE: dict = {}


def make_agg(name):
    import flox

    if name not in _AGG_CACHE:
        kw, lawful, ref = user_aggs()[name]
        _AGG_CACHE[name] = (flox.Aggregation(name, **kw), lawful, ref)
    return _AGG_CACHE[name]


def finalize_tag(f) -> str | None:
    from flox import aggregations as fa

    if f is None or f is _identity:
        return "none"
    if f is _mean_like or f is fa._mean_finalize:
        return "mean"
    if f is _second or f is fa._pick_second:
        return "second"
    if f is fa._var_finalize:
        return "var"
    if f is fa._std_finalize:
        return "std"
    return None


def resolved_fields(name: str, dtype: str) -> dict | None:
    """the fields of the REAL `_initialize_aggregation(custom_agg, None, dtype, None, 0, None)` (as the translator's
    `init_row` serialises them for the registry)"""
    import sys
    import os

    sys.path.insert(0, os.path.join(core.VERIF, "translator"))
    import gen_tables as gt
    from flox.aggregations import _initialize_aggregation

    agg, _, _ = make_agg(name)
    tag = finalize_tag(agg.finalize)
    a = _initialize_aggregation(agg, None, np.dtype(dtype), None, 0, None)
    if tag is None or any(not (isinstance(x, str) or x is None) for x in a.numpy + tuple(a.chunk) + tuple(a.combine)):
        return None      # callables as kernels are outside the model
    return dict(
        name=a.name, numpy=[gt.fname(x) for x in a.numpy], chunk=[gt.fname(x) for x in a.chunk],
        combine=[gt.fname(x) for x in a.combine], simple=[gt.fname(x) for x in a.simple_combine],
        ifills=[gt.valstr(x) for x in a.fill_value["intermediate"]], nfills=[gt.valstr(x) for x in a.fill_value["numpy"]],
        ffill=gt.valstr(a.fill_value[a.name]), ufill=gt.valstr(a.fill_value["user"]), minc=int(a.min_count), fin=tag,
        isarg=1 if a.reduction_type == "argreduce" else 0,
    )


# ------------------------------------------------------------------------------------------------
# layouts: how the members of group 0 are spread over the blocks


def compositions(n: int, k: int):
    """all ordered ways to write n as a sum of k non-negative parts"""
    if k == 1:
        yield (n,)
        return
    for a in range(n + 1):
        for rest in compositions(n - a, k - 1):
            yield (a,) + rest


def make_layout(rng: random.Random, sizes, dtype: str) -> dict:
    nb = len(sizes)
    mode = rng.choice(["g1", "g1", "missing", "mixed"])
    if mode == "g1":
        flabels = [1] * nb
    elif mode == "missing":
        flabels = [None] * nb
    else:
        flabels = [rng.choice([1, None]) for _ in range(nb)]
    if dtype in ("int64", "int8"):
        fvals = [rng.choice([7, -1]) for _ in range(nb)]
    else:
        fvals = [rng.choice([7.0, -1.0, 7.0, NAN]) for _ in range(nb)]
    return dict(sizes=list(sizes), fpos=[rng.choice(["front", "back"]) for _ in range(nb)], flabels=flabels, fvals=fvals,
                se=rng.choice([2, 4]))


def assemble(layout: dict, seq: list):
    """-> (vals, labels, chunks) of the 1-D array"""
    vals, labels, chunks = [], [], []
    k = 0
    for s, pos, fl, fv in zip(layout["sizes"], layout["fpos"], layout["flabels"], layout["fvals"]):
        part = list(seq[k:k + s])
        k += s
        if pos == "front":
            vals += [fv] + part
            labels += [fl] + [0] * s
        else:
            vals += part + [fv]
            labels += [0] * s + [fl]
        chunks.append(s + 1)
    return vals, labels, chunks


def member_rows(rng: random.Random, func: str, n: int, dtype: str, tier: str, ordered: bool):
    """the member lists (rows) of size n to run for `func`"""
    if dtype == "int64":
        alpha = ALPHA_IEXT if func in MINMAX else ALPHA_I
    elif dtype == "int8":
        alpha = ALPHA_I8
    else:
        alpha = ALPHA_F
    multis = [list(m) for m in itertools.combinations_with_replacement(alpha, n)]
    if ordered and func in ORDER_SENSITIVE and n <= 3 and tier == "thorough":
        rows = [list(s) for s in itertools.product(alpha, repeat=n)]
    else:
        rows = []
        for m in multis:
            p = list(m)
            rng.shuffle(p)
            rows.append(p)
            if func in ORDER_SENSITIVE and n >= 2:
                q = list(m)
                rng.shuffle(q)
                rows.append(q)
    return rows


# ------------------------------------------------------------------------------------------------
# running flox


def np_by(labels):
    if any(l is None for l in labels):
        return np.array([NAN if l is None else float(l) for l in labels], dtype="float64")
    return np.array(labels, dtype="int64")


VARFAM = {"var", "nanvar", "std", "nanstd", "my_var"}


def run_flox(func, arr: np.ndarray, labels, chunks, method, reindex, engine, se, ddof=0):
    """arr: 1-D, or 2-D with independent cases along axis 0.  Returns dict(kind, groups, vals, plan)."""
    import dask
    import dask.array as da
    import flox

    ro._patch_flox()
    ro._recorded.clear()
    by = np_by(labels)
    kw = dict(func=func)
    if engine is not None:
        kw["engine"] = engine
    if ddof:
        kw["finalize_kwargs"] = {"ddof": ddof}
    phase = "call"
    try:
        if chunks is None:
            res, groups = flox.groupby_reduce(arr, by, **kw)
        else:
            kw["method"] = method
            if reindex is not None:
                kw["reindex"] = reindex
            ch = (tuple(chunks),) if arr.ndim == 1 else ((arr.shape[0],), tuple(chunks))
            darr = da.from_array(arr, chunks=ch)
            with dask.config.set(split_every=se):
                res, groups = flox.groupby_reduce(darr, by, **kw)
                phase = "compute"
                res, groups = dask.compute(res, groups, scheduler="sync")
    except Exception as e:  # noqa
        return dict(kind="err", err=ro.err_kind(e), phase=phase, msg=str(e)[:200], plan=dict(ro._recorded))
    return dict(kind="ok", groups=np.asarray(groups), vals=np.asarray(res), plan=dict(ro._recorded))


def row_result(r: dict, i: int | None):
    if r["kind"] != "ok" or i is None:
        return r
    return dict(kind="ok", groups=r["groups"], vals=r["vals"][i], plan=r["plan"])


# ------------------------------------------------------------------------------------------------
# model lines


def builtin_line(c: Case, plan: dict):
    return ro.model_line(c, plan)


def user_line(name: str, fields: dict, ref: str | None, c: Case, plan: dict):
    if c.chunks is None:
        p, chunks = "eager", ""
    else:
        m = plan.get("method")
        if m is None:
            return None
        chunks = ",".join(str(x) for x in (plan.get("chunks") or c.chunks))
        if m == "map-reduce":
            p = "mapreduce:" + ("1" if plan.get("reindex") else "0")
        elif m == "blockwise":
            p = "blockwise:" + ("1" if plan.get("reindex") else "0")
        else:
            cs = plan.get("cohorts") or []
            p = "cohorts:" + ";".join(".".join(map(str, b)) + "~" + ".".join(map(str, l)) for b, l in cs)
    eng = c.engine or plan.get("engine") or plan.get("chosen_engine") or "numpy"
    j = ",".join
    head = (
        f"reduceR name={fields['name']} numpy={j(fields['numpy'])} chunk={j(fields['chunk'])} combine={j(fields['combine'])} "
        f"ifills={j(fields['ifills'])} nfills={j(fields['nfills'])} ffill={fields['ffill']} ufill={fields['ufill']} "
        f"minc={fields['minc']} fin={fields['fin']} ddof={c.ddof} isarg={fields['isarg']} fill=- spec={ref or '-'} specmc=0 "
        f"eng={ro.ENGINE_CLASS[eng]} sort=1 expected=- known=1 se={c.split_every} "
        f"float={1 if c.dtype.startswith('float') else 0} plan={p} chunks={chunks}"
    )
    return head + " | " + core.toks(c.labels) + " | " + core.toks(ro.np_array(c).tolist())


# ------------------------------------------------------------------------------------------------
# comparisons


def in_domain(func_ref: str, c: Case, g) -> bool:
    """slots on which the property says something: arg* need NaN-free (resp. not all-NaN) groups; a user clone of
    nanmin / nanmax is not granted the built-in's `min_count=1` default by `_initialize_aggregation` (that goes by the
    *name*), so its all-NaN groups are outside the lawful domain (`H_minmax` of `userAggregation_lawful_eq_eager`)"""
    cc = replace(c, func=func_ref)
    if not ro.default_in_domain(cc, g):
        return False
    if c.func != func_ref and func_ref in ("nanmin", "nanmax"):
        ms = [v for v, l in zip(c.vals, c.labels) if l is not None and l == g]
        if all(isinstance(v, float) and math.isnan(v) for v in ms):
            return False
    return True


def cmp_two_impl(c: Case, ref: str, a: dict, b: dict, what: str) -> str | None:
    """two implementation results (chunked vs eager, user vs built-in) must agree on the in-domain slots"""
    if a["kind"] != "ok" or b["kind"] != "ok":
        if a["kind"] == b["kind"] and a.get("err") == b.get("err"):
            return None
        return f"{what}: {a['kind']}:{a.get('err','')}{a.get('msg','')} vs {b['kind']}:{b.get('err','')}{b.get('msg','')}"
    ga, gb = list(np.asarray(a["groups"]).reshape(-1)), list(np.asarray(b["groups"]).reshape(-1))
    if len(ga) != len(gb) or any(float(x) != float(y) for x, y in zip(ga, gb)):
        return f"{what}: labels differ {ga} vs {gb}"
    va, vb = np.asarray(a["vals"]).reshape(-1), np.asarray(b["vals"]).reshape(-1)
    mode = ro.cmp_mode(replace(c, func=ref))
    for g, x, y in zip(ga, va, vb):
        if not in_domain(ref, c, g):
            continue
        fx, fy = float(x), float(y)
        if math.isnan(fx) or math.isnan(fy):
            ok = math.isnan(fx) and math.isnan(fy)
        elif mode == "exact" or fx == fy or math.isinf(fx) or math.isinf(fy):
            ok = fx == fy
        elif mode == "rounded":
            ok = abs(fx - fy) <= 4 * math.ulp(fx)
        else:
            ok = abs(fx - fy) <= 1e-9 + 1e-9 * abs(fx)
        if not ok:
            return f"{what}: label {g}: {x!r} vs {y!r}"
    return None


# ------------------------------------------------------------------------------------------------


class Job:
    """one flox call = one (aggregation, layout, plan) on a stack of member rows"""

    __slots__ = ("kind", "func", "ref", "lawful", "dtype", "layout", "rows", "method", "reindex", "engine", "batched", "stream",
                 "ddof")

    def __init__(self, **kw):
        self.ddof = 0
        for k, v in kw.items():
            setattr(self, k, v)


class C04(Prop):
    id = "C04"
    lean_module = "FloxProps.C04"
    level = "proof"
    rule = ("one group's members (values from {-2,0,3,NaN,+inf,-inf}; int64: {-2,0,3} and the int64 extremes for the min/max "
            "family) split in every way into 2 or 3 ordered parts incl. empty parts; part i = block i of a dask array, each "
            "block also holding one filler element of a second group or with a missing label (front or back, value 7/-1/NaN); "
            "plans map-reduce reindex=True / False and cohorts, split_every 2 or 4, engines numpy / flox (numbagg sampled in "
            "thorough); thorough: every multiset of size 1-4 (order-sensitive aggregations: every sequence up to size 3, two "
            "shuffles of each multiset of size 4) x every split; quick: every multiset of size 1-2 and a sample of size 3; "
            "all 23 built-in aggregations with a chunk function + 19 user Aggregation objects (12 lawful clones, 7 unlawful); "
            "each case: chunked flox vs eager flox vs NumPy oracle vs Lean model (tie 1) and oracle vs Lean spec (tie 2); "
            "non-trivial = the group has >= 2 members or a block without members of the group; distinct = hash of "
            "(aggregation, dtype, member list, layout, plan)")
    assumptions = [
        "the leading axis of the stacked 2-D arrays is an independent batch axis of groupby_reduce (each row is compared "
        "with the 1-D Lean model; the 'one' stream runs the same cases as genuine 1-D calls)",
        "callables as chunk / combine entries of a user Aggregation are not modelled (string kernels only); finalize "
        "callables come from a fixed menu (s/c, identity, pick-second, flox's _var_finalize)",
        "var/std compared with rel. tolerance 1e-9, mean within 4 ulp (exact model vs IEEE)",
    ]

    # -- job generation ------------------------------------------------------------------------------
    def jobs(self, rng: random.Random, tier: str, search: bool):
        jobs = []
        nmax = 4 if tier == "thorough" else 3
        uaggs = user_aggs()
        targets = [("builtin", f, f, True) for f in CHUNKED_BUILTINS] + \
                  [("user", n, ref, lawful) for n, (_, lawful, ref) in uaggs.items()]
        for kind, func, ref, lawful in targets:
            dts = ["float64"]
            if kind == "builtin" and func not in ("any", "all"):
                dts.append("int64")
                if func in MINMAX:
                    dts.append("int8")
            for dtype in dts:
                if func in ("any", "all"):
                    continue  # handled below on bool data
                for n in range(1, nmax + 1):
                    lays = [s for nb in (2, 3) for s in compositions(n, nb)]
                    if tier == "quick" and not search:
                        keep = {1: len(lays), 2: 5, 3: 2}[n]
                        if dtype != "float64" or kind == "user":
                            keep = {1: 3, 2: 3, 3: 1}[n]
                        lays = rng.sample(lays, min(keep, len(lays)))
                    elif dtype != "float64" and n == 4:
                        lays = rng.sample(lays, 8)
                    for sizes in lays:
                        layout = make_layout(rng, sizes, dtype)
                        ddof = rng.choice([0, 1]) if func in VARFAM else 0
                        rows = member_rows(rng, ref or "sum", n, dtype, tier, ordered=True)
                        if tier == "quick" and not search and len(rows) > 24:
                            rows = rng.sample(rows, 24)
                        plans = list(PLANS)
                        if (ref in ARG) or func in ARG or (func in ("nanfirst", "nanlast") and dtype != "float64"):
                            # reindex=True is refused for arg-reductions and for nanfirst / nanlast on non-float data
                            plans = [("map-reduce", None), ("map-reduce", False), ("cohorts", None)]
                        if tier == "quick" and not search and (dtype != "float64" or kind == "user"):
                            plans = [rng.choice(plans)]
                        for method, reindex in plans:
                            eng = "numpy" if (kind == "user" or func in ARG) else rng.choice(["numpy", "flox"])
                            jobs.append(Job(kind=kind, func=func, ref=ref, lawful=lawful, dtype=dtype, layout=layout, rows=rows,
                                            method=method, reindex=reindex, engine=eng, batched=True, stream="enum", ddof=ddof))
        # any / all on bool data
        for func in ("any", "all"):
            for n in range(1, nmax + 1):
                lays = [s for nb in (2, 3) for s in compositions(n, nb)]
                if tier == "quick" and not search:
                    lays = rng.sample(lays, min(4, len(lays)))
                for sizes in lays:
                    layout = make_layout(rng, sizes, "int64")
                    layout["fvals"] = [bool(rng.random() < 0.5) for _ in sizes]
                    rows = [list(s) for s in itertools.product([False, True], repeat=n)]
                    for method, reindex in PLANS:
                        jobs.append(Job(kind="builtin", func=func, ref=func, lawful=True, dtype="bool", layout=layout, rows=rows,
                                        method=method, reindex=reindex, engine=rng.choice(["numpy", "flox"]), batched=True,
                                        stream="enum"))
        # genuine 1-D calls
        n1 = (250 if tier == "quick" else 2500) * (3 if search else 1)
        for _ in range(n1):
            kind, func, ref, lawful = rng.choice(targets)
            dtype = "float64" if (kind == "user" or rng.random() < 0.75) else "int64"
            if dtype == "int64" and func in MINMAX and rng.random() < 0.4:
                dtype = "int8"
            if func in ("any", "all"):
                dtype = "bool"
            n = rng.randint(1, 5 if tier == "thorough" else 4)
            sizes = rng.choice([s for nb in (2, 3) for s in compositions(n, nb)])
            layout = make_layout(rng, sizes, "int64" if dtype == "bool" else dtype)
            if dtype == "bool":
                layout["fvals"] = [bool(rng.random() < 0.5) for _ in sizes]
                row = [rng.random() < 0.5 for _ in range(n)]
            elif dtype == "int64":
                row = [rng.choice(ALPHA_IEXT if (ref or "") in MINMAX else ALPHA_I) for _ in range(n)]
            elif dtype == "int8":
                row = [rng.choice(ALPHA_I8) for _ in range(n)]
            else:
                row = [rng.choice(ALPHA_F) for _ in range(n)]
            noreindex = ref in ARG or func in ARG or (func in ("nanfirst", "nanlast") and dtype != "float64")
            plans = [("map-reduce", None), ("map-reduce", False), ("cohorts", None)] if noreindex else PLANS
            method, reindex = rng.choice(plans)
            if kind == "user" or func in ARG:
                eng = "numpy"
            elif tier == "thorough" and rng.random() < 0.03:
                eng = None           # default engine choice (numbagg for NaN-skipping kernels): slow, sampled
            else:
                eng = rng.choice(["numpy", "flox"])
            jobs.append(Job(kind=kind, func=func, ref=ref, lawful=lawful, dtype=dtype, layout=layout, rows=[row], method=method,
                            reindex=reindex, engine=eng, batched=False, stream="one",
                            ddof=rng.choice([0, 1]) if func in VARFAM else 0))
        return jobs

    # -- execution -----------------------------------------------------------------------------------
    def run(self, rng, tier, rep: Report, search=False):
        self.run_jobs(self.jobs(rng, tier, search), rep)
        self.chunkless(rep)

    def make_case(self, job: Job, row, chunked: bool) -> Case:
        vals, labels, chunks = assemble(job.layout, row)
        return Case(func=job.func, dtype=job.dtype, vals=vals, labels=labels, engine=job.engine, ddof=job.ddof,
                    method=job.method if chunked else None, reindex=job.reindex if chunked else None,
                    chunks=chunks if chunked else None, split_every=job.layout["se"], stream=job.stream)

    def run_jobs(self, jobs, rep: Report, batch=120):
        eager_cache: dict = {}
        fields_cache: dict = {}
        for k in range(0, len(jobs), batch):
            self.run_job_batch(jobs[k:k + batch], rep, eager_cache, fields_cache)

    def run_job_batch(self, jobs, rep: Report, eager_cache: dict, fields_cache: dict):
        lines, index = [], {}   # distinct driver lines
        results = []
        for ji, job in enumerate(jobs):
            func_obj = job.func if job.kind == "builtin" else make_agg(job.func)[0]
            cases = [self.make_case(job, row, True) for row in job.rows]
            arr = np.array([ro.np_array(c) for c in cases])
            labels, chunks = cases[0].labels, cases[0].chunks
            if not job.batched:
                arr = arr[0]
            imc = run_flox(func_obj, arr, labels, chunks, job.method, job.reindex, job.engine, job.layout["se"], job.ddof)
            ek = (job.kind, job.func, job.dtype, job.engine, job.ddof, core.case_hash([job.layout, job.rows]))
            if ek not in eager_cache:
                eager_cache[ek] = run_flox(func_obj, arr, labels, None, None, None, job.engine, 4, job.ddof)
            ime = eager_cache[ek]
            imb = None
            if job.kind == "user" and job.lawful:
                bk = ("builtin-ref", job.ref, job.dtype, job.method, job.reindex, job.ddof, core.case_hash([job.layout, job.rows]))
                if bk not in eager_cache:
                    eager_cache[bk] = run_flox(job.ref, arr, labels, chunks, job.method, job.reindex, "numpy", job.layout["se"],
                                               job.ddof)
                imb = eager_cache[bk]
            if job.kind == "user":
                fk = (job.func, job.dtype)
                if fk not in fields_cache:
                    fields_cache[fk] = resolved_fields(job.func, job.dtype)
                fields = fields_cache[fk]
            for ri, c in enumerate(cases):
                i = ri if job.batched else None
                ce = self.make_case(job, job.rows[ri], False)
                if job.kind == "builtin":
                    lc, le = builtin_line(c, imc.get("plan", {})), builtin_line(ce, ime.get("plan", {}))
                else:
                    lc = user_line(job.func, fields, job.ref if job.lawful else None, c, imc.get("plan", {})) if fields else None
                    le = user_line(job.func, fields, job.ref if job.lawful else None, ce, ime.get("plan", {})) if fields else None
                for l in (lc, le):
                    if l is not None and l not in index:
                        index[l] = len(lines)
                        lines.append(l)
                results.append((ji, ri, c, ce, row_result(imc, i), row_result(ime, i), None if imb is None else row_result(imb, i),
                                lc, le))
        outs = core.Driver().run(lines)
        for ji, ri, c, ce, imc, ime, imb, lc, le in results:
            job = jobs[ji]
            self.judge(job, ri, c, ce, imc, ime, imb, None if lc is None else outs[index[lc]],
                       None if le is None else outs[index[le]], rep)

    def judge(self, job: Job, ri, c: Case, ce: Case, imc, ime, imb, mo_c, mo_e, rep: Report):
        rep.evaluations += 1
        row = job.rows[ri]
        cd = dict(kind=job.kind, func=job.func, ref=job.ref, lawful=job.lawful, dtype=job.dtype, row=list(row), layout=job.layout,
                  method=job.method, reindex=job.reindex, engine=job.engine, batched=job.batched, stream=job.stream, ddof=job.ddof)
        if len(row) >= 2 or 0 in job.layout["sizes"]:
            rep.keys.add(core.case_hash(cd))
        plan = imc.get("plan", {})
        rep.dist["stream:" + job.stream] += 1
        rep.dist[("func:" if job.kind == "builtin" else "user:") + job.func] += 1
        rep.dist["dtype:" + job.dtype] += 1
        rep.dist[f"plan:{plan.get('method')}/reindex={plan.get('reindex')}"] += 1
        rep.dist["engine:" + str(job.engine or plan.get("chosen_engine"))] += 1
        rep.dist["nmembers:" + str(len(row))] += 1
        rep.dist["nblocks:" + str(len(job.layout["sizes"]))] += 1
        rep.dist["empty_parts:" + str(sum(1 for s in job.layout["sizes"] if s == 0))] += 1
        rep.dist["fillers:" + ("g1" if all(l == 1 for l in job.layout["flabels"]) else
                               "missing" if all(l is None for l in job.layout["flabels"]) else "mixed")] += 1
        rep.dist["tree:se=" + str(job.layout["se"])] += 1
        if job.func in VARFAM:
            rep.dist["ddof:" + str(job.ddof)] += 1
        rep.dist["impl:" + (imc["kind"] if imc["kind"] == "ok" else imc["err"])] += 1
        isnan = [isinstance(v, float) and math.isnan(v) for v in row]
        rep.dist["members:" + ("all-nan" if all(isnan) else "some-nan" if any(isnan) else "no-nan")] += 1
        ref = job.ref if job.lawful else None
        # tie 1: implementation vs Lean model (chunked and eager)
        spec = None
        for which, mo, cc, im in (("chunked", mo_c, c, imc), ("eager", mo_e, ce, ime)):
            if mo is None:
                rep.dist["model:not-expressible"] += 1
                continue
            model, sp = ro.parse_model_output(mo)
            rep.dist["model:" + model["kind"]] += 1
            if model["kind"] in ("bad",):
                rep.tie1.append((cd, f"{which}: driver answered {mo[:120]}"))
                continue
            cm = replace(cc, func=job.ref or job.func) if job.kind == "user" else cc
            if job.kind == "user" and not job.lawful:
                cm = replace(cc, func="sum")   # exact comparison, no arg/approx special cases
                if job.func == "mean_maxcount":
                    cm = replace(cc, func="mean")
            d1 = ro.cmp_impl_model(cm, im, model)
            if d1:
                rep.tie1.append((cd, f"{which}: {d1}"))
            if which == "chunked":
                spec = sp
        # tie 2: oracle vs Lean spec;  direct: the property
        if ref is not None:
            co = replace(c, func=ref)
            orc = ro.run_oracle(co)
            if spec is not None:
                d2 = ro.cmp_oracle_spec(co, orc, spec)
                if d2:
                    rep.tie2.append((cd, d2))
            dom = (lambda cc_, g: in_domain(ref, c, g))
            d3 = ro.cmp_impl_oracle(co, imc, orc, dom)
            d3 = d3 and "chunked vs NumPy: " + d3
            if not d3:
                d3 = ro.cmp_impl_oracle(replace(ce, func=ref), ime, orc, dom)
                d3 = d3 and "eager vs NumPy: " + d3
            if not d3:
                d3 = cmp_two_impl(c, ref, imc, ime, "chunked vs eager")
            if not d3 and imb is not None:
                d3 = cmp_two_impl(c, ref, imc, imb, "user aggregation vs built-in")
            if d3:
                rep.direct.append((cd, d3))
        else:
            # unlawful user aggregation: no property beyond "it runs": an exception is a failure of the machinery claim
            if imc["kind"] != "ok":
                rep.direct.append((cd, f"user aggregation raised {imc.get('err')}: {imc.get('msg')}"))
        if len(rep.samples) < 6 and len(row) >= 2 and (rep.evaluations % 997 == 1 or len(rep.samples) < 2):
            rep.add_sample({"case": core.jsonable(cd), "chunked": core.jsonable(imc.get("vals") if imc["kind"] == "ok" else imc),
                            "eager": core.jsonable(ime.get("vals") if ime["kind"] == "ok" else ime),
                            "plan": core.jsonable(plan), "model_chunked": mo_c, "model_eager": mo_e})

    def chunkless(self, rep: Report):
        """first / last have no chunk function: only method='blockwise' may be used on dask input"""
        for func in ("first", "last"):
            for method, reindex in (("map-reduce", None), ("map-reduce", False), ("cohorts", None)):
                arr = np.array([1.0, 7.0, 2.0, 7.0])
                r = run_flox(func, arr, [0, 1, 0, 1], [2, 2], method, reindex, "numpy", 4)
                rep.evaluations += 1
                rep.dist["stream:chunkless"] += 1
                if not (r["kind"] == "err" and r["err"] == "NotImplementedError"):
                    rep.direct.append((dict(kind="chunkless", func=func, method=method), f"expected NotImplementedError, got {r}"))

    # -- replay ----------------------------------------------------------------------------------------
    def replay(self, payload, rep: Report):
        d = payload["case"]
        if d.get("kind") == "chunkless":
            return self.chunkless(rep)
        row = [_unjson(x) for x in d["row"]]
        lay = dict(d["layout"])
        lay["fvals"] = [_unjson(x) for x in lay["fvals"]]
        if d["dtype"] == "bool":
            row = [bool(x) for x in row]
        job = Job(kind=d["kind"], func=d["func"], ref=d.get("ref"), lawful=d.get("lawful", True), dtype=d["dtype"], layout=lay,
                  rows=[row], method=d["method"], reindex=d["reindex"], engine=d["engine"], batched=d.get("batched", False),
                  stream=d.get("stream", "replay"), ddof=d.get("ddof", 0))
        self.run_jobs([job], rep)

    def match_finding(self, finding, case, detail) -> bool:
        from . import findings

        pred = findings.PREDICATES.get(finding["id"])
        return bool(pred and pred(case, detail))


def _unjson(x):
    if isinstance(x, str):
        if x in ("nan", "NaN"):
            return NAN
        if x in ("inf", "Infinity"):
            return INF
        if x in ("-inf", "-Infinity"):
            return -INF
    return x
