"""C14 – no side effects; results independent of call history and of co-computed results.

Streams (all on the REAL flox, in this process; references from pristine processes):

  history : random sequences (1-8) of API calls – groupby_reduce (eager / dask, named and user `Aggregation`s, all methods,
            engines), groupby_scan, xarray_reduce, rechunk_for_blockwise / rechunk_for_cohorts (array / DataArray / Dataset),
            find_group_cohorts – then a probe call.  Around EVERY call: structural snapshot of `AGGREGATIONS` and content hashes
            of every argument buffer (a change = violation).  The probe's outcome (values, dtype, shape, chunks, group labels,
            task-key names) must equal the outcome of the same call made FIRST in a pristine process; so must the results of the
            stateful internals it went through (blueprint specialisation, memoised planner, lru-cached parts).
  names   : pairs and triples of lazy results that differ in exactly ONE ingredient; `dask.compute` of all of them in every
            order (optimised and raw graph) must give each result its stand-alone value; every task of every graph is executed
            and keys shared between graphs must carry equal values.

  tie1   : implementation vs Lean model – (history) every recorded stateful call replayed by the driver's `history` op from a
           fresh model state: same specialised blueprint / chunks / parts / scan blueprint, registry unchanged;  (names) the
           model's table of hashed ingredients (`names` op): a kind that does not hash the changed ingredient keeps its names, no
           unknown kind of layer appears;  (merge) the model's union-evaluation of the real graphs' skeletons (`merge` op) says
           safe  =>  dask agrees.
  tie2   : independent pure-Python oracle vs Lean specification – `pureResult` of every recorded call vs re-derived planner /
           parts / blueprint arithmetic from the pristine registry; compat / safe flags of the skeleton pair vs a dictionary-union
           evaluator.
  direct : the property itself: mutation of an argument or of the registry, probe != pristine-process probe, together != alone,
           shared key with different values.
"""
from __future__ import annotations

import copy
import itertools
import json
import math
import os
import random

os.environ.setdefault("NUMBA_NUM_THREADS", "1")

from . import core
from . import state_names as sn
from . import state_ops as so
from .framework import Prop, Report

NAN = float("nan")

# ------------------------------------------------------------------------------------------------
# names stream

V8 = [1.0, 2.0, 3.0, 4.0, 5.0, 6.0, 7.0, 8.0]
PERIODIC = [0, 1, 2, 0, 1, 2, 0, 1]
SORTED = [0, 0, 0, 1, 1, 1, 2, 2]


def names_bases():
    m = sn.mkcfg
    return {
        "mapreduce-sum": m(engine="numpy", method="map-reduce"),
        "default-sum": m(),
        "mapreduce-nanargmax": m(func="nanargmax", engine="numpy", method="map-reduce"),
        "cohorts-sum": m(engine="numpy", method="cohorts"),
        "cohorts-nanmax-ones": m(func="nanmax", engine="numpy", method="cohorts", labels=PERIODIC, chunks=[1] * 8),
        "cohorts-argmin": m(func="argmin", engine="numpy", method="cohorts", labels=PERIODIC, chunks=[2, 2, 2, 2]),
        "blockwise-sum": m(engine="numpy", method="blockwise", labels=SORTED),
        "blockwise-rechunk": m(engine="numpy", method="blockwise", labels=SORTED, chunks=[2, 2, 2, 2]),
        "mapreduce-var": m(func="var", fk={"ddof": 1}, engine="numpy", method="map-reduce"),
        "blockwise-nanquantile": m(func="nanquantile", fk={"q": 0.5}, engine="flox", method="blockwise", labels=SORTED),
        "unknown-sum": m(engine="numpy", by_dask=True),
        "lazycodes-sum": m(engine="numpy", by_dask=True, expected=[0, 1, 2]),
        "expected-fill": m(engine="numpy", expected=[0, 1, 2, 3], fill=0),
        "unsorted": m(engine="numpy", expected=[2, 0, 1], sort=False),
        "nanfirst-int": m(func="nanfirst", adtype="int64", engine="numpy"),
        "rows2-nanmean": m(func="nanmean", engine="numpy", rows=2),
        "rows2-nanargmax": m(func="nanargmax", engine="numpy", rows=2),
        "nan-labels": m(engine="numpy", labels=[0, None, 0, 1, 2, None, 0, 1]),
        "scan-nancumsum": m(kind="scan", func="nancumsum"),
        "scan-bfill": m(kind="scan", func="bfill", vals=[1.0, NAN, 3.0, NAN, NAN, 6.0, 7.0, NAN]),
        "scan-int": m(kind="scan", func="nancumsum", adtype="int64"),
    }


SCAN_INGREDIENTS = ("array", "labels", "func", "dtype", "chunks")


def ingredients_of(cfg):
    return SCAN_INGREDIENTS if cfg["kind"] == "scan" else tuple(sn.INGREDIENTS)


def names_tuples(rng, tier, search):
    """-> list of dict(cfgs=[...], ingredient, base, stream)"""
    bases = names_bases()
    out = []
    # corpus: q passed as numpy arrays (finding C14-F1: arrays with equal repr collide) and two arrays that differ visibly
    qb = bases["blockwise-nanquantile"]
    for a, b in (({"q_array": [0.25, 0.123456789]}, {"q_array": [0.25, 0.123456788]}),
                 ({"q_linspace": [1001, None, 0]}, {"q_linspace": [1001, 500, 0.9]}),
                 ({"q_array": [0.25, 0.5]}, {"q_array": [0.25, 0.75]})):
        out.append(dict(cfgs=[sn.with_value(qb, "fk", a), sn.with_value(qb, "fk", b)], ingredient="fk", base="blockwise-nanquantile", stream="corpus"))
    allpairs = []
    for bname, b in bases.items():
        for ing in ingredients_of(b):
            vals = sn.distinct_values(b, ing)
            if len(vals) < 2:
                continue
            cfgs = [sn.with_value(b, ing, v) for v in vals]
            for c1, c2 in itertools.combinations(cfgs, 2):
                allpairs.append(dict(cfgs=[c1, c2], ingredient=ing, base=bname, stream="pairs-exhaustive"))
            if len(cfgs) >= 3:
                trip = list(itertools.combinations(cfgs, 3))
                rng.shuffle(trip)
                for t in trip[: (3 if tier == "thorough" else 1)]:
                    out.append(dict(cfgs=list(t), ingredient=ing, base=bname, stream="triples"))
    if tier == "thorough":
        out += allpairs
        nrand = 400 * (2 if search else 1)
    else:
        # quick: the pairs (base value, every other value) of every ingredient of every base + a sample of the rest
        seen = set()
        for p in allpairs:
            k = (p["base"], p["ingredient"])
            b = bases[p["base"]]
            if sn._same(p["cfgs"][0][sn.FIELD[p["ingredient"]]], b[sn.FIELD[p["ingredient"]]]) and k not in seen:
                seen.add(k)
                p = dict(p, stream="pairs-base")
                out.append(p)
        rest = [p for p in allpairs]
        rng.shuffle(rest)
        out += rest[: 120 * (3 if search else 1)]
        nrand = 60 * (3 if search else 1)
    # random configurations: a random base mutated in a few ingredients, then varied in one
    for _ in range(nrand):
        b = copy.deepcopy(rng.choice(list(bases.values())))
        n = rng.choice([6, 8, 9, 12])
        if b["kind"] == "scan":
            b["vals"] = [NAN if rng.random() < 0.25 else float(rng.randint(-3, 9)) for _ in range(n)]
        else:
            b["vals"] = [NAN if rng.random() < 0.1 else float(rng.randint(-3, 9)) for _ in range(n)]
        if b["adtype"] != "float64":
            b["vals"] = [float(rng.randint(-3, 9)) for _ in range(n)]
        k = rng.randint(1, 4)
        if b["method"] == "blockwise":
            b["labels"] = sorted(rng.randrange(k) for _ in range(n))
        else:
            b["labels"] = [rng.randrange(k) for _ in range(n)] if rng.random() < 0.5 else [i % k for i in range(n)]
        b["chunks"] = rand_chunks(rng, n)
        if b["expected"] is not None:
            b["expected"] = list(range(k + rng.randint(0, 2)))
        ing = rng.choice(ingredients_of(b))
        vals = sn.distinct_values(b, ing)
        if len(vals) < 2:
            continue
        m = 3 if (len(vals) >= 3 and rng.random() < 0.35) else 2
        pick = rng.sample(vals, m)
        out.append(dict(cfgs=[sn.with_value(b, ing, v) for v in pick], ingredient=ing, base="random", stream="random"))
    return out


def rand_chunks(rng, n):
    mode = rng.choice(["ones", "single", "random", "random", "even"])
    if mode == "ones":
        return [1] * n
    if mode == "single":
        return [n]
    if mode == "even":
        k = rng.randint(2, 4)
        return [k] * (n // k) + ([n % k] if n % k else [])
    out, cur = [], 1
    for _ in range(n - 1):
        if rng.random() < 0.4:
            out.append(cur)
            cur = 1
        else:
            cur += 1
    return out + [cur]


def vhash(v, depth=0):
    """canonical content hash of a task value (equal under state_names.same_val => equal hash)"""
    import hashlib

    import numpy as np
    import pandas as pd

    h = hashlib.sha1()
    if depth > 8:
        return "deep"
    if isinstance(v, pd.Index):
        h.update(("idx" + type(v).__name__ + str(v.dtype) + repr(v.tolist())).encode())
    elif isinstance(v, (np.ndarray, np.generic)):
        a = np.asarray(v)
        h.update(("nd" + str(a.dtype) + str(a.shape)).encode())
        if a.dtype == object:
            h.update(repr([vhash(x, depth + 1) for x in a.ravel().tolist()]).encode())
        else:
            if a.dtype.kind in "fc":
                a = np.where(np.isnan(a), np.nan, a) + 0.0
            h.update(np.ascontiguousarray(a).tobytes())
    elif isinstance(v, dict):
        h.update(("dict" + repr([(repr(k), vhash(x, depth + 1)) for k, x in v.items()])).encode())
    elif isinstance(v, (list, tuple)):
        h.update((type(v).__name__ + repr([vhash(x, depth + 1) for x in v])).encode())
    elif callable(v):
        h.update(b"callable")
    elif hasattr(v, "__dict__") and type(v).__module__.startswith("flox"):
        h.update((type(v).__name__ + vhash(vars(v), depth + 1)).encode())
    else:
        h.update(("o" + repr(v)).encode())
    return h.hexdigest()


def skeletons(res):
    """the real graphs of a checked tuple as abstract graphs: key -> (op class, deps), integer ids shared across the graphs"""
    kid, oid = {}, {}
    gs = []
    for g, ran in zip(res["graphs"], res["ran"]):
        if ran is None:
            return None
        done, deps = ran
        sk = {}
        for k in g:
            i = kid.setdefault(k, len(kid))
            o = oid.setdefault(vhash(done[k]), len(oid))
            sk[i] = (o, sorted(kid.setdefault(d, len(kid)) for d in deps[k]))
        gs.append(sk)
    outs = []
    for o in res["outs"]:
        ks = []
        for coll in o:
            if hasattr(coll, "__dask_keys__"):
                from .graphexec import flat_keys

                ks += [kid[k] for k in flat_keys(coll.__dask_keys__())]
        outs.append(ks)
    return gs, outs


def merge_line(g1, g2, o1, o2):
    def enc(g):
        return " ".join(f"{k}={op}:{','.join(map(str, deps))}" for k, (op, deps) in g.items())

    return f"merge | {enc(g1)} | {enc(g2)} | {' '.join(map(str, o1))} | {' '.join(map(str, o2))}"


def merge_oracle(g1, g2, o1, o2):
    """pure-Python: dictionary-union evaluation of expression trees"""
    compat = all(g1[k] == g2[k] for k in set(g1) & set(g2))

    def ev(g, k, memo):
        if k not in memo:
            op, deps = g[k]
            memo[k] = (op, tuple(ev(g, d, memo) for d in deps))
        return memo[k]

    u12 = dict(g1)
    u12.update(g2)
    u21 = dict(g2)
    u21.update(g1)
    safe = True
    for g, outs in ((g1, o1), (g2, o2)):
        m0, m1, m2 = {}, {}, {}
        for k in outs:
            a = ev(g, k, m0)
            try:
                if ev(u12, k, m1) != a or ev(u21, k, m2) != a:
                    safe = False
            except (KeyError, RecursionError):
                safe = False
    return compat, safe


# ------------------------------------------------------------------------------------------------
# history stream


def rand_call(rng, n=None, lazy=None):
    n = n or rng.choice([6, 8, 9, 12])
    k = rng.randint(1, 4)
    vals = [None if rng.random() < 0.12 else float(rng.randint(-3, 9)) for _ in range(n)]
    labels = [rng.randrange(k) for _ in range(n)] if rng.random() < 0.5 else [i % k for i in range(n)]
    chunks = rand_chunks(rng, n)
    api = rng.choice(["reduce"] * 6 + ["scan"] * 2 + ["xr"] * 2 + ["rechunk"] * 3 + ["cohorts"])
    if api == "reduce":
        lazy_ = rng.random() < 0.65 if lazy is None else lazy
        func = rng.choice(["sum", "nansum", "mean", "nanmean", "max", "nanmax", "nanmin", "count", "var", "nanstd", "prod", "nanargmax", "argmin",
                           "first", "nanlast", "median", "nanmedian", "quantile", "any", {"user": "mysum"}, {"user": "mymax"}, {"user": "mycount"}])
        d = dict(api="reduce", vals=vals, labels=labels, chunks=chunks if lazy_ else None, func=func)
        if isinstance(func, str) and func in ("argmin", "first", "any", "max", "prod", "sum", "mean", "var", "median", "quantile"):
            d["vals"] = [0.0 if v is None else v for v in vals]
        if func in ("var", "nanstd") and rng.random() < 0.7:
            d["fk"] = {"ddof": rng.choice([0, 1, 2])}
        if func == "quantile":
            d["fk"] = {"q": rng.choice([0.25, 0.5, [0.25, 0.75]])}
            d["engine"] = "flox"
        if rng.random() < 0.4:
            d["min_count"] = rng.choice([0, 1, 2, 3])
        if rng.random() < 0.3 and not (isinstance(func, str) and "arg" in func):
            d["fill"] = rng.choice([0, -7, NAN])
        if rng.random() < 0.3:
            d["expected"] = list(range(k + rng.randint(0, 2)))
            if rng.random() < 0.4 and func not in ("median", "nanmedian", "quantile"):
                # a RangeIndex that may be shorter than the labels present (labels beyond it are dropped)
                d["expected"] = list(range(max(1, k + rng.randint(-2, 1))))
                d["expected_range"] = True
                if d.get("fill") is None and not (isinstance(func, str) and "arg" in func):
                    d["fill"] = rng.choice([0, -7])
        if lazy_:
            d["method"] = rng.choice([None, None, "map-reduce", "cohorts", "blockwise"])
            if d["method"] == "blockwise" or func in ("median", "nanmedian", "quantile"):
                d["labels"] = sorted(labels)
                d["method"] = "blockwise"
            if rng.random() < 0.15 and d["method"] in (None, "map-reduce") and "expected" in d:
                d["by_dask"] = True
        if "engine" not in d:
            d["engine"] = rng.choice([None, "numpy", "numpy", "flox", "numbagg"])
        if rng.random() < 0.15:
            d["rows"] = 2
        if d.get("expected_range") and d.get("method") != "blockwise" and not d.get("by_dask") and rng.random() < 0.5:
            # floating-point labels with a missing one next to RangeIndex expected groups (the codes fast path masks labels in a
            # copy of the caller's array - it must stay a copy for every label dtype)
            labs = list(d["labels"])
            labs[rng.randrange(len(labs))] = None
            d["labels"] = labs
        return d
    if api == "scan":
        d = dict(api="scan", vals=vals, labels=labels, chunks=chunks if rng.random() < 0.6 else None, func=rng.choice(["nancumsum", "ffill", "bfill"]))
        if rng.random() < 0.25:
            d["adtype"] = rng.choice(["int64", "float32", "int8"])
            d["vals"] = [float(rng.randint(-3, 9)) for _ in range(n)]
        return d
    if api == "xr":
        d = dict(api="xr", vals=vals, labels=labels, chunks=chunks if rng.random() < 0.6 else None,
                 func=rng.choice(["sum", "mean", "max", "count", "var", "nanmin"]), dataset=rng.random() < 0.5)
        if d["func"] == "var" and rng.random() < 0.5:
            d["fk"] = {"ddof": 1}
        if rng.random() < 0.3:
            d["expected"] = list(range(k + 1))
        if d["chunks"] is not None:
            d["method"] = rng.choice([None, "map-reduce", "cohorts"])
        d["engine"] = rng.choice([None, "numpy", "flox"])
        return d
    if api == "rechunk":
        which = rng.choice(["blockwise", "blockwise", "cohorts"])
        d = dict(api="rechunk", vals=[0.0 if v is None else v for v in vals], chunks=chunks, which=which,
                 flavour=rng.choice(["array", "array", "dataarray", "dataset"]))
        if which == "blockwise":
            d["labels"] = sorted(labels)
        else:
            d["labels"] = [i % max(k, 2) for i in range(n)]
            d["forced"] = [0]
            d["chunksize"] = rng.choice([None, 2, 3, 4])
            d["ignore"] = rng.random() < 0.3
        if rng.random() < 0.2:
            d["rows"] = 2
        return d
    return dict(api="cohorts", labels=labels, chunks=chunks, merge=rng.random() < 0.5, expected=rng.choice([None, k, k + 1]))


def probe_like(rng, call):
    """a probe that shares ingredients with an earlier call (same planner key / blueprint / user object), changed in one place"""
    p = copy.deepcopy(call)
    if p["api"] == "reduce":
        what = rng.choice(["same", "min_count", "labels", "vals", "func"])
        if what == "min_count":
            p["min_count"] = rng.choice([0, 1, 2, 3])
        elif what == "labels" and p.get("method") != "blockwise":
            k = max([l for l in p["labels"] if l is not None] or [0]) + 1
            p["labels"] = [None if l is None else (l + 1) % k for l in p["labels"]]
        elif what == "vals":
            p["vals"] = [None if v is None else v + 1 for v in p["vals"]]
        elif what == "func" and isinstance(p["func"], str) and p["func"] in ("sum", "nansum", "max", "nanmax", "mean", "nanmean"):
            p["func"] = rng.choice(["sum", "nansum", "max", "nanmax", "mean", "nanmean"])
    elif p["api"] == "rechunk":
        if rng.random() < 0.5 and p["which"] == "blockwise":
            # same chunks, different labels: the memo key must distinguish them
            n = len(p["labels"])
            cut = rng.randint(1, n - 1) if n > 1 else 0
            p["labels"] = [0] * cut + [1] * (n - cut)
    elif p["api"] == "scan":
        if rng.random() < 0.5:
            p["func"] = rng.choice(["nancumsum", "ffill", "bfill"])
    return p


def history_cases(rng, n_cases):
    cases = []
    for _ in range(n_cases):
        L = rng.randint(1, 8)
        calls = [rand_call(rng) for _ in range(L)]
        # repeat some calls so that caches are hit and blueprints reused
        if L >= 3 and rng.random() < 0.6:
            calls[rng.randrange(L)] = copy.deepcopy(rng.choice(calls))
        probe = probe_like(rng, rng.choice(calls)) if rng.random() < 0.6 else rand_call(rng)
        cases.append(dict(calls=calls, probe=probe, stream="history"))
    return cases


CORPUS_HISTORY = [
    # the blueprint of `sum` specialised with min_count, then asked again without
    dict(calls=[dict(api="reduce", vals=V8, labels=PERIODIC, chunks=None, func="sum", min_count=2, engine="numpy")],
         probe=dict(api="reduce", vals=V8, labels=PERIODIC, chunks=[3, 3, 2], func="sum", engine="numpy", method="map-reduce"), stream="corpus"),
    # a user Aggregation used twice with different specialisations
    dict(calls=[dict(api="reduce", vals=V8, labels=PERIODIC, chunks=[3, 3, 2], func={"user": "mysum"}, min_count=1, fill=-7, engine="numpy"),
                dict(api="reduce", vals=V8, labels=PERIODIC, chunks=None, func={"user": "mysum"}, fk={"ddof": 3}, engine="numpy")],
         probe=dict(api="reduce", vals=V8, labels=PERIODIC, chunks=[3, 3, 2], func={"user": "mysum"}, engine="numpy"), stream="corpus"),
    # the memoised planner: same chunks, different labels
    dict(calls=[dict(api="rechunk", vals=V8, labels=SORTED, chunks=[2, 2, 2, 2], which="blockwise", flavour="array"),
                dict(api="rechunk", vals=V8, labels=SORTED, chunks=[2, 2, 2, 2], which="blockwise", flavour="dataset")],
         probe=dict(api="rechunk", vals=V8, labels=[0, 0, 0, 0, 0, 1, 1, 1], chunks=[2, 2, 2, 2], which="blockwise", flavour="array"), stream="corpus"),
    # scans on float32 then float64 (identity resolved per call), bfill after ffill
    dict(calls=[dict(api="scan", vals=[1.0, None, 3.0, None, None, 6.0, 7.0, None], labels=PERIODIC, chunks=None, func="ffill", adtype="float32"),
                dict(api="scan", vals=[1.0, 2.0, 3.0, 4.0, 5.0, 6.0, 7.0, 8.0], labels=PERIODIC, chunks=[3, 3, 2], func="nancumsum", adtype="int8")],
         probe=dict(api="scan", vals=[1.0, None, 3.0, None, None, 6.0, 7.0, None], labels=PERIODIC, chunks=[3, 3, 2], func="bfill"), stream="corpus"),
    # cohorts (lru-cached parts) then the same shape again
    dict(calls=[dict(api="reduce", vals=V8, labels=PERIODIC, chunks=[1] * 8, func="nanmax", method="cohorts", engine="numpy"),
                dict(api="cohorts", labels=PERIODIC, chunks=[1] * 8, merge=True, expected=3)],
         probe=dict(api="reduce", vals=V8, labels=PERIODIC, chunks=[1] * 8, func="nanmin", method="cohorts", engine="numpy"), stream="corpus"),
    # xarray Dataset, then the DataArray
    dict(calls=[dict(api="xr", vals=V8, labels=PERIODIC, chunks=[3, 3, 2], func="mean", dataset=True, engine="numpy")],
         probe=dict(api="xr", vals=V8, labels=PERIODIC, chunks=[3, 3, 2], func="mean", dataset=False, engine="numpy"), stream="corpus"),
    # nanmax with min_count 0 (the blueprint's default fill becomes the user's), then nanmax with a fill
    dict(calls=[dict(api="reduce", vals=V8, labels=PERIODIC, chunks=None, func="nanmax", min_count=0, engine="numpy")],
         probe=dict(api="reduce", vals=V8, labels=PERIODIC, chunks=None, func="nanmax", fill=-7, expected=[0, 1, 2, 3], engine="numpy"), stream="corpus"),
]


def _strip_names(outcome, mode):
    """outcome with task-key names removed (mode='none') or reduced to kinds (mode='kinds')"""
    if not isinstance(outcome, list):
        return outcome
    out = []
    for o in outcome:
        if isinstance(o, dict) and "names" in o:
            o = dict(o)
            o["names"] = sorted({sn.kind_of(x) for x in o["names"]}) if mode == "kinds" else None
        out.append(o)
    return out


def json_norm(x):
    return json.loads(json.dumps(x, default=str))


# ------------------------------------------------------------------------------------------------


class C14(Prop):
    id = "C14"
    lean_module = "FloxProps.C14"
    level = "proof"
    rule = ("REAL flox in-process. history: sequences of 1-8 API calls (groupby_reduce eager/dask with named and user Aggregations, "
            "all methods/engines, groupby_scan, xarray_reduce on DataArray/Dataset, rechunk_for_blockwise/_cohorts in array/DataArray/"
            "Dataset flavours, find_group_cohorts) on 6-12 elements, 1-4 groups, NaNs, random chunkings; registry snapshot + argument "
            "buffer hashes around every call; probe (60% derived from an earlier call so that blueprints / memo keys are shared) "
            "compared with the same call made first in a pristine process (fork of a server that only imported the modules; a few "
            "also in brand-new interpreters); every recorded stateful internal call replayed in the Lean model. names: 21 base "
            "configurations (map-reduce / cohorts / blockwise / unknown and lazily factorised dask labels / arg-reductions / "
            "quantiles / 2-D / NaN labels / scans) x 13 ingredients x small value grids: pairs and triples differing in exactly one "
            "ingredient, dask.compute together in all orders (optimised and raw) vs alone, all tasks executed, shared keys compared; "
            "thorough = EVERY pair of grid values for every base and ingredient. non-trivial = history of >= 2 calls touching a "
            "blueprint or cache the probe uses, or a tuple whose graphs share at least one task key; distinct = hash of the case")
    assumptions = [
        "tokens (dask.base.tokenize) of normalised arguments are modelled as injective; what is NOT normalised by flox is found by the names stream (finding C14-F1)",
        "the Lean state model tracks the fields `_initialize_aggregation` / `groupby_scan` write and the two memo tables; dtype-resolved fill values are opaque strings taken from the real call",
        "pristine process = fork of a fork-server that has imported numpy/pandas/dask/xarray/flox and executed no flox call (validated against brand-new interpreters on a sample)",
        "task-key names are compared verbatim between processes when flox's token is process-independent, otherwise by kind (Aggregation.__dask_tokenize__ embeds the repr of finalize functions: counted in `names-process-dependent`)",
        "values are compared exactly (bitwise up to NaN payload), single-threaded scheduler",
        "python-level aliasing of objects other than the probed ones (e.g. attrs dicts shared between input and output of xarray_reduce) is not modelled",
    ]

    def volumes(self, tier, search):
        if tier == "quick":
            return dict(history=36 * (2 if search else 1), interp=3)
        return dict(history=300 * (2 if search else 1), interp=10)

    # ---- names -------------------------------------------------------------------------------
    def run_names(self, tuples, rep: Report):
        lines, meta = [], []
        for t in tuples:
            rep.evaluations += 1
            rep.dist["names:stream:" + t["stream"]] += 1
            rep.dist["names:ingredient:" + t["ingredient"]] += 1
            rep.dist["names:arity:%d" % len(t["cfgs"])] += 1
            res = sn.check_tuple(t["cfgs"], deep=True)
            rep.dist["names:status:" + res["status"]] += 1
            if res["status"] != "ok":
                continue
            case = dict(kind="names", cfgs=t["cfgs"], ingredient=t["ingredient"], base=t["base"], stream=t["stream"])
            for p in res["problems"]:
                rep.direct.append((case, p))
            shared_any = any(s["shared_keys"] for s in res["shared"])
            if shared_any:
                rep.keys.add(core.case_hash(case))
            # tie1 (a): the model's table of hashed ingredients
            kinds = []
            for c, o in zip(t["cfgs"], res["outs"]):
                kinds.append(sn.names_by_kind(o, c["kind"], sn.value_name(c)))
            common = sorted(set.intersection(*[set(k) for k in kinds]))
            unknown = [k for k in set().union(*kinds) if k.startswith("?")]
            if unknown:
                rep.tie1.append((case, f"layer kind(s) unknown to the model: {unknown}"))
            common = [k for k in common if not k.startswith("?")]
            lines.append(f"names ing={t['ingredient']} kinds={','.join(common)}")
            meta.append(("names", case, kinds, common, res))
            # merge skeletons (pairs of graphs)
            sk = skeletons(res)
            if sk is not None:
                gs, outs = sk
                for i, j in itertools.combinations(range(len(gs)), 2):
                    if sum(len(g) for g in gs) > 400:
                        rep.dist["merge:skipped-large"] += 1
                        continue
                    lines.append(merge_line(gs[i], gs[j], outs[i], outs[j]))
                    meta.append(("merge", case, (gs[i], gs[j], outs[i], outs[j]), (i, j), res))
            if shared_any and len(t["cfgs"]) == 2:
                rep.add_sample({"ingredient": t["ingredient"], "values": [core.jsonable(c[sn.FIELD[t["ingredient"]]]) for c in t["cfgs"]],
                                "base": t["base"], "alone": [a[0]["v"][:6] for a in res["alone"]],
                                "shared_kinds": res["shared"][0]["kinds"], "problems": res["problems"][:2]}, limit=3)
        outs = core.Driver().run(lines)
        for (what, case, a, b, res), out in zip(meta, outs):
            if not out.startswith("ok"):
                rep.tie1.append((case, f"driver: {out[:200]}"))
                continue
            if what == "names":
                kinds, common = a, b
                pred = dict(x.split(":") for x in out.split()[1:])
                for k in common:
                    sets = [kk[k] for kk in kinds]
                    same = all(s == sets[0] for s in sets)
                    rep.dist[f"names:model:{pred[k]}:{'same' if same else 'changed'}"] += 1
                    if pred[k] == "indep" and not same:
                        rep.tie1.append((case, f"kind {k}: the model says its names do not hash `{case['ingredient']}` but they changed: "
                                               f"{[sorted(s)[:2] for s in sets]}"))
                    if pred[k] == "must" and any(s1 & s2 for s1, s2 in itertools.combinations(sets, 2)):
                        # shared names although the tasks depend on the ingredient: fine only if the tasks are equal (checked by value
                        # in check_tuple -> direct); counted
                        rep.dist["names:alias-or-collision"] += 1
            else:
                g1, g2, o1, o2 = a
                flags = dict(x.split("=") for x in out.split()[1:])
                oc, osafe = merge_oracle(g1, g2, o1, o2)
                rep.dist[f"merge:compat={flags['compat']}:safe={flags['safe']}"] += 1
                if (flags["compat"] == "1") != oc or (flags["safe"] == "1") != osafe:
                    rep.tie2.append((case, f"merge of graphs {b}: Lean compat={flags['compat']} safe={flags['safe']} but dictionary-union oracle says compat={oc} safe={osafe}"))
                together_bad = [p for p in res["problems"] if p.startswith("together")]
                if flags["safe"] == "1" and together_bad and len(case["cfgs"]) == 2:
                    rep.tie1.append((case, f"model: union of the two graphs is safe, but dask: {together_bad[0]}"))
                if flags["safe"] == "0" and not res["problems"]:
                    rep.tie1.append((case, "model: union of the graph skeletons is unsafe, but no difference was observed on the real graphs"))

    # ---- history -----------------------------------------------------------------------------
    def run_history(self, cases, rep: Report, interp=0, rng=None):
        import dask

        dask.config.set(scheduler="sync")
        so.install_spies()
        pristine, fresh = so.fresh_results([c["probe"] for c in cases], workers=4)
        if pristine["digest"] != so.registry_digest():
            rep.direct.append((dict(kind="history", note="registry"), "the registry of this process differs structurally from a pristine process's"))
        lines, meta = [], []
        for ci, (c, fr) in enumerate(zip(cases, fresh)):
            rep.evaluations += 1
            case = dict(kind="history", calls=c["calls"], probe=c["probe"], stream=c["stream"])
            rep.dist["history:stream:" + c["stream"]] += 1
            rep.dist["history:len:%d" % len(c["calls"])] += 1
            ctx = {}
            records = []
            touched = set()
            for call in c["calls"] + [c["probe"]]:
                r = so.run_call(call, ctx)
                rep.dist["history:api:" + call["api"]] += 1
                rep.dist["history:calls"] += 1
                oc = r["outcome"]
                rep.dist["history:outcome:" + ("ok" if isinstance(oc, list) else oc["error"])] += 1
                if isinstance(oc, dict) and "unexpected" in oc:
                    rep.dist["history:unexpected-error"] += 1
                if r["mutated"]:
                    rep.direct.append((case, f"call {json.dumps(call, default=str)[:160]} modified its argument(s) {r['mutated']}"))
                if r["registry_changed"]:
                    rep.direct.append((case, f"call {json.dumps(call, default=str)[:160]} changed flox.aggregations.AGGREGATIONS"))
                if call is not c["probe"]:
                    for rec in r["records"]:
                        touched.add((rec["op"], rec.get("func") or (rec.get("user") or {}).get("name"), json.dumps(rec.get("chunks"))))
                records += r["records"]
                last = r
            # the probe against the pristine process
            mine, ref = json_norm(last["outcome"]), json_norm(fr["outcome"])
            if mine != ref:
                if _strip_names(mine, "none") != _strip_names(ref, "none"):
                    rep.direct.append((case, f"probe after history != probe first in a pristine process: {json.dumps(mine)[:200]} vs {json.dumps(ref)[:200]}"))
                elif _strip_names(mine, "kinds") != _strip_names(ref, "kinds"):
                    rep.direct.append((case, "probe after history builds a graph with different kinds of layers than first in a pristine process"))
                else:
                    rep.dist["history:names-process-dependent"] += 1
            mine_r, ref_r = [x["result"] for x in last["records"]], [x["result"] for x in fr["records"]]
            if mine_r != ref_r:
                rep.direct.append((case, f"stateful internals of the probe differ from a pristine process: {mine_r[:3]} vs {ref_r[:3]}"))
            probe_touch = {(rec["op"], rec.get("func") or (rec.get("user") or {}).get("name"), json.dumps(rec.get("chunks"))) for rec in last["records"]}
            if len(c["calls"]) >= 2 and (probe_touch & touched):
                rep.keys.add(core.case_hash(case))
            # Lean model of the recorded stateful calls
            line = so.model_line(records)
            if line is None or not records:
                rep.dist["history:model:not-expressible" if records else "history:model:no-stateful-call"] += 1
            else:
                lines.append(line)
                meta.append((case, records, pristine))
            if ci < 4:
                rep.add_sample({"history": [f"{x['api']}:{x.get('func', x.get('which', ''))}" for x in c["calls"]], "probe": c["probe"],
                                "probe_outcome": json.dumps(mine)[:300], "equals_pristine": mine == ref,
                                "stateful_calls": [x["result"][:90] for x in last["records"]]}, limit=6)
        outs = core.Driver().run(lines)
        for (case, records, pristine_), out in zip(meta, outs):
            if not out.startswith("ok"):
                rep.tie1.append((case, "driver: " + out[:200]))
                continue
            head, model, spec = out.split(" || ")
            model, spec = model.split(" ; "), spec.split(" ; ")
            if "regsame=1" not in head:
                rep.tie1.append((case, "model: registry changed"))
            for rec, m, s in zip(records, model, spec):
                rep.dist["history:record:" + rec["op"]] += 1
                if rec["result"] != m:
                    rep.tie1.append((case, f"stateful call {rec['op']}: flox {rec['result']!r} vs Lean model {m!r}"))
                orc = so.oracle_result(pristine_["registry"], rec)
                if orc != s:
                    rep.tie2.append((case, f"stateful call {rec['op']}: oracle {orc!r} vs Lean spec {s!r}"))
        # a few probes in brand-new interpreters: validates the fork-server reference
        for c, fr in list(zip(cases, fresh))[:interp]:
            ref = so.fresh_interpreter(c["probe"])
            rep.dist["history:interpreter-checks"] += 1
            a, b = json_norm(fr["outcome"]), json_norm(ref["outcome"])
            if _strip_names(a, "kinds") != _strip_names(b, "kinds") or [x["result"] for x in fr["records"]] != [x["result"] for x in ref["records"]]:
                rep.tie2.append((dict(kind="history", probe=c["probe"]), "fork-server pristine process disagrees with a brand-new interpreter"))

    # ---- entry points ------------------------------------------------------------------------
    def run(self, rng, tier, rep: Report, search=False):
        v = self.volumes(tier, search)
        tuples = names_tuples(rng, tier, search)
        rep.extra["exhaustive"] = False
        rep.extra["exhaustive_subspace"] = (
            "thorough: every unordered pair of grid values of every ingredient for each of the 21 base configurations "
            f"(this run: {sum(1 for t in tuples if t['stream'] == 'pairs-exhaustive')} pairs)" if tier == "thorough" else
            "quick: (base value, other value) pair of every ingredient of every base + a random sample of the remaining grid pairs")
        self.run_names(tuples, rep)
        cases = copy.deepcopy(CORPUS_HISTORY) + history_cases(rng, v["history"])
        self.run_history(cases, rep, interp=v["interp"], rng=rng)

    def replay(self, payload, rep: Report):
        case = payload["case"]
        if case.get("kind") == "names":
            cfgs = [_unjson_cfg(c) for c in case["cfgs"]]
            self.run_names([dict(cfgs=cfgs, ingredient=case["ingredient"], base=case.get("base", "replay"), stream="replay")], rep)
        else:
            c = dict(calls=[_unjson_call(x) for x in case.get("calls", [])], probe=_unjson_call(case["probe"]), stream="replay")
            self.run_history([c], rep)

    def match_finding(self, finding, case, detail) -> bool:
        from . import findings

        pred = findings.PREDICATES.get(finding["id"])
        return bool(pred and pred(case, detail))

    def check_finding_still_fails(self, finding):
        w = finding.get("witness")
        if not w or w.get("op") != "names":
            return None
        cfgs = [_unjson_cfg(c) for c in w["case"]["cfgs"]]
        res = sn.check_tuple(cfgs, deep=False)
        return bool(res["status"] == "ok" and res["problems"]
                    and self.match_finding(finding, dict(kind="names", cfgs=cfgs, ingredient=w["case"]["ingredient"]), res["problems"][0]))


def _unjson_float(x):
    if isinstance(x, str) and x.lower() in ("nan", "inf", "-inf"):
        return float(x)
    return x


def _unjson_cfg(c):
    c = copy.deepcopy(c)
    c["vals"] = [_unjson_float(v) for v in c["vals"]]
    c["fill"] = _unjson_float(c.get("fill"))
    return c


def _unjson_call(c):
    c = copy.deepcopy(c)
    if "vals" in c:
        c["vals"] = [_unjson_float(v) for v in c["vals"]]
    if "fill" in c:
        c["fill"] = _unjson_float(c["fill"])
    return c
