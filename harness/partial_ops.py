"""`partial` operations: flox.groupby_reduce on an N-D value array (1-4 dims) with labels aligned to the trailing
1-3 dims, reducing a subset of the label dims (`axis=` in any order / sign), eager or chunked.

For each case the harness computes
  impl   - the real flox (in-process, imported from /repo)
  model  - the Lean model `Flox.PartialAxis.run` (normalise + sort axes, move to end, collapse, offset labels, grouped
           kernel with the nan sentinel, reshape, min_count mask) + its metadata model of the chunked graph
  spec   - the Lean specification `Flox.PartialAxis.specRun` (loop over kept indices, 1-D `Spec.reduce` per slice)
  oracle - NumPy per slice and per group in this file (independent of flox and of Lean)
"""
from __future__ import annotations

import itertools
import math
import random
import warnings
from dataclasses import asdict, dataclass

import numpy as np

from . import core
from .reduce_ops import APPROX, ARG, DKIND, ENGINE_CLASS, FIRSTLAST, INF, NAN, err_kind, np_reduce

warnings.filterwarnings("ignore")

ORDER_FREE = ["sum", "nansum", "count", "max", "nanmax", "min", "nanmin", "mean", "nanmean", "prod", "nanprod",
              "var", "nanvar", "any", "all"]
ORDERED = ["first", "last", "nanfirst", "nanlast", "argmax", "argmin", "nanargmax", "nanargmin"]


@dataclass
class PCase:
    func: str
    dtype: str
    shape: list                 # shape of the value array (1-4 dims)
    by_ndim: int                # labels have shape  shape[-by_ndim:]
    vals: list                  # flat, C order
    labels: list                # flat, C order; None = missing (NaN) label
    axis: object                # int | list[int] | None   (as passed by the user)
    expected: list | None = None
    fill: object = None
    min_count: int | None = None
    ddof: int = 0
    engine: str | None = None
    chunks: list | None = None  # None = eager; else one chunk list per value-array dim
    method: str | None = None
    dask_labels: bool = False
    stream: str = ""

    def key(self):
        d = asdict(self)
        d.pop("stream")
        return core.case_hash(d)

    @property
    def by_shape(self):
        return list(self.shape[len(self.shape) - self.by_ndim:])


def norm_axis(c: PCase):
    """user axis -> tuple of non-negative ints (order kept); None if out of range / duplicated"""
    nd = len(c.shape)
    if c.axis is None:
        return tuple(range(nd - c.by_ndim, nd))
    ax = [c.axis] if isinstance(c.axis, int) else list(c.axis)
    out = []
    for a in ax:
        if not (-nd <= a < nd):
            return None
        out.append(a % nd)
    if len(set(out)) != len(out):
        return None
    return tuple(out)


def np_array(c: PCase):
    dt = np.dtype(c.dtype)
    if dt.kind == "b":
        return np.array([bool(v) for v in c.vals], dtype=bool).reshape(c.shape)
    return np.array(c.vals, dtype=dt).reshape(c.shape)


def np_labels(c: PCase):
    if any(l is None for l in c.labels):
        a = np.array([NAN if l is None else float(l) for l in c.labels], dtype="float64")
    else:
        a = np.array([int(l) for l in c.labels], dtype="int64")
    return a.reshape(c.by_shape)


# ----------------------------------------------------------------------------------------------
# the implementation

_recorded: dict = {}
_patched = False


def _patch_flox():
    global _patched
    if _patched:
        return
    import flox.core as fc

    orig_agg = fc.dask_groupby_agg
    orig_eng = fc._choose_engine

    def agg_wrapper(*a, **k):
        _recorded["method"] = k.get("method")
        r = k.get("reindex")
        _recorded["reindex"] = None if r is None else r.blockwise
        _recorded["engine"] = k.get("engine")
        _recorded["axis"] = [int(x) for x in k.get("axis", ())]
        return orig_agg(*a, **k)

    def eng_wrapper(by, agg):
        e = orig_eng(by, agg)
        _recorded["chosen_engine"] = e
        return e

    fc.dask_groupby_agg = agg_wrapper
    fc._choose_engine = eng_wrapper
    _patched = True


def call_kwargs(c: PCase):
    kw = dict(func=c.func)
    if c.axis is not None:
        kw["axis"] = c.axis if isinstance(c.axis, int) else tuple(c.axis)
    if c.expected is not None:
        kw["expected_groups"] = np.array(c.expected)
    if c.fill is not None:
        kw["fill_value"] = c.fill
    if c.min_count is not None:
        kw["min_count"] = c.min_count
    if c.func in ("var", "nanvar", "std", "nanstd") and c.ddof:
        kw["finalize_kwargs"] = {"ddof": c.ddof}
    if c.engine is not None:
        kw["engine"] = c.engine
    return kw


def run_impl(c: PCase):
    import dask
    import dask.array as da
    import flox

    _patch_flox()
    _recorded.clear()
    arr = np_array(c)
    by = np_labels(c)
    kw = call_kwargs(c)
    phase = "call"
    try:
        if c.chunks is None:
            res, groups = flox.groupby_reduce(arr, by, **kw)
            lazy = False
        else:
            if c.method is not None:
                kw["method"] = c.method
            chunks = tuple(tuple(x) for x in c.chunks)
            darr = da.from_array(arr, chunks=chunks)
            dby = da.from_array(by, chunks=chunks[len(chunks) - c.by_ndim:]) if c.dask_labels else by
            res, groups = flox.groupby_reduce(darr, dby, **kw)
            lazy = hasattr(res, "dask")
            announced = tuple(int(x) for x in res.shape) if lazy else None
            phase = "compute"
            res, groups = dask.compute(res, groups, scheduler="sync")
            _recorded["announced_shape"] = announced
        _recorded["lazy"] = lazy
    except Exception as e:  # noqa
        return dict(kind="err", err=err_kind(e), phase=phase, msg=str(e)[:200], plan=dict(_recorded))
    return dict(kind="ok", groups=np.asarray(groups), vals=np.asarray(res), plan=dict(_recorded))


# ----------------------------------------------------------------------------------------------
# the oracle: loop over the kept indices, NumPy per group on the slice


def effective(c: PCase, nax: int):
    if c.min_count is None:
        mc = 1 if (nax < c.by_ndim or (c.fill is not None and c.expected is not None)) else 0
    else:
        mc = c.min_count
    fill = c.fill
    if mc > 0 and c.func in ("nansum", "nanprod") and fill is None:
        fill = NAN
    if c.func in ("nanmin", "nanmax") and mc == 0:
        mc = 1
        if fill is None:
            fill = NAN
    return mc, fill


def run_oracle(c: PCase):
    """dict(kind='ok', shape=(kept dims..., G), groups, vals=flat list (None = undefined)) or kind='err'"""
    ax = norm_axis(c)
    nd = len(c.shape)
    if ax is None or any(a < nd - c.by_ndim for a in ax):
        return dict(kind="err", err="ValueError")
    arr = np_array(c)
    if arr.dtype.kind == "b" and c.func not in ("any", "all"):
        arr = arr.astype("int64")
    lab = np.array([np.nan if l is None else float(l) for l in c.labels]).reshape(c.by_shape)
    lab = np.broadcast_to(lab, arr.shape)
    present = sorted({l for l in c.labels if l is not None})
    groups = sorted(c.expected) if c.expected is not None else present
    mc, fill = effective(c, len(ax))
    kept = [d for d in range(nd) if d not in ax]
    red = sorted(ax)
    out_shape = tuple(c.shape[d] for d in kept) + (len(groups),)
    out = []
    for kidx in itertools.product(*[range(c.shape[d]) for d in kept]):
        sl = [slice(None)] * nd
        for d, i in zip(kept, kidx):
            sl[d] = i
        sv = arr[tuple(sl)].reshape(-1)          # the slice, reduced dims in array order, flattened
        slab = lab[tuple(sl)].reshape(-1)
        for g in groups:
            pos = np.flatnonzero(slab == g)
            ms = sv[pos]
            if len(ms) == 0:
                if fill is None:
                    return dict(kind="err", err="ValueError")
                out.append(fill)
                continue
            nvalid = int(np.sum(~np.isnan(ms))) if ms.dtype.kind == "f" else len(ms)
            if nvalid < mc:
                if fill is None:
                    return dict(kind="err", err="ValueError")
                out.append(fill)
                continue
            out.append(np_reduce(c.func, ms, pos, c.ddof))
    return dict(kind="ok", shape=out_shape, groups=groups, vals=out, red=red, kept=kept)


def in_domain(c: PCase, members: list) -> bool:
    isn = [isinstance(v, float) and math.isnan(v) for v in members]
    if c.func in ("argmax", "argmin") and any(isn):
        return False
    if c.func in ("nanargmax", "nanargmin") and members and all(isn):
        return False
    return True


# ----------------------------------------------------------------------------------------------
# comparisons


def cmp_mode(c: PCase) -> str:
    return APPROX.get(c.func, "exact")


def _isnan(x):
    try:
        return math.isnan(float(x))
    except Exception:
        return False


def _close(mode, fo, fi):
    if mode == "exact" or fo == fi or math.isinf(fo) or math.isinf(fi):
        return fo == fi
    if mode == "rounded":
        return abs(fo - fi) <= 4 * math.ulp(fo)
    return abs(fo - fi) <= 1e-9 + 1e-9 * abs(fo)


def cmp_impl_oracle(c: PCase, impl: dict, oracle: dict) -> str | None:
    """the property itself: shape (kept dims in order, group axis last) and every slot = NumPy on the slice"""
    if oracle["kind"] == "err":
        if impl["kind"] == "err" and impl["err"] == "ValueError":
            return None
        if impl["kind"] == "err":
            return f"impl raised {impl['err']}: {impl.get('msg', '')}"
        return None
    if impl["kind"] == "err":
        return f"impl raised {impl['err']} at {impl['phase']}: {impl.get('msg', '')}"
    v = np.asarray(impl["vals"])
    if tuple(v.shape) != tuple(oracle["shape"]):
        return f"shape differs: impl {tuple(v.shape)} oracle {tuple(oracle['shape'])}"
    ann = impl.get("plan", {}).get("announced_shape")
    if ann is not None and tuple(ann) != tuple(v.shape):
        return f"announced lazy shape {tuple(ann)} differs from computed shape {tuple(v.shape)}"
    g_i = [float(x) for x in np.asarray(impl["groups"]).reshape(-1)]
    if g_i != [float(x) for x in oracle["groups"]]:
        return f"labels differ: impl {g_i} oracle {oracle['groups']}"
    mode = cmp_mode(c).replace("sqrt", "approx")
    flat = v.reshape(-1)
    for j, (ov, iv) in enumerate(zip(oracle["vals"], flat)):
        if ov is None:
            continue
        if c.func in ARG and not slot_in_domain(c, oracle, j):
            continue
        if _isnan(ov):
            ok = _isnan(iv)
        else:
            try:
                ok = _close(mode, float(ov), float(iv))
            except Exception:
                ok = False
        if not ok:
            return f"slot {j} (index {np.unravel_index(j, oracle['shape'])}): impl {iv!r} oracle {ov!r}"
    return None


def slot_in_domain(c: PCase, oracle: dict, j: int) -> bool:
    nd = len(c.shape)
    idx = np.unravel_index(j, oracle["shape"])
    arr = np_array(c)
    lab = np.broadcast_to(np.array([np.nan if l is None else float(l) for l in c.labels]).reshape(c.by_shape), arr.shape)
    sl = [slice(None)] * nd
    for d, i in zip(oracle["kept"], idx[:-1]):
        sl[d] = i
    sv = arr[tuple(sl)].reshape(-1)
    slab = lab[tuple(sl)].reshape(-1)
    g = oracle["groups"][idx[-1]]
    return in_domain(c, [float(x) for x in sv[slab == g]])


# ----------------------------------------------------------------------------------------------
# model line and its output


def model_line(c: PCase, plan: dict) -> str | None:
    dt = np.dtype(c.dtype)
    dk = DKIND[dt.name]
    if dt.kind == "b" and c.func not in ("any", "all"):
        dk = "i8"
    eng = c.engine or plan.get("engine") or plan.get("chosen_engine") or "numpy"
    if c.expected is None:
        return None
    if c.axis is None:
        ax = "-"
    elif isinstance(c.axis, int):
        ax = f"i{c.axis}"
    else:
        ax = ",".join(str(a) for a in c.axis)
    chunks = "-" if c.chunks is None else ";".join(",".join(str(x) for x in ch) for ch in c.chunks)
    head = (
        f"partial func={c.func} dk={dk} fill={'-' if c.fill is None else core.tok(c.fill)} "
        f"minc={'-' if c.min_count is None else c.min_count} ddof={c.ddof} eng={ENGINE_CLASS[eng]} "
        f"expected={core.toks(c.expected)} float={1 if dt.kind == 'f' else 0} "
        f"shape={','.join(map(str, c.shape))} byndim={c.by_ndim} axis={ax} chunks={chunks} "
        f"method={(plan.get('method') or '-') if c.chunks is not None else '-'}"
    )
    arr = np_array(c)
    if arr.dtype.kind == "b" and c.func not in ("any", "all"):
        arr = arr.astype("int64")
    return head + " | " + core.toks(c.labels) + " | " + core.toks(arr.reshape(-1).tolist())


def parse_outcome(s: str):
    s = s.strip()
    if s.startswith("ok "):
        shp, _, v = s[3:].partition("|")
        shape = tuple(int(x) for x in shp.strip().split(",") if x != "")
        return dict(kind="ok", shape=shape, vals=[x for x in v.strip().split(",") if x != ""])
    if s.startswith("err "):
        return dict(kind="err", err=s[4:].strip())
    return dict(kind="unsupported", why=s)


def parse_model_output(line: str):
    """'model <outcome> ; chunked <outcome> ; spec <outcome>'"""
    if not line.startswith("model "):
        bad = dict(kind="bad", why=line)
        return bad, bad, bad
    m, _, rest = line[6:].partition(" ; chunked ")
    ch, _, s = rest.partition(" ; spec ")
    return parse_outcome(m), parse_outcome(ch), parse_outcome(s)


def fill_tokens(c: PCase):
    out = {"nan"}
    if c.fill is not None:
        out.add(core.tok(c.fill))
    return out


def cmp_impl_model(c: PCase, impl: dict, model: dict) -> str | None:
    if model["kind"] in ("unsupported", "bad"):
        return None if model["kind"] == "unsupported" else f"driver answered {model['why']}"
    if impl["kind"] == "err":
        if model["kind"] == "err" and model["err"] == impl["err"]:
            return None
        return f"impl raised {impl['err']} ({impl.get('msg', '')}) but model gives {model}"
    if model["kind"] == "err":
        return f"model raises {model['err']} but impl returned values"
    v = np.asarray(impl["vals"])
    if tuple(v.shape) != tuple(model["shape"]):
        return f"shape differs: impl {tuple(v.shape)} model {tuple(model['shape'])}"
    mode = cmp_mode(c)
    flat = list(v.reshape(-1))
    if len(flat) != len(model["vals"]):
        return f"size differs: impl {len(flat)} model {len(model['vals'])}"
    orc = None
    for j, (a, b) in enumerate(zip(model["vals"], flat)):
        if c.func in ARG:
            orc = orc or run_oracle(c)
            if orc["kind"] == "ok" and not slot_in_domain(c, orc, j):
                continue
        if mode.startswith("sqrt") and a in fill_tokens(c) and core.same_value(a, b, "exact"):
            continue
        if not core.same_value(a, b, mode):
            return f"value differs at slot {j}: model {a} impl {b!r}"
    return None


def cmp_oracle_spec(c: PCase, oracle: dict, spec: dict) -> str | None:
    if spec["kind"] in ("unsupported", "bad"):
        return None if spec["kind"] == "unsupported" else f"driver answered {spec['why']}"
    if oracle["kind"] == "err" or spec["kind"] == "err":
        if oracle["kind"] == spec["kind"]:
            return None
        return f"oracle {oracle['kind']} vs spec {spec['kind']}"
    if tuple(oracle["shape"]) != tuple(spec["shape"]):
        return f"shape: oracle {oracle['shape']} spec {spec['shape']}"
    mode = cmp_mode(c)
    if len(oracle["vals"]) != len(spec["vals"]):
        return "length differs"
    for j, (a, b) in enumerate(zip(spec["vals"], oracle["vals"])):
        if b is None:
            continue
        if c.func in ARG and not slot_in_domain(c, oracle, j):
            continue
        if mode.startswith("sqrt") and a in fill_tokens(c) and core.same_value(a, b, "exact"):
            continue
        if not core.same_value(a, b, mode):
            return f"slot {j}: spec {a} oracle {b!r}"
    return None


# ----------------------------------------------------------------------------------------------
# generators

ALPHA = [-3, -2, -1, 0, 1, 2, 3, 5]


def gen_vals(rng: random.Random, n: int, dtype: str, stream: str):
    dt = np.dtype(dtype)
    if dt.kind == "b":
        return [rng.random() < 0.5 for _ in range(n)]
    if dt.kind == "i":
        return [rng.choice(ALPHA) for _ in range(n)]
    out = []
    for _ in range(n):
        r = rng.random()
        if stream == "nan" and r < 0.3:
            out.append(NAN)
        elif stream == "mixed" and r < 0.3:
            out.append(rng.choice([NAN, NAN, INF, -INF]))
        else:
            out.append(float(rng.choice(ALPHA)))
    return out


def gen_labels_uneven(rng: random.Random, by_shape: list, ngroups: int, expected: list):
    """labels whose missing entries / absent groups are spread unevenly over the slices: every index of the first
    label dim gets its own missing-rate and its own subset of groups"""
    n = math.prod(by_shape)
    lab = np.empty(by_shape, dtype=object)
    flat_rows = by_shape[0]
    per_row = []
    for _ in range(flat_rows):
        k = rng.randint(0, len(expected))
        per_row.append((rng.choice([0.0, 0.0, 0.3, 0.7, 1.0]), rng.sample(expected, k) if k else []))
    extra = [max(expected) + 1] if rng.random() < 0.3 else []     # a label outside expected_groups
    it = np.nditer(np.zeros(by_shape), flags=["multi_index"])
    for _ in it:
        idx = it.multi_index
        miss, pool = per_row[idx[0]]
        if rng.random() < miss or not (pool or extra):
            lab[idx] = None
        else:
            lab[idx] = rng.choice(pool + extra)
    return [lab[idx] for idx in np.ndindex(*by_shape)] if n else []


def gen_chunks_dim(rng: random.Random, n: int):
    kind = rng.choice(["single", "ones", "random", "random"])
    if kind == "single":
        return [n]
    if kind == "ones":
        return [1] * n
    out, left = [], n
    while left > 0:
        k = rng.randint(1, min(left, 3))
        out.append(k)
        left -= k
    return out


def axis_variants(nd: int, by_ndim: int):
    """every non-empty subset of the label dims, in every order, in every sign pattern (as lists), plus ints"""
    dims = list(range(nd - by_ndim, nd))
    out = []
    for r in range(1, len(dims) + 1):
        for sub in itertools.combinations(dims, r):
            for perm in itertools.permutations(sub):
                for signs in itertools.product([0, 1], repeat=r):
                    out.append([a - nd if s else a for a, s in zip(perm, signs)])
    for d in dims:
        out.append(d)
        out.append(d - nd)
    return out
