"""C19 — unsupported requests are refused cleanly; the auto plan works wherever map-reduce does.

The check enumerates configuration cells of `flox.groupby_reduce` on tiny inputs (harness/c19_cells.py), runs the real
flox (graph construction, then compute), and
  tie 1   compares what the real code did at call time (exception class, or the plan handed to `dask_groupby_agg`:
          method / reindex.blockwise / engine) with the Lean model `Decisions.validate` of the validation chain;
  tie 2   compares an independent Python judgement of every group of outcomes with the Lean specification
          `Spec19.violations`;
  direct  reports every clause of the property that fails on the real code (internal error, wrong answer w.r.t. the
          NumPy oracle, auto plan failing or differing where map-reduce succeeds, cohorts / blockwise neither matching
          nor refused).
"""
from __future__ import annotations

import itertools
import random

from . import core
from . import c19_cells as cc
from .framework import Prop, Report

CLEAN = set(cc.CLEAN)
VALIDATION_FUNCS = ("groupby_reduce", "_validate_reindex", "_choose_method", "_assert_by_is_aligned",
                    "_validate_expected_groups", "dask_groupby_agg")


# ------------------------------------------------------------------------------------------------
# generation

def all_groups():
    for (f, dt), e, r, bd, (lnd, vnd, ax), ex, lay in itertools.product(
            cc.REDUCTIONS, cc.ENGINES, cc.REINDEX, cc.BYDASK, cc.SHAPES, cc.EXPECTED, cc.LAYOUTS):
        yield dict(func=f, dtype=dt, engine=e, reindex=r, bydask=bd, lnd=lnd, vnd=vnd, axis=ax, expected=ex, layout=lay)


def extras_groups(rng: random.Random, n: int):
    """requests outside the main product: dtype= given, quantile without q, misaligned shapes, axis beyond the labels"""
    out = []
    # "npvalues": in-memory values grouped by chunked labels (has_dask holds through the labels only)
    kinds = ["dtype", "noq", "misaligned", "axis-toomany", "axis-outside", "npvalues", "npvalues"]
    for i in range(n):
        k = kinds[i % len(kinds)]
        f, dt = rng.choice(cc.REDUCTIONS)
        if k == "noq":
            f, dt = "quantile", "f8"
        lnd, vnd, ax = rng.choice([s for s in cc.SHAPES if s[1] > s[0]] if k.startswith("axis-") else cc.SHAPES)
        g = dict(func=f, dtype=dt, engine=rng.choice(cc.ENGINES), reindex=rng.choice(cc.REINDEX),
                 bydask=rng.choice(cc.BYDASK), lnd=lnd, vnd=vnd, axis=ax, expected=rng.choice(cc.EXPECTED),
                 layout=rng.choice(cc.LAYOUTS), extra=k)
        if k == "npvalues":
            g["bydask"] = True
            g["expected"] = True
            g["layout"] = rng.choice([l for l in cc.LAYOUTS if l != "eager"])
            if i % 2:
                g["func"], g["dtype"] = rng.choice([r for r in cc.REDUCTIONS if r[0] in cc.ARG or r[0] in cc.FIRSTLAST])
        out.append(g)
    # in-memory values x chunked labels, systematically: one group per (representative reduction, shape/axis)
    # values and labels chunked differently (values in one block, lazy labels in the layout's blocks): every guard that counts
    # blocks must count them after the chunks have been unified
    for (f, dt), (lnd, vnd, ax), lay in itertools.product([r for r in cc.REDUCTIONS if r[0] in ("sum", "nanmax", "argmax", "median")],
                                                         cc.SHAPES, ["sorted", "periodic", "cohorts"]):
        if rng.random() < 0.5:
            out.append(dict(func=f, dtype=dt, engine=rng.choice(cc.ENGINES), reindex=rng.choice(cc.REINDEX), bydask=True, lnd=lnd,
                            vnd=vnd, axis=ax, expected=True, layout=lay, extra="diffchunks"))
    reps = [r for r in cc.REDUCTIONS if r[0] in ("argmax", "nanargmin", "first", "nanlast", "sum", "median")]
    for (f, dt), (lnd, vnd, ax) in itertools.product(reps, cc.SHAPES):
        out.append(dict(func=f, dtype=dt, engine=rng.choice(cc.ENGINES), reindex=rng.choice(cc.REINDEX), bydask=True, lnd=lnd,
                        vnd=vnd, axis=ax, expected=True, layout=rng.choice([l for l in cc.LAYOUTS if l != "eager"]),
                        extra="npvalues"))
    return out


def thorough_groups(rng: random.Random, k: int = 6):
    """full product of reduction x reindex x label kind x expected x layout (x the four methods), each crossed with k of
    the 56 (shape/axis, engine) pairs taken from a seeded cyclic schedule, so that every pair meets every value of every
    other factor"""
    pairs = [(s, e) for s in cc.SHAPES for e in cc.ENGINES]
    rng.shuffle(pairs)
    out = []
    i = 0
    for (f, dt), r, bd, ex, lay in itertools.product(cc.REDUCTIONS, cc.REINDEX, cc.BYDASK, cc.EXPECTED, cc.LAYOUTS):
        for j in range(k):
            (lnd, vnd, ax), e = pairs[(i * k + j) % len(pairs)]
            out.append(dict(func=f, dtype=dt, engine=e, reindex=r, bydask=bd, lnd=lnd, vnd=vnd, axis=ax, expected=ex, layout=lay))
        i += 1
    return out


def _init_worker():
    import warnings

    warnings.filterwarnings("ignore")


def evaluate(groups, workers: int):
    if workers <= 1 or len(groups) < 200:
        return [cc.eval_group(g) for g in groups]
    import multiprocessing as mp
    from concurrent.futures import ProcessPoolExecutor

    with ProcessPoolExecutor(max_workers=workers, mp_context=mp.get_context("spawn"), initializer=_init_worker) as ex:
        return list(ex.map(cc.eval_group, groups, chunksize=25))


# ------------------------------------------------------------------------------------------------
# judgement (Python side, independent of Lean)

def outcome_section(rec, use) -> str:
    """protocol text of one outcome for `c19judge`"""
    if not use:
        return "notrun"
    if rec["kind"] == "err":
        return "raised " + ",".join(rec["mro"])
    return "ok " + ",".join(rec["tokens"]) if rec["tokens"] else "ok"


def py_clean(rec) -> bool:
    return rec["kind"] == "ok" or rec["err"] in CLEAN


def py_judge(res) -> list[tuple[str, dict]]:
    """[(violated clause, offending cell record)] — written from the property text, using the NumPy comparison
    (tolerance 1e-9) rather than the tokens"""
    by = {r["cell"]["method"]: r for r in res["cells"]}
    used = {m: r for m, r in by.items() if not (m == "blockwise" and not r.get("pre", True))}
    name = {None: "auto", "map-reduce": "map-reduce", "cohorts": "cohorts", "blockwise": "blockwise"}
    out = []
    for m in (["map-reduce", None, "cohorts", "blockwise"]):
        if m in used and not py_clean(used[m]):
            out.append(("internal-error:" + name[m], used[m]))
    for m in (["map-reduce", None, "cohorts", "blockwise"]):
        if m in used and res["oracle"] == "ok" and used[m]["kind"] == "ok" and used[m].get("diff"):
            out.append(("wrong-answer:" + name[m], used[m]))
    mr = used.get("map-reduce")
    if mr is not None and mr["kind"] == "ok":
        au = used.get(None)
        if au is not None:
            if au["kind"] != "ok":
                out.append(("auto-fails-where-map-reduce-succeeds", au))
            elif not same_tokens(mr, au):
                out.append(("auto-differs-from-map-reduce", au))
        for m in ("cohorts", "blockwise"):
            o = used.get(m)
            if o is None:
                continue
            if o["kind"] == "ok" and not same_tokens(mr, o):
                out.append((m + "-neither-matches-nor-refused", o))
            if o["kind"] == "err" and not py_clean(o):
                out.append((m + "-neither-matches-nor-refused", o))
    return out


def same_tokens(a, b) -> bool:
    import math

    ta, tb = a["tokens"], b["tokens"]
    if len(ta) != len(tb):
        return False
    for x, y in zip(ta, tb):
        if x == y:
            continue
        try:
            fx, fy = float(x), float(y)
        except ValueError:
            return False
        if not (math.isclose(fx, fy, rel_tol=1e-9, abs_tol=1e-9)):
            return False
    return True


# ------------------------------------------------------------------------------------------------
# tie 1: the real call-time behaviour vs the Lean model of the validation chain

def cmp_model(rec, mline: str) -> str | None:
    if mline.startswith("bad-op"):
        return "driver: " + mline
    plan = rec["plan"]
    if mline.startswith("err "):
        want = mline[4:].strip()
        if rec["kind"] == "err" and rec["phase"] == "call" and rec["err"] == want:
            return None
        if (rec.get("cell", {}).get("extra") == "diffchunks" and rec["kind"] == "err" and rec["phase"] == "call"
                and rec["err"] in CLEAN and want in CLEAN):
            # values and labels chunked differently: flox's guards count blocks partly before and partly after unifying the
            # chunks, the model has one block count - which of the two clean refusals fires first is not modelled
            return None
        got = f"{rec['err']} at {rec['phase']} in {rec['where']}" if rec["kind"] == "err" else "success"
        return f"model predicts {want} at call time, flox gave {got}"
    kv = dict(t.split("=", 1) for t in mline.split()[1:])
    if plan.get("method") is not None:
        # the real code reached graph construction: compare the resolved plan
        got = dict(method=plan["method"], reindex={None: "none", True: "true", False: "false"}[plan.get("reindex")],
                   engine=str(plan.get("engine")))
        if kv != got:
            return f"model resolves {kv}, flox handed {got} to dask_groupby_agg"
        return None
    if rec["kind"] == "err" and rec["phase"] == "call":
        fn = rec["where"].split(":")[-1]
        guard = fn in VALIDATION_FUNCS and rec["err"] in CLEAN and "requires that all members" not in rec["msg"]
        if guard and any(s.split(":")[2] == "raise" and s.split(":")[3].split(".")[-1] in VALIDATION_FUNCS for s in rec["sites"][-1:]):
            return f"model accepts the request ({mline}) but flox refused it in {rec['where']}: {rec['err']} {rec['msg'][:80]}"
        return None
    if kv["method"] != "eager" and rec["kind"] == "ok" and plan.get("lazy"):
        return f"model resolves {kv} but dask_groupby_agg was never reached"
    if kv["method"] == "eager" and plan.get("chosen_engine") is not None and plan["chosen_engine"] != kv["engine"]:
        return f"model chooses engine {kv['engine']}, flox chose {plan['chosen_engine']}"
    return None


# ------------------------------------------------------------------------------------------------

class C19(Prop):
    id = "C19"
    lean_module = "FloxProps.C19"
    level = "proof"
    rule = ("configuration cells of groupby_reduce on canonical inputs of <= 8 elements: reduction (sum, nanmax, mean[int], var, "
            "count, argmax, nanargmin, first, nanfirst, nanlast[int], median, quantile, any[bool]) x engine (None, numpy, flox, "
            "numbagg) x method (None, map-reduce, cohorts, blockwise) x reindex (None, True, False) x labels numpy/dask x "
            "(label ndim, value ndim, axis) in 14 combinations (1-D/2-D labels, 1-D..3-D values, axis None/last/first/all) x "
            "expected_groups given (+fill_value) or not x layout (in-memory, single block, sorted runs in 3-4 blocks, periodic, "
            "cohort-friendly, no requested label present, all labels missing; split_every=2 so that trees are >= 2 levels); "
            "quick: seeded sample of 320 groups x 4 methods + 84 extras (dtype=, quantile without q, misaligned shapes, axis beyond / outside the label dims, in-memory values with chunked labels; the latter also for 6 representative reductions x all 14 shape/axis options); thorough: full product of "
            "reduction x method x reindex x label kind x expected x layout, each crossed with 5 (shape/axis, engine) pairs of a "
            "seeded cyclic schedule covering all 56 pairs (21 840 cells) + 350 extras; each cell is called, then computed on "
            "the synchronous scheduler; non-trivial = reached the compute phase or was refused; distinct = distinct cell keys")
    assumptions = [
        "arg-reductions over several label dimensions: the reference is flox's in-memory convention (position along the last reduced axis)",
        "method='blockwise' is judged only on inputs meeting its documented precondition (every group inside one block; 1-D labels: sequential runs)",
        "slots for which NumPy defines no value (all-NaN group of nanarg*, default fill of empty groups without fill_value) are not compared",
    ]

    def groups_for(self, rng, tier, search):
        if tier == "quick" and not search:
            allg = list(all_groups())
            return rng.sample(allg, 320) + extras_groups(rng, 84)
        if tier == "quick":
            allg = list(all_groups())
            return rng.sample(allg, 900) + extras_groups(rng, 140)
        return thorough_groups(rng, 5) + extras_groups(rng, 350)

    def run(self, rng, tier, rep: Report, search=False):
        groups = self.groups_for(rng, tier, search)
        workers = 1 if tier == "quick" and not search else 4
        self.run_groups(groups, rep, workers)

    def run_groups(self, groups, rep: Report, workers=1):
        results = evaluate(groups, workers)
        lines = []
        for res in results:
            for rec in res["cells"]:
                lines.append(rec["line"])
            by = {r["cell"]["method"]: r for r in res["cells"]}
            ref = ("ok " + ",".join(res["oracle_tokens"])) if res["oracle"] == "ok" else "notrun"
            secs = [ref]
            for m in ("map-reduce", None, "cohorts", "blockwise"):
                r = by.get(m)
                secs.append("notrun" if r is None else outcome_section(r, not (m == "blockwise" and not r.get("pre", True))))
            lines.append("c19judge | " + " | ".join(secs))
        outs = core.Driver().run(lines)
        k = 0
        sites_hit = rep.extra.setdefault("assert_raise_sites_hit", {})
        for res in results:
            for rec in res["cells"]:
                mline = outs[k]
                k += 1
                c = rec["cell"]
                rep.evaluations += 1
                rep.keys.add(cc.cell_key(c))
                rep.dist["method:" + str(c["method"])] += 1
                rep.dist["func:" + c["func"]] += 1
                rep.dist["engine:" + str(c["engine"])] += 1
                rep.dist["layout:" + c["layout"]] += 1
                rep.dist[f"shape:by{c['lnd']}d-arr{c['vnd']}d-axis={c['axis']}"] += 1
                rep.dist["reindex:" + str(c["reindex"])] += 1
                rep.dist["labels:" + ("dask" if c["bydask"] else "numpy")] += 1
                if c.get("extra"):
                    rep.dist["extra:" + c["extra"]] += 1
                oc = "ok" if rec["kind"] == "ok" else f"{rec['err']}@{rec['phase']}"
                rep.dist["outcome:" + oc] += 1
                rep.dist["model:" + " ".join(mline.split()[:2])] += 1
                if rec["plan"].get("method"):
                    rep.dist[f"plan:{rec['plan']['method']}/reindex={rec['plan'].get('reindex')}/{rec['plan'].get('engine')}"] += 1
                if c["method"] == "blockwise" and not rec.get("pre", True):
                    rep.dist["blockwise:outside-precondition(not judged)"] += 1
                for s in rec.get("sites", []):
                    sites_hit[s] = sites_hit.get(s, 0) + 1
                # (an axis outside the label dimensions is not expressible in the model's nax / ndim abstraction)
                d1 = None if c.get("extra") == "axis-outside" else cmp_model(rec, mline)
                if d1:
                    rep.tie1.append((self.case_of(rec), d1))
            jline = outs[k]
            k += 1
            pj = py_judge(res)
            lean_set = set(jline.split(" ", 1)[1].split(",")) if jline.startswith("violated ") else set()
            if not (jline == "holds" or jline.startswith("violated ")):
                rep.tie2.append((res["group"], "driver: " + jline))
            elif lean_set != {cl for cl, _ in pj}:
                rep.tie2.append((res["group"], f"Python judge {sorted({cl for cl, _ in pj})} vs Lean spec {sorted(lean_set)}"))
            rep.dist["group:" + ("holds" if not pj else "violated")] += 1
            seen = set()
            for clause, rec in pj:
                key = (cc.cell_key(rec["cell"]), clause.split(":")[0])
                if key in seen:
                    continue
                seen.add(key)
                rep.direct.append((self.case_of(rec), self.describe(clause, rec)))
            if len(rep.samples) < 6 and any(r["kind"] == "ok" for r in res["cells"]):
                rep.add_sample({"group": res["group"], "outcomes": {str(r["cell"]["method"]): (r["tokens"] if r["kind"] == "ok" else f"{r['err']}@{r['phase']}: {r['msg'][:60]}") for r in res["cells"]},
                                "oracle": res.get("oracle_tokens"), "lean_judge": jline})
        rep.extra["inventory_sites_total"] = len(cc.flox_sites())

    @staticmethod
    def case_of(rec) -> dict:
        d = dict(rec["cell"])
        d["_outcome"] = "ok" if rec["kind"] == "ok" else f"{rec['err']}@{rec['phase']}"
        if rec["kind"] == "err":
            d["_where"] = rec["where"]
            d["_message"] = rec["msg"]
        d["_plan"] = {k: v for k, v in rec["plan"].items()}
        return d

    @staticmethod
    def describe(clause, rec) -> str:
        if rec["kind"] == "err":
            return f"{clause}: {rec['err']} at {rec['phase']} time in {rec['where']}: {rec['msg']}"
        return f"{clause}: {rec.get('diff') or 'values ' + ','.join(rec['tokens'])}"

    def replay(self, payload, rep: Report):
        case = payload["case"]
        g = {k: case[k] for k in cc.GROUP_FACTORS}
        if case.get("extra"):
            g["extra"] = case["extra"]
        self.run_groups([g], rep, 1)

    def match_finding(self, finding, case, detail) -> bool:
        from . import findings

        pred = findings.PREDICATES.get(finding["id"])
        return bool(pred and pred(case, detail))

    def check_finding_still_fails(self, finding):
        w = finding.get("witness")
        if not w or w.get("op") != "c19cell":
            return None
        case = w["case"]
        g = {k: case[k] for k in cc.GROUP_FACTORS}
        if case.get("extra"):
            g["extra"] = case["extra"]
        rep = Report()
        self.run_groups([g], rep, 1)
        return any(self.match_finding(finding, c, d) for c, d in rep.direct)
