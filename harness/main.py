import sys

from .framework import run_check


def registry():
    from . import props_reduce as pr

    return {"C01": pr.C01, "C02": pr.C02, "C03": pr.C03, "C05": pr.C05, "C06": pr.C06, "C16": pr.C16, "C20": pr.C20}


def main():
    if len(sys.argv) < 2:
        print("usage: check <PROPERTY-ID> [--tier quick|thorough] [--seed N] [--replay path]")
        return 2
    pid = sys.argv[1]
    reg = registry()
    if pid not in reg:
        print(f"unknown property {pid}")
        return 2
    return run_check(reg[pid](), sys.argv[2:])


if __name__ == "__main__":
    sys.exit(main())
