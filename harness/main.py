import importlib
import sys

from .framework import run_check

# property id -> "module:Class" (module relative to the harness package)
PROPS = {
    "C14": "props_state:C14",
    "C19": "props_c19:C19",
    "C15": "props_xarray:C15",
    "C11": "props_dtypes:C11",
    "C07": "props_multibin:C07",
    "C13": "props_purity:C13",
    "C09": "props_cohorts:C09",
    "C12": "props_lazy:C12",
    "C04": "props_decomp:C04",
    "C08": "props_partial:C08",
    "C17": "props_rechunk:C17",
    "C10": "props_scan:C10",
    "C18": "props_quantile:C18",
    "C01": "props_reduce:C01",
    "C02": "props_reduce:C02",
    "C03": "props_reduce:C03",
    "C05": "props_reduce:C05",
    "C06": "props_reduce:C06",
    "C16": "props_reduce:C16",
    "C20": "props_reduce:C20",
}


def main():
    if len(sys.argv) < 2:
        print("usage: check <PROPERTY-ID> [--tier quick|thorough] [--seed N] [--replay path]")
        return 2
    pid = sys.argv[1]
    if pid not in PROPS:
        print(f"unknown property {pid}")
        return 2
    mod, cls = PROPS[pid].split(":")
    prop = getattr(importlib.import_module("." + mod, __package__), cls)()
    return run_check(prop, sys.argv[2:])


if __name__ == "__main__":
    sys.exit(main())
