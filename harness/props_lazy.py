"""C12 – graph construction is lazy; labels found at compute time give the same mapping as the eager computation.

Two streams.

(A) `lazy` – laziness is a runtime fact, it is OBSERVED.  `flox.groupby_reduce`, `flox.groupby_scan` and
    `flox.xarray.xarray_reduce` are called with dask arrays whose every chunk RAISES (and counts) when evaluated – the
    values always, the labels when they are chunked – under a dask scheduler that raises (and counts) when invoked
    (`dask.config.set(scheduler=…)` plus every entry of `dask.base.named_schedulers`).  Checked per call:
      * no chunk was evaluated and no scheduler was invoked while the API call ran;
      * the call either refuses with a documented exception (ValueError / NotImplementedError) or returns a LAZY
        result (a dask collection; for xarray every variable that was chunked on input is dask-backed);
      * the returned group labels are in-memory (numpy / pandas: labels were known) or lazy (dask);
      * (self-check of the probe, counted in the distribution) computing the returned object afterwards does reach the
        poisoned chunks.
(B) `unknown` – dask labels WITHOUT expected_groups, real data: the pair (groups.compute(), result.compute()) read as a
    label -> value mapping equals the mapping of the eager computation (the same call on the in-memory arrays) – the
    property itself (`direct`); it also equals the Lean model `runUnknown` (driver op `reduce`, known=0: tie 1) and the
    NumPy-per-group oracle equals the Lean specification (tie 2).  2-D labels are compared with the eager call only.
"""
from __future__ import annotations

import contextlib
import itertools
import math
import random
import warnings
from dataclasses import asdict, dataclass, field

import numpy as np

from . import core
from . import reduce_ops as ro
from .framework import Prop, Report

warnings.filterwarnings("ignore")

NAN = float("nan")

RED_FUNCS = ro.REDUCTIONS + ["median", "nanmedian", "quantile", "nanquantile", "mode", "nanmode"]
BLOCKWISE_ONLY = {"median", "nanmedian", "quantile", "nanquantile", "mode", "nanmode", "first", "last"}
SCAN_FUNCS = ["nancumsum", "ffill", "bfill"]
METHODS = [None, "map-reduce", "cohorts", "blockwise"]
ENGINES = [None, "numpy", "flox", "numbagg", "numba"]
REINDEX = [None, True, False]
DTYPES = ["float64", "int64", "bool", "float32", "datetime64[ns]"]

# ----------------------------------------------------------------------------------------------
# instrumentation: poisoned chunks + forbidden schedulers

COUNT = {"chunk": 0, "sched": 0}


class Poison(Exception):
    """raised when a chunk is evaluated / a scheduler is invoked during graph construction"""


def _poison_chunk(*idx):
    COUNT["chunk"] += 1
    raise Poison(f"chunk {idx} evaluated")


def _forbidden_get(dsk, keys, **kwargs):
    COUNT["sched"] += 1
    raise Poison("scheduler invoked")


_serial = itertools.count()


def poison_array(shape, chunks, dtype, tag="a"):
    """a dask array (right shape / chunks / dtype / meta) whose every chunk raises when it is evaluated"""
    import dask.array as da
    from dask.array.core import normalize_chunks

    chunks = normalize_chunks(tuple(tuple(c) for c in chunks), tuple(shape))
    name = f"poison-{tag}-{next(_serial)}"
    dsk = {(name,) + idx: (_poison_chunk,) + idx for idx in itertools.product(*[range(len(c)) for c in chunks])}
    return da.Array(dsk, name, chunks, meta=np.empty((0,) * len(shape), dtype=np.dtype(dtype)))


@contextlib.contextmanager
def forbid_compute():
    import dask
    import dask.base

    saved = dict(dask.base.named_schedulers)
    for k in list(dask.base.named_schedulers):
        dask.base.named_schedulers[k] = _forbidden_get
    try:
        with dask.config.set(scheduler=_forbidden_get):
            yield
    finally:
        dask.base.named_schedulers.clear()
        dask.base.named_schedulers.update(saved)


def self_test():
    """the probe itself: a poisoned array does raise + count under a real scheduler, and any conversion of a lazy
    array raises + counts under the forbidden scheduler"""
    import dask
    import dask.array as da
    from dask.local import get_sync

    p = poison_array((4,), ((2, 2),), "float64", "self")
    COUNT.update(chunk=0, sched=0)
    try:
        dask.compute(p, scheduler=get_sync)
        raise RuntimeError("self-test: poisoned array computed without raising")
    except Poison:
        pass
    if COUNT["chunk"] < 1:
        raise RuntimeError("self-test: poisoned chunk not counted")
    good = da.from_array(np.arange(4.0), chunks=2)
    for conv in (np.asarray, lambda x: bool((x > 0).any()), lambda x: x.compute(), lambda x: x.compute(scheduler="sync"),
                 lambda x: dask.compute(x, scheduler="threads"), lambda x: x.persist()):
        COUNT.update(chunk=0, sched=0)
        try:
            with forbid_compute():
                conv(good)
            raise RuntimeError("self-test: conversion under the forbidden scheduler did not raise")
        except Poison:
            pass
        if COUNT["sched"] < 1:
            raise RuntimeError("self-test: scheduler invocation not counted")
    COUNT.update(chunk=0, sched=0)
    if float(good.sum().compute(scheduler="sync")) != 6.0:
        raise RuntimeError("self-test: schedulers not restored")


# ----------------------------------------------------------------------------------------------
# laziness cases


@dataclass
class LCase:
    api: str                        # reduce | scan | xarray
    func: str
    dtype: str = "float64"
    shape: list = field(default_factory=lambda: [12])
    chunks: list = field(default_factory=lambda: [[4, 4, 4]])     # per axis
    by_ndim: int = 1
    by_dask: bool = False
    by_chunks: list | None = None   # None = like the trailing axes of the values
    labels: list = field(default_factory=list)   # row-major over shape[-by_ndim:], None = missing (NaN)
    expected: list | None = None
    method: str | None = None
    engine: str | None = None
    reindex: bool | None = None
    fill: object = None
    min_count: int | None = None
    sort: bool = True
    axis: list | None = None        # reduce: None = all dims of `by`
    q: object = None                # quantile
    xr: str | None = None           # xarray flavour: da | ds | ds-mixed
    dim: object = None              # xarray: None | name | "..."
    skipna: bool | None = None
    stream: str = ""
    kind: str = "lazy"

    def key(self):
        d = asdict(self)
        d.pop("stream")
        return core.case_hash(d)


def _np_labels(c: LCase):
    shp = tuple(c.shape[-c.by_ndim:])
    if any(l is None for l in c.labels):
        a = np.array([NAN if l is None else float(l) for l in c.labels], dtype="float64")
    else:
        a = np.array([int(l) for l in c.labels], dtype="int64")
    return a.reshape(shp)


def _label_dtype(c: LCase):
    return "float64" if any(l is None for l in c.labels) else "int64"


def _by_chunks(c: LCase):
    return c.by_chunks if c.by_chunks is not None else c.chunks[-c.by_ndim:]


def _kwargs(c: LCase):
    kw = dict(func=c.func)
    if c.expected is not None:
        kw["expected_groups"] = np.array(c.expected)
    if c.fill is not None:
        kw["fill_value"] = c.fill
    if c.min_count is not None:
        kw["min_count"] = c.min_count
    if c.engine is not None:
        kw["engine"] = c.engine
    if c.method is not None:
        kw["method"] = c.method
    if c.reindex is not None:
        kw["reindex"] = c.reindex
    return kw


def _is_lazy(x) -> bool:
    import dask

    return dask.is_dask_collection(x)


def _groups_kind(g) -> str:
    import pandas as pd

    if _is_lazy(g):
        return "lazy"
    if isinstance(g, (np.ndarray, pd.Index)):
        return "memory"
    return "other:" + type(g).__name__


def probe(c: LCase) -> dict:
    """run one API call under the instrumentation; returns what was observed"""
    import dask
    import flox
    from dask.local import get_sync

    ro._patch_flox()
    ro._recorded.clear()
    arr = poison_array(c.shape, c.chunks, c.dtype, "v")
    if c.by_dask:
        by = poison_array(c.shape[-c.by_ndim:], _by_chunks(c), _label_dtype(c), "l")
    else:
        by = _np_labels(c)
    obs = dict(outcome=None, detail="", lazy=None, groups=[], chunk=0, sched=0, reaches=None, plan={})
    COUNT.update(chunk=0, sched=0)
    res = None
    chunked_vars = None
    try:
        with forbid_compute():
            if c.api == "reduce":
                kw = _kwargs(c)
                kw["sort"] = c.sort
                if c.axis is not None:
                    kw["axis"] = tuple(c.axis)
                if c.q is not None:
                    kw["finalize_kwargs"] = {"q": c.q}
                out = flox.groupby_reduce(arr, by, **kw)
                res, groups = out[0], list(out[1:])
            elif c.api == "scan":
                res = flox.groupby_scan(arr, by, func=c.func, axis=-1)
                groups = []
            else:
                res, groups, chunked_vars = _call_xarray(c, arr, by)
        obs["outcome"] = "returned"
    except Poison as e:
        obs["outcome"], obs["detail"] = "evaluated", str(e)
    except Exception as e:  # noqa
        import traceback

        tb = traceback.extract_tb(e.__traceback__)
        origin = tb[-1].filename if tb else ""
        # a refusal = ValueError / NotImplementedError raised by flox itself (or by xarray for xarray_reduce); the same
        # exception types coming out of dask / pandas / numpy internals are crashes
        own = "/flox/" in origin or (c.api == "xarray" and "/xarray/" in origin)
        if isinstance(e, (NotImplementedError, ValueError)) and own:
            obs["outcome"], obs["detail"] = "refused:" + type(e).__name__, str(e)[:120]
        else:
            where = next((f"{f.name}:{f.lineno}" for f in reversed(tb) if "/flox/" in f.filename), "?")
            first = str(e).strip().split("\n")[0][:100]
            obs["outcome"], obs["detail"] = "internal:" + type(e).__name__, f"{first} @ {where}"
    obs["chunk"], obs["sched"] = COUNT["chunk"], COUNT["sched"]
    obs["plan"] = dict(ro._recorded)
    if obs["outcome"] == "returned":
        if c.api == "xarray":
            not_lazy = [k for k, v in chunked_vars.items() if not v]
            obs["lazy"] = not not_lazy
            obs["detail"] = "" if not not_lazy else f"variables {not_lazy} not dask-backed"
            obs["rtype"] = type(res).__name__
        else:
            obs["lazy"] = _is_lazy(res)
            obs["rtype"] = type(res).__name__
        obs["groups"] = [_groups_kind(g) for g in groups]
        if obs["lazy"]:
            COUNT.update(chunk=0, sched=0)
            try:
                dask.compute(res, scheduler=get_sync)
                obs["reaches"] = False
            except Poison:
                obs["reaches"] = COUNT["chunk"] > 0
            except Exception as e:  # noqa   the poisoned exception may be wrapped by a layer in between
                obs["reaches"] = COUNT["chunk"] > 0
                obs["reach_err"] = type(e).__name__
            COUNT.update(chunk=0, sched=0)
    return obs


def _call_xarray(c: LCase, arr, by):
    import xarray as xr
    from flox.xarray import xarray_reduce

    dims = ["t", "y", "x"][-len(c.shape):]
    bdims = dims[-c.by_ndim:]
    lab = xr.DataArray(by, dims=bdims, name="lab")
    da_ = xr.DataArray(arr, dims=dims, name="v")
    if c.xr == "da":
        obj = da_
    else:
        extra = {"v": da_, "w": xr.DataArray(poison_array(c.shape, c.chunks, "float64", "w"), dims=dims)}
        if c.xr == "ds-mixed":
            extra["m"] = xr.DataArray(np.arange(float(np.prod(c.shape))).reshape(c.shape), dims=dims)   # in-memory variable
        obj = xr.Dataset(extra)
    kw = _kwargs(c)
    if c.dim is not None:
        kw["dim"] = Ellipsis if c.dim == "..." else c.dim
    if c.skipna is not None:
        kw["skipna"] = c.skipna
    if c.q is not None:
        kw["q"] = c.q
    res = xarray_reduce(obj, lab, **kw)
    if isinstance(res, xr.DataArray):
        chunked = {"v": _is_lazy(res.variable._data)}
        groups = [res.indexes[d].values for d in res.dims if d.startswith("lab")]
    else:
        chunked = {k: _is_lazy(res[k].variable._data) for k in res.data_vars if k in ("v", "w")}
        groups = [res.indexes[d].values for d in res.dims if str(d).startswith("lab")]
    return res, groups, chunked


def inspects_lazy(obs: dict) -> bool:
    """pandas / numpy were handed a dask array (`pd.factorize`, `pd.unique` … refuse it by type; had they accepted it the
    labels would have been computed): the code path looks at label VALUES to build the graph"""
    return obs["outcome"].startswith("internal:") and "got Array" in obs["detail"]


def lazy_verdict(c: LCase, obs: dict) -> str | None:
    """None = the property holds on this call"""
    if obs["chunk"] or obs["sched"] or obs["outcome"] == "evaluated":
        return (f"evaluated during graph construction: {obs['chunk']} chunk evaluation(s), {obs['sched']} scheduler "
                f"invocation(s) ({obs['detail']})")
    if obs["outcome"].startswith("internal:"):
        if inspects_lazy(obs):
            return f"tried to inspect the values of a lazy array while building the graph: {obs['outcome'][9:]}: {obs['detail']}"
        return None        # a crash that evaluated nothing: recorded (run_lazy), it is C19's concern, not a laziness failure
    if obs["outcome"].startswith("refused:"):
        return None
    if not obs["lazy"]:
        return f"returned eager {obs.get('rtype')} for chunked input {obs['detail']}".strip()
    bad = [g for g in obs["groups"] if g.startswith("other:")]
    if bad:
        return f"group labels are neither in-memory nor lazy: {bad}"
    if c.by_dask and c.expected is None and c.api == "reduce" and obs["groups"] != ["lazy"]:
        return f"labels are chunked and unknown but the returned groups are {obs['groups']}"
    return None


# ---- generators ------------------------------------------------------------------------------------


def gen_chunks_nd(rng, shape):
    return [ro.gen_chunks(rng, n, rng.choice(["random", "random", "even", "ones", "single"]) if n <= 6 else
                          rng.choice(["random", "even", "single"])) for n in shape]


def gen_lab(rng, n, pattern):
    if pattern == "allmissing":
        return [None] * n
    if pattern == "single":
        return [3] * n
    if pattern == "distinct":
        labs = list(range(n))              # every element alone in its group (flox has shortcuts for this)
        rng.shuffle(labs)
        return labs
    labs = ro.gen_labels(rng, n, rng.randint(1, 4), 0.25 if pattern == "withnan" else 0.0,
                         pattern if pattern in ("sorted", "periodic", "runs") else "random")
    return labs


def gen_expected_l(rng, labels, mode):
    present = sorted({l for l in labels if l is not None})
    if mode == "none":
        return None
    if mode == "exact":
        return present or [0, 1]
    if mode == "superset":
        return sorted(set(present) | {11, 12})
    if mode == "disjoint":
        return [11, 12]
    ex = sorted(set(present) | {11})
    rng.shuffle(ex)
    return ex


def fill_for(rng, func, given=None):
    if func in ("any", "all"):
        return rng.choice([None, 0, 1])
    if func in ro.ARG:
        return rng.choice([None, -1, -7])
    return rng.choice([None, None, NAN, 0, -7]) if given is None else given


def dtype_for(rng, func, choices=None):
    if func in ("any", "all"):
        return "bool"
    dt = rng.choice(choices or DTYPES)
    if dt == "bool" and func not in ("sum", "nansum", "count", "mean", "nanmean", "max", "min", "first", "last"):
        dt = "int64"
    if dt.startswith("datetime") and func not in ("max", "min", "nanmax", "nanmin", "first", "last", "nanfirst", "nanlast",
                                                   "count", "argmax", "argmin", "mean", "nanmean"):
        dt = "float64"
    return dt


def make_reduce(rng, func, method, by_dask, exp_mode, reindex, engine=None, layout=None, stream="grid") -> LCase:
    layout = layout or rng.choice(["1d", "1d", "1d", "2d-by1", "2d-by2", "2d-by2-axis", "3d-by2"])
    n = rng.randint(4, 12)
    if layout == "1d":
        shape, by_ndim, axis = [n], 1, None
    elif layout == "2d-by1":
        shape, by_ndim, axis = [rng.randint(1, 3), n], 1, rng.choice([None, [-1], [1]])
    elif layout == "2d-by2":
        shape, by_ndim, axis = [rng.randint(2, 3), n], 2, rng.choice([None, [0, 1], [1, 0]])
    elif layout == "2d-by2-axis":
        shape, by_ndim, axis = [rng.randint(2, 3), n], 2, rng.choice([[-1], [1], [0]])
    else:
        shape, by_ndim, axis = [2, rng.randint(2, 3), n], 2, None
    nlab = int(np.prod(shape[-by_ndim:]))
    pattern = rng.choice(["random", "random", "sorted", "sorted", "periodic", "runs", "withnan", "allmissing", "single"])
    labels = gen_lab(rng, nlab, pattern)
    expected = gen_expected_l(rng, labels, exp_mode)
    chunks = gen_chunks_nd(rng, shape)
    by_chunks = None
    if by_dask and rng.random() < 0.25:
        by_chunks = gen_chunks_nd(rng, shape[-by_ndim:])
    q = None
    if "quantile" in func:
        q = rng.choice([0.5, 0.25, [0.25, 0.75]])
    fill = fill_for(rng, func)
    if expected is not None and fill is None and rng.random() < 0.7:
        fill = fill_for(rng, func, given=rng.choice([NAN, 0, -7])) if func not in ro.ARG and func not in ("any", "all") else \
            (-1 if func in ro.ARG else 0)
    dtype = dtype_for(rng, func)
    if dtype.startswith("datetime"):
        fill = None                     # a numeric fill for datetime data is ill-posed
    return LCase(api="reduce", func=func, dtype=dtype, shape=shape, chunks=chunks, by_ndim=by_ndim,
                 by_dask=by_dask, by_chunks=by_chunks, labels=labels, expected=expected, method=method, engine=engine,
                 reindex=reindex, fill=fill, min_count=rng.choice([None, None, None, 1, 2]) if fill is not None else None,
                 sort=rng.choice([True, True, False]), axis=axis, q=q, stream=stream)


def make_scan(rng, func, dtype, by_dask, ndim, stream="scan") -> LCase:
    n = rng.randint(3, 12)
    shape = [n] if ndim == 1 else [rng.randint(1, 3), n]
    by_ndim = 1 if ndim == 1 else rng.choice([1, 2])
    nlab = int(np.prod(shape[-by_ndim:]))
    labels = gen_lab(rng, nlab, rng.choice(["random", "sorted", "runs", "withnan", "single", "allmissing", "distinct", "distinct"]))
    return LCase(api="scan", func=func, dtype=dtype, shape=shape, chunks=gen_chunks_nd(rng, shape), by_ndim=by_ndim,
                 by_dask=by_dask, labels=labels, stream=stream)


def make_xarray(rng, func, method, by_dask, exp_mode, xr_kind, stream="xarray") -> LCase:
    layout = rng.choice(["1d", "2d-by1", "2d-by2"])
    n = rng.randint(4, 10)
    if layout == "1d":
        shape, by_ndim = [n], 1
    elif layout == "2d-by1":
        shape, by_ndim = [rng.randint(2, 3), n], 1
    else:
        shape, by_ndim = [rng.randint(2, 3), n], 2
    dims = ["t", "y", "x"][-len(shape):]
    nlab = int(np.prod(shape[-by_ndim:]))
    labels = gen_lab(rng, nlab, rng.choice(["random", "sorted", "periodic", "withnan", "allmissing"]))
    expected = gen_expected_l(rng, labels, exp_mode)
    dim = rng.choice([None, None, "x", "...", dims[0]])
    q = rng.choice([0.5, [0.25, 0.75]]) if "quantile" in func else None
    fill = fill_for(rng, func)
    return LCase(api="xarray", func=func, dtype=dtype_for(rng, func, ["float64", "int64", "float32"]), shape=shape,
                 chunks=gen_chunks_nd(rng, shape), by_ndim=by_ndim, by_dask=by_dask, labels=labels, expected=expected,
                 method=method, engine=rng.choice([None, None, "numpy", "flox", "numbagg"]), reindex=rng.choice(REINDEX),
                 fill=fill, min_count=rng.choice([None, None, 1]), q=q, xr=xr_kind, dim=dim,
                 skipna=None if func in ("any", "all", "count") else rng.choice([None, None, True, False]), stream=stream)


def lazy_cases(rng, tier, search=False):
    cases = []
    thorough = tier == "thorough"
    # (1) the core grid, exhaustively: reduction x strategy x label kind x expected_groups x reindex (x engine in thorough)
    exp_modes = ["none", "exact", "disjoint", "superset"] if thorough else ["none", "exact"]
    for func, method, by_dask, em, reindex in itertools.product(RED_FUNCS, METHODS, [False, True], exp_modes, REINDEX):
        for engine in (ENGINES if thorough else [rng.choice(ENGINES)]):
            cases.append(make_reduce(rng, func, method, by_dask, em, reindex, engine=engine,
                                     layout="1d" if rng.random() < 0.6 else None))
    # (2) random configurations (layouts, axis subsets, degenerate label sets, label chunking different from the values')
    for _ in range((6000 if thorough else 700) * (2 if search else 1)):
        cases.append(make_reduce(rng, rng.choice(RED_FUNCS), rng.choice(METHODS), rng.random() < 0.5,
                                 rng.choice(["none", "none", "exact", "superset", "disjoint", "unsorted"]), rng.choice(REINDEX),
                                 engine=rng.choice(ENGINES), stream="random"))
    # (3) scans: every func x dtype x label kind x ndim
    for func, dtype, by_dask, ndim in itertools.product(SCAN_FUNCS, ["float64", "float32", "int64", "int8", "bool", "datetime64[ns]"],
                                                        [False, True], [1, 2]):
        for _ in range(6 if thorough else 2):
            cases.append(make_scan(rng, func, dtype, by_dask, ndim))
    # (4) xarray: DataArray / Dataset / Dataset with an in-memory variable
    xfuncs = [f for f in RED_FUNCS if not f.startswith("nan")] + ["nanmean", "nansum"]
    for func, method, by_dask, xk in itertools.product(xfuncs, METHODS, [False, True], ["da", "ds", "ds-mixed"]):
        for _ in range(3 if thorough else 1):
            cases.append(make_xarray(rng, func, method, by_dask, rng.choice(["none", "exact", "exact", "superset", "disjoint"]), xk))
    return cases


# ----------------------------------------------------------------------------------------------
# stream B: labels found at compute time (real data)


def run_unknown(c: ro.Case) -> dict:
    """dask values + dask labels, no expected_groups: graph construction under the forbidden scheduler, then compute"""
    import dask
    import dask.array as da
    import flox

    ro._patch_flox()
    ro._recorded.clear()
    arr, by = ro.np_array(c), ro.np_labels(c)
    kw = dict(func=c.func, sort=c.sort)
    if c.fill is not None:
        kw["fill_value"] = c.fill
    if c.min_count is not None:
        kw["min_count"] = c.min_count
    if c.func in ("var", "nanvar", "std", "nanstd") and c.ddof:
        kw["finalize_kwargs"] = {"ddof": c.ddof}
    if c.engine is not None:
        kw["engine"] = c.engine
    if c.method is not None:
        kw["method"] = c.method
    if c.reindex is not None:
        kw["reindex"] = c.reindex
    darr = da.from_array(arr, chunks=(tuple(c.chunks),))
    dby = da.from_array(by, chunks=(tuple(c.chunks),))
    phase = "call"
    COUNT.update(chunk=0, sched=0)
    try:
        with dask.config.set(split_every=c.split_every):
            with forbid_compute():
                res, groups = flox.groupby_reduce(darr, dby, **kw)
            lazy = (_is_lazy(res), _is_lazy(groups))
            phase = "compute"
            if c.scheduler == "threads":
                res, groups = dask.compute(res, groups, scheduler="threads", num_workers=2)
            else:
                res, groups = dask.compute(res, groups, scheduler="sync")
    except Poison as e:
        return dict(kind="err", err="evaluated", phase=phase, msg=str(e), plan=dict(ro._recorded), sched=COUNT["sched"])
    except Exception as e:  # noqa
        return dict(kind="err", err=ro.err_kind(e), phase=phase, msg=str(e)[:200], plan=dict(ro._recorded))
    return dict(kind="ok", groups=np.asarray(groups), vals=np.asarray(res), plan=dict(ro._recorded), lazy=lazy)


def run_eager(c: ro.Case) -> dict:
    import copy

    e = copy.copy(c)
    e.chunks, e.method, e.reindex, e.dask_labels = None, None, None, False
    return ro.run_impl(e)


def _mapping(groups, vals):
    out = {}
    for g, v in zip(np.asarray(groups).reshape(-1).tolist(), np.asarray(vals).reshape(-1).tolist()):
        gk = "nan" if (isinstance(g, float) and math.isnan(g)) else float(g)
        if gk in out:
            return None, f"label {g} returned twice"
        out[gk] = v
    return out, None


def _same(a, b, mode) -> bool:
    if ro.isnan(a) or ro.isnan(b):
        return ro.isnan(a) and ro.isnan(b)
    fa, fb = float(a), float(b)
    if mode == "exact" or fa == fb or math.isinf(fa) or math.isinf(fb):
        return fa == fb
    tol = 1e-5 if mode.endswith("32") else 1e-9
    return abs(fa - fb) <= tol + tol * abs(fb)


def cmp_unknown_eager(c: ro.Case, impl: dict, eager: dict) -> str | None:
    """the property: same label -> value mapping as the eager computation"""
    if impl["kind"] == "err" and impl["err"] == "evaluated":
        return f"evaluated during graph construction: {impl['msg']}"
    if eager["kind"] == "err":
        if impl["kind"] == "err" and impl["err"] == eager["err"]:
            return None
        if impl["kind"] == "err":
            return f"eager raises {eager['err']} but chunked raises {impl['err']} at {impl['phase']}: {impl.get('msg', '')}"
        if eager["err"] == "ValueError":
            return None       # no default fill documented: the eager call refuses, anything goes
        return f"eager raises {eager['err']} but chunked returned values"
    if impl["kind"] == "err":
        return f"chunked raises {impl['err']} at {impl['phase']} ({impl.get('msg', '')}) but eager returns values"
    if impl["lazy"] != (True, True):
        return f"returned eager object(s): result lazy={impl['lazy'][0]}, groups lazy={impl['lazy'][1]}"
    mi, e1 = _mapping(impl["groups"], impl["vals"])
    me, e2 = _mapping(eager["groups"], eager["vals"])
    if e1 or e2:
        return f"mapping differs: chunked: {e1}; eager: {e2}"
    if set(mi) != set(me):
        return (f"labels differ: found at compute time {np.asarray(impl['groups']).tolist()}, "
                f"eager {np.asarray(eager['groups']).tolist()}")
    if len(np.asarray(impl["vals"]).reshape(-1)) != len(mi):
        return "mapping differs: number of values != number of labels"
    mode = ro.cmp_mode(c).replace("sqrt", "approx").replace("rounded", "approx")
    for g in me:
        if g != "nan" and not ro.default_in_domain(c, g):
            continue
        if not _same(mi[g], me[g], mode):
            return f"mapping differs at label {g}: chunked {mi[g]!r} eager {me[g]!r}"
    if c.sort:
        fl = [x for x in np.asarray(impl["groups"], dtype="float64").reshape(-1).tolist() if not math.isnan(x)]
        if any(a >= b for a, b in zip(fl, fl[1:])):
            return f"mapping differs: sort=True but discovered labels not ascending: {fl}"
    return None


def unknown_legal(c: ro.Case) -> bool:
    from .props_reduce import legal

    return legal(c) and c.method in (None, "map-reduce") and c.reindex in (None, False) and c.expected is None and c.dask_labels


def make_unknown(rng, tier, funcs=None, engines=None) -> ro.Case:
    from .props_reduce import make_case

    for _ in range(200):
        c = make_case(rng, funcs=funcs, chunked=True, nmax=10 if tier == "quick" else 20, methods=(None, "map-reduce"),
                      expected_modes=["none"], dask_labels_p=1.0, missing=(0, 0, 0.2, 0.5), mcs=(None, None, None, 1, 2),
                      engines=engines)
        c.dask_labels = True
        c.reindex = rng.choice([None, None, False])
        if rng.random() < 0.04:
            c.labels = [None] * len(c.labels)          # every label missing (finding C12-F2)
        c.scheduler = rng.choice(["sync", "sync", "sync", "threads"])
        c.stream = "unknown"
        if unknown_legal(c):
            return c
    raise RuntimeError("generator could not produce a legal case")


EXH_FUNCS = ["sum", "nanmax", "nanmean", "count", "nanargmax", "nanlast"]


def exhaustive_unknown(nmax=4):
    """every label vector over {1, 2, missing} x every chunking, n <= nmax, values fixed by position (with a NaN)"""
    base_vals = [2.0, NAN, -1.0, 2.0, 5.0]
    for n in range(1, nmax + 1):
        for labs in itertools.product([2, 1, None], repeat=n):
            for cuts in itertools.product([0, 1], repeat=n - 1):
                chunks, run = [], 1
                for b in cuts:
                    if b:
                        chunks.append(run)
                        run = 1
                    else:
                        run += 1
                chunks.append(run)
                for func in EXH_FUNCS:
                    yield ro.Case(func=func, dtype="float64", vals=base_vals[:n], labels=list(labs), expected=None, sort=True,
                                  fill=None, min_count=None, engine="numpy", method="map-reduce", reindex=None,
                                  chunks=chunks, split_every=2, dask_labels=True, stream="exhaustive")


# ---- 2-D labels (no Lean model: compared with the eager call only) -----------------------------------


@dataclass
class NDCase:
    func: str
    shape: list               # of the values; the labels have shape[-2:]
    vals: list
    labels: list
    chunks: list              # per axis of the values
    engine: str | None = None
    fill: object = None
    stream: str = "unknown-2d"
    kind: str = "unknown-2d"

    def key(self):
        d = asdict(self)
        d.pop("stream")
        return core.case_hash(d)


# arg-reductions and nanfirst/nanlast are refused (or crash, see C19) when two axes of a dask array are reduced
ND_FUNCS = ["sum", "nansum", "max", "nanmax", "min", "nanmin", "count", "mean", "nanmean", "prod", "nanprod", "var", "nanvar",
            "std", "nanstd", "any", "all"]


def make_nd(rng) -> NDCase:
    func = rng.choice(ND_FUNCS)
    shape = [rng.randint(1, 3), rng.randint(2, 5)]
    if rng.random() < 0.3:
        shape = [2] + shape
    nv = int(np.prod(shape))
    nl = shape[-2] * shape[-1]
    if func in ("any", "all"):
        vals = [rng.random() < 0.5 for _ in range(nv)]
    else:
        vals = ro.gen_vals(rng, nv, "float64", rng.choice(["finite", "nan"]))
    labels = ro.gen_labels(rng, nl, rng.randint(1, 3), rng.choice([0, 0, 0.25]))
    if rng.random() < 0.03:
        labels = [None] * nl
    return NDCase(func=func, shape=shape, vals=vals, labels=labels, chunks=gen_chunks_nd(rng, shape),
                  engine=rng.choice([None, "numpy", "flox", "numbagg"]), fill=rng.choice([None, None, NAN]))


def run_nd(c: NDCase):
    import dask
    import dask.array as da
    import flox

    arr = np.array(c.vals, dtype=bool if c.func in ("any", "all") else "float64").reshape(c.shape)
    labs = c.labels
    if any(l is None for l in labs):
        by = np.array([NAN if l is None else float(l) for l in labs]).reshape(c.shape[-2:])
    else:
        by = np.array(labs, dtype="int64").reshape(c.shape[-2:])
    kw = dict(func=c.func)
    if c.engine:
        kw["engine"] = c.engine
    if c.fill is not None and c.func not in ("any", "all") and "arg" not in c.func:
        kw["fill_value"] = c.fill

    def call(a, b):
        try:
            r, g = flox.groupby_reduce(a, b, **kw)
            lazy = (_is_lazy(r), _is_lazy(g))
            r, g = dask.compute(r, g, scheduler="sync")
            return dict(kind="ok", vals=np.asarray(r), groups=np.asarray(g), lazy=lazy)
        except Exception as e:  # noqa
            return dict(kind="err", err=ro.err_kind(e), msg=str(e)[:160])

    eager = call(arr, by)
    COUNT.update(chunk=0, sched=0)
    darr = da.from_array(arr, chunks=tuple(tuple(x) for x in c.chunks))
    dby = da.from_array(by, chunks=tuple(tuple(x) for x in c.chunks[-2:]))
    try:
        with forbid_compute():
            r, g = flox.groupby_reduce(darr, dby, **kw)
        lazy = (_is_lazy(r), _is_lazy(g))
        r, g = dask.compute(r, g, scheduler="sync")
        impl = dict(kind="ok", vals=np.asarray(r), groups=np.asarray(g), lazy=lazy)
    except Poison as e:
        impl = dict(kind="err", err="evaluated", msg=str(e))
    except Exception as e:  # noqa
        impl = dict(kind="err", err=ro.err_kind(e), msg=str(e)[:160])
    return impl, eager


def cmp_nd(c: NDCase, impl, eager) -> str | None:
    if impl["kind"] == "err" and impl["err"] == "evaluated":
        return f"evaluated during graph construction: {impl['msg']}"
    if eager["kind"] == "err":
        if impl["kind"] == "err":
            return None if impl["err"] == eager["err"] else f"eager raises {eager['err']} but chunked raises {impl['err']}: {impl['msg']}"
        return None if eager["err"] == "ValueError" else f"eager raises {eager['err']} but chunked returned values"
    if impl["kind"] == "err":
        if impl["err"] in ("ValueError", "NotImplementedError"):
            return None           # the chunked call refuses this combination (documented error): nothing to compare
        return f"chunked raises {impl['err']} ({impl['msg']}) but eager returns values"
    if impl["lazy"] != (True, True):
        return f"returned eager object(s): result lazy={impl['lazy'][0]}, groups lazy={impl['lazy'][1]}"
    gi, ge = impl["groups"].reshape(-1).tolist(), eager["groups"].reshape(-1).tolist()
    ki = ["nan" if (isinstance(g, float) and math.isnan(g)) else float(g) for g in gi]
    ke = ["nan" if (isinstance(g, float) and math.isnan(g)) else float(g) for g in ge]
    if len(set(ki)) != len(ki):
        return f"mapping differs: a label is returned twice: {gi}"
    if set(ki) != set(ke):
        return f"labels differ: found at compute time {gi}, eager {ge}"
    vi, ve = impl["vals"], eager["vals"]
    if vi.shape[:-1] != ve.shape[:-1] or vi.shape[-1] != len(ki):
        return f"mapping differs: shapes {vi.shape} vs eager {ve.shape}"
    mode = "approx" if c.func in ("mean", "nanmean", "var", "nanvar", "std", "nanstd") else "exact"
    arr = np.array(c.vals, dtype="float64").reshape(c.shape)
    for j, g in enumerate(ki):
        a, b = vi[..., j].reshape(-1).tolist(), ve[..., ke.index(g)].reshape(-1).tolist()
        for r, (x, y) in enumerate(zip(a, b)):
            if "arg" in c.func:
                row = arr.reshape(-1, arr.shape[-2] * arr.shape[-1])[r]
                ms = [v for v, l in zip(row.tolist(), c.labels) if l is not None and float(l) == g]
                if not ms or all(math.isnan(v) for v in ms):
                    continue       # all-NaN group: undefined
            if not _same(x, y, mode):
                return f"mapping differs at label {g} (row {r}): chunked {x!r} eager {y!r}"
    return None


# ----------------------------------------------------------------------------------------------


class C12(Prop):
    id = "C12"
    lean_module = "FloxProps.C12"
    level = "proof"
    rule = ("stream `lazy`: groupby_reduce / groupby_scan / xarray_reduce called with dask arrays whose every chunk raises+counts "
            "when evaluated (values always, labels when chunked) under a raising+counting scheduler; grid = every reduction "
            "(31, incl. arg-reductions, quantile/median/mode) x method {None, map-reduce, cohorts, blockwise} x numpy|dask labels x "
            "expected_groups {absent, exact (thorough: + disjoint, superset)} x reindex {None, True, False} (thorough: x every "
            "engine) enumerated exhaustively, plus seeded random layouts (1-D, 2-D/3-D values, 2-D labels, axis subsets, label "
            "chunking != value chunking, all-missing / unsorted / NaN labels, fill/min_count/sort), every scan x dtype x label "
            "kind x ndim, xarray DataArray / Dataset / Dataset with an in-memory variable x dim {None, name, ...}; checked: zero "
            "chunk evaluations, zero scheduler invocations, refusal by ValueError/NotImplementedError or a dask-backed result, "
            "groups in-memory or lazy. stream `unknown`: dask labels without expected_groups on real data (every reduction that "
            "accepts it, engines, sort, fill/min_count, NaN and unsorted labels, every chunking, split_every 2-4; thorough: "
            "exhaustive over label vectors on {1,2,missing} x all chunkings for n<=4 x 6 reductions; 2-D labels): "
            "dict(zip(groups.compute(), result.compute())) == eager mapping, == Lean runUnknown (tie 1), NumPy oracle == Lean spec "
            "(tie 2). distinct = hash of the case; non-trivial = lazy: a call that returned; unknown: >=2 elements and >=2 "
            "groups or a repeated/missing label")
    assumptions = [
        "laziness is a runtime fact of the Python code: it is observed by instrumentation (poisoned chunks, forbidden "
        "schedulers) over the configuration grid, not proved; the Lean theorems cover the second sentence of the property "
        "(labels found at compute time: same mapping as eager) on the 1-D model `runUnknown`",
        "a computation that bypasses dask's scheduler lookup (dask.config / named schedulers) and evaluates a graph by hand "
        "would still be caught by the poisoned chunks, but only for the chunked inputs themselves",
        "object-dtype values/labels (cftime, strings) are outside the property's quantifier and are not exercised",
    ]

    # -- stream A ---------------------------------------------------------------------------------
    def run_lazy(self, cases, rep: Report):
        for c in cases:
            obs = probe(c)
            rep.evaluations += 1
            rep.dist[f"lazy:api:{c.api}"] += 1
            rep.dist["lazy:outcome:" + obs["outcome"].split(":")[0] + (":" + obs["outcome"].split(":")[1] if ":" in obs["outcome"] else "")] += 1
            if c.api == "reduce":
                rep.dist["lazy:func:" + c.func] += 1
                rep.dist[f"lazy:method:{c.method}"] += 1
                rep.dist[f"lazy:labels:{'dask' if c.by_dask else 'numpy'}/expected={'yes' if c.expected is not None else 'no'}"] += 1
                rep.dist[f"lazy:engine:{c.engine}"] += 1
                rep.dist[f"lazy:layout:{len(c.shape)}d-by{c.by_ndim}-axis={'all' if c.axis is None else len(c.axis)}"] += 1
            if obs["outcome"] == "returned":
                rep.keys.add(c.key())
                rep.dist[f"lazy:resolved-plan:{obs['plan'].get('method')}/reindex={obs['plan'].get('reindex')}"] += 1
                rep.dist["lazy:groups:" + ",".join(obs["groups"])] += 1
                rep.dist[f"lazy:graph-reaches-input:{obs['reaches']}"] += 1
            d = lazy_verdict(c, obs)
            if d:
                rep.direct.append((asdict(c), d))
            elif obs["outcome"].startswith("internal:"):
                import re

                sig = obs["outcome"][9:] + ": " + re.sub(r"\d+", "N", obs["detail"])[:90]
                crashes = rep.extra.setdefault("crashes_that_evaluated_nothing__not_a_laziness_failure__see_C19", {})
                ent = crashes.setdefault(sig, {"count": 0, "example": core.jsonable(asdict(c))})
                ent["count"] += 1
            if obs["outcome"] == "returned" and sum(1 for s in rep.samples if s.get("stream") == "lazy") < 3:
                rep.add_sample({"stream": "lazy", "case": core.jsonable(asdict(c)), "observed": core.jsonable(obs)})

    # -- stream B ---------------------------------------------------------------------------------
    def run_unknown_cases(self, cases, rep: Report):
        from .props_reduce import nontrivial

        impls = [run_unknown(c) for c in cases]
        lines, idx = [], []
        for i, (c, im) in enumerate(zip(cases, impls)):
            l = ro.model_line(c, im.get("plan", {}))
            if l is not None:
                lines.append(l)
                idx.append(i)
        outs = core.Driver().run(lines)
        mout = dict(zip(idx, outs))
        for i, (c, im) in enumerate(zip(cases, impls)):
            rep.evaluations += 1
            if nontrivial(c):
                rep.keys.add(c.key())
            plan = im.get("plan", {})
            rep.dist["unknown:func:" + c.func] += 1
            rep.dist[f"unknown:plan:{plan.get('method')}/reindex={plan.get('reindex')}"] += 1
            rep.dist["unknown:engine:" + str(c.engine or plan.get("engine") or plan.get("chosen_engine"))] += 1
            rep.dist["unknown:impl:" + (im["kind"] if im["kind"] == "ok" else im["err"])] += 1
            rep.dist["unknown:nblocks:" + str(min(len(c.chunks), 9))] += 1
            rep.dist["unknown:labels:" + ("all-missing" if all(l is None for l in c.labels) else
                                          "some-missing" if any(l is None for l in c.labels) else "complete")] += 1
            eager = run_eager(c)
            orc = ro.run_oracle(c)
            if i in mout:
                model, spec = ro.parse_model_output(mout[i])
                rep.dist["unknown:model:" + model["kind"]] += 1
                d1 = ro.cmp_impl_model(c, im, model) if im.get("err") != "evaluated" else None
                if d1:
                    rep.tie1.append((self._case(c), d1))
                d2 = ro.cmp_oracle_spec(c, orc, spec)
                if d2:
                    rep.tie2.append((self._case(c), d2))
            else:
                rep.dist["unknown:model:not-expressible"] += 1
            d3 = cmp_unknown_eager(c, im, eager)
            if d3:
                rep.direct.append((self._case(c), d3))
            if nontrivial(c) and sum(1 for s in rep.samples if s.get("stream") == "unknown") < 3:
                rep.add_sample({"stream": "unknown", "case": core.jsonable(asdict(c)),
                                "found_at_compute_time": core.jsonable([im.get("groups"), im.get("vals")] if im["kind"] == "ok" else im),
                                "eager": core.jsonable([eager.get("groups"), eager.get("vals")] if eager["kind"] == "ok" else eager),
                                "model_line_out": mout.get(i)})

    @staticmethod
    def _case(c: ro.Case):
        d = asdict(c)
        d["kind"] = "unknown"
        return d

    def run_nd_cases(self, cases, rep: Report):
        for c in cases:
            impl, eager = run_nd(c)
            rep.evaluations += 1
            rep.keys.add(c.key())
            rep.dist["unknown-2d:func:" + c.func] += 1
            rep.dist["unknown-2d:impl:" + (impl["kind"] if impl["kind"] == "ok" else impl["err"])] += 1
            rep.dist["unknown:model:not-expressible"] += 1
            d = cmp_nd(c, impl, eager)
            if d:
                rep.direct.append((asdict(c), d))

    # -- entry points -----------------------------------------------------------------------------
    def run(self, rng, tier, rep: Report, search=False):
        self_test()
        rep.notes.append("probe self-test passed: poisoned chunks raise+count under a real scheduler; np.asarray / bool() / "
                         ".compute() / compute(scheduler='sync'|'threads') / .persist() of a lazy array raise+count under the "
                         "forbidden scheduler")
        self.run_lazy(lazy_cases(rng, tier, search), rep)
        thorough = tier == "thorough"
        n = (4000 if thorough else 500) * (3 if search else 1)
        cases = [self.witness_unknown()] + [make_unknown(rng, tier) for _ in range(n)]
        if thorough:
            cases += list(exhaustive_unknown(4))
            cases += [make_unknown(rng, tier, funcs=["nansum", "nanmax", "count", "nanmean"], engines=["numba"]) for _ in range(40)]
        self.run_unknown_cases(cases, rep)
        self.run_nd_cases([make_nd(rng) for _ in range(1500 if thorough else 150)], rep)
        tot = sum(v for k, v in rep.dist.items() if k.startswith("lazy:graph-reaches-input:"))
        yes = rep.dist.get("lazy:graph-reaches-input:True", 0)
        rep.extra["lazy_results_whose_graph_reaches_the_poisoned_input"] = f"{yes}/{tot}"

    @staticmethod
    def witness_unknown() -> ro.Case:
        return ro.Case(func="nanmean", dtype="float64", vals=[1.0, 2.0, NAN, 4.0, 5.0, 6.0, 7.0, NAN],
                       labels=[5, None, 2, 5, 2, 2, 5, 3], fill=-1, min_count=1, engine="numpy", method="map-reduce",
                       chunks=[2, 1, 3, 2], split_every=2, dask_labels=True, stream="unknown")

    def replay(self, payload, rep: Report):
        self._run_one(payload["case"], rep)

    def _run_one(self, d, rep: Report):
        d = dict(d)
        kind = d.pop("kind", "lazy")
        if kind == "lazy":
            d["labels"] = [_unjson(x) for x in d["labels"]]
            d["fill"] = _unjson(d.get("fill"))
            self.run_lazy([LCase(kind="lazy", **d)], rep)
        elif kind == "unknown":
            for k in ("vals", "labels"):
                d[k] = [_unjson(x) for x in d[k]]
            d["fill"] = _unjson(d.get("fill"))
            self.run_unknown_cases([ro.Case(**d)], rep)
        else:
            d["vals"] = [_unjson(x) for x in d["vals"]]
            d["fill"] = _unjson(d.get("fill"))
            self.run_nd_cases([NDCase(kind="unknown-2d", **d)], rep)

    def match_finding(self, finding, case, detail) -> bool:
        from . import findings

        pred = findings.PREDICATES.get(finding["id"])
        return bool(pred and pred(case, detail))

    def check_finding_still_fails(self, finding):
        w = finding.get("witness")
        if not w or w.get("op") != "C12":
            return None
        r = Report()
        self._run_one(w["case"], r)
        return any(self.match_finding(finding, case, det) for case, det in r.direct)


def _unjson(x):
    if isinstance(x, str):
        if x in ("nan", "NaN"):
            return NAN
        if x in ("inf", "Infinity"):
            return float("inf")
        if x in ("-inf", "-Infinity"):
            return float("-inf")
    return x
