"""`cohorts` operations (property C09): the cohort planner `flox.core.find_group_cohorts` and its use in the graphs.

Three observation points:
  plan   – call the real `find_group_cohorts(labels, chunks, expected_groups, merge)` directly
  graph  – dependency closure of every output chunk of a real lazy `groupby_reduce` result (unexecuted graph)
  prov   – group sums of provenance-encoded data (element i carries 2**i), every method

impl   = the real flox;  model = Lean `Flox.Cohorts.findFromArray` (driver op `cohorts`);
spec   = Lean `CohortsSound` / `Confined` decided on a candidate structure (driver op `cohortspec`);
oracle = the set computations in this file (NumPy index arithmetic + Python sets), independent of flox and of Lean.
"""
from __future__ import annotations

import itertools
import random
import warnings

import numpy as np

warnings.filterwarnings("ignore")


# ----------------------------------------------------------------------------------------------
# cases: plain dicts (JSON-able)
#   {"kind": "plan", "labels": [flat codes], "chunks": [[..], [..]], "nlabels": None | int, "merge": bool}


def shape_of(chunks):
    return tuple(sum(c) for c in chunks)


def fmt_chunks(chunks) -> str:
    return ";".join(".".join(str(x) for x in c) for c in chunks)


def fmt_cohorts(cs) -> str:
    if not cs:
        return "-"
    return ";".join(".".join(map(str, b)) + "~" + ".".join(map(str, l)) for b, l in cs)


def parse_cohorts(s: str):
    if s == "-":
        return []
    out = []
    for c in s.split(";"):
        b, l = c.split("~")
        out.append(([int(x) for x in b.split(".")] if b else [], [int(x) for x in l.split(".")] if l else []))
    return out


def model_line(case) -> str:
    nl = "-" if case["nlabels"] is None else str(case["nlabels"])
    return (f"cohorts merge={int(bool(case['merge']))} nlabels={nl} chunks={fmt_chunks(case['chunks'])} | "
            + ",".join(str(int(x)) for x in case["labels"]))


def spec_line(case, cand) -> str:
    nl = "-" if case["nlabels"] is None else str(case["nlabels"])
    return (f"cohortspec nlabels={nl} chunks={fmt_chunks(case['chunks'])} cand={fmt_cohorts(cand)} | "
            + ",".join(str(int(x)) for x in case["labels"]))


# ----------------------------------------------------------------------------------------------
# implementation


def run_plan_impl(case):
    """-> ("ok", method, [(sorted blocks, labels)], raw_keys_sorted?) | ("err", ExcName, text)"""
    import pandas as pd
    from flox.core import find_group_cohorts

    labels = np.array(case["labels"], dtype=np.int64).reshape(shape_of(case["chunks"]))
    chunks = tuple(tuple(int(x) for x in c) for c in case["chunks"])
    eg = None if case["nlabels"] is None else pd.RangeIndex(case["nlabels"])
    try:
        method, cohorts = find_group_cohorts(labels, chunks, expected_groups=eg, merge=bool(case["merge"]))
    except Exception as e:  # noqa
        return ("err", type(e).__name__, str(e)[:200])
    canon = [(sorted(int(b) for b in k), [int(x) for x in v]) for k, v in cohorts.items()]
    return ("ok", str(method), canon)


# ----------------------------------------------------------------------------------------------
# oracle (independent): incidence by index arithmetic, soundness by sets


def block_index(chunks) -> np.ndarray:
    """flat (row-major over the chunk grid) block index of every element, as an array of the full shape"""
    shape = shape_of(chunks)
    per_axis = []
    for c in chunks:
        bounds = np.cumsum(c)
        per_axis.append(np.searchsorted(bounds, np.arange(sum(c)), side="right"))
    grid = np.meshgrid(*per_axis, indexing="ij")
    return np.ravel_multi_index(tuple(grid), tuple(len(c) for c in chunks)).reshape(shape)


def incidence(case):
    """-> (nlabels, {label: set(blocks)}) for the present labels (0 <= code < nlabels)"""
    labels = np.array(case["labels"], dtype=np.int64)
    blocks = block_index(case["chunks"]).reshape(-1)
    nlabels = case["nlabels"] if case["nlabels"] is not None else int(labels.max()) + 1
    inc: dict[int, set] = {}
    for l, b in zip(labels.tolist(), blocks.tolist()):
        if 0 <= l < nlabels:
            inc.setdefault(l, set()).add(b)
    return nlabels, inc


def oracle_sound(inc, cohorts) -> str | None:
    """None if the structure is sound, else a description of the first defect"""
    counts: dict[int, int] = {}
    for _, ls in cohorts:
        for l in ls:
            counts[l] = counts.get(l, 0) + 1
    for l in sorted(inc):
        if counts.get(l, 0) != 1:
            return f"label {l} is listed {counts.get(l, 0)} times"
    for bs, ls in cohorts:
        for l in ls:
            missing = inc.get(l, set()) - set(bs)
            if missing:
                return f"cohort {bs}~{ls} lacks block(s) {sorted(missing)} holding label {l}"
    return None


def oracle_confined(inc) -> bool:
    return all(len(b) <= 1 for b in inc.values())


def oracle_exact(inc, cohorts) -> str | None:
    """blocks of a cohort are exactly the union of its labels' blocks and only present labels are listed"""
    for bs, ls in cohorts:
        u = set()
        for l in ls:
            if l not in inc:
                return f"label {l} listed but not present"
            u |= inc[l]
        if u != set(bs) or len(set(bs)) != len(bs):
            return f"cohort {bs}~{ls}: union of label blocks is {sorted(u)}"
    return None


def mutate(rng_int: int, cohorts):
    """a deterministic small corruption of a cohort structure (exercises the `unsound` verdict of spec and oracle)"""
    cs = [(list(b), list(l)) for b, l in cohorts]
    if not cs:
        return [([0], [0])]
    i = rng_int % len(cs)
    kind = (rng_int // 7) % 4
    b, l = cs[i]
    if kind == 0 and len(b) > 0:
        b.pop((rng_int // 31) % len(b))
    elif kind == 1 and len(l) > 0:
        l.pop((rng_int // 31) % len(l))
    elif kind == 2 and len(l) > 0:
        cs[(i + 1) % len(cs)][1].append(l[0])
    else:
        cs.pop(i)
    return cs


# ----------------------------------------------------------------------------------------------
# reference re-implementation of the merge-loop cell, used ONLY for a distribution counter (former finding C09-F12, repaired):
# does the merge loop of this input produce two different merged cohorts with the same union of blocks?


def merge_key_collision(case) -> bool:
    nlabels, inc = incidence(case)
    present = sorted(inc)
    if not present:
        return False
    first = {}
    for l in present:
        first.setdefault(tuple(sorted(inc[l])), l)
    rows = {}
    for l in present:
        if first[tuple(sorted(inc[l]))] != l:
            rows[l] = []
        else:
            rows[l] = [j for j in present if 4 * len(inc[l] & inc[j]) >= 3 * len(inc[j])]
    order = sorted(range(len(present)), key=lambda i: len(rows[present[i]]))[::-1]
    merged, keys = set(), []
    for i in order:
        l = present[i]
        if not rows[l] or l in merged:
            continue
        cohort = [j for j in rows[l] if j not in merged]
        if not cohort:
            continue
        merged.update(cohort)
        keys.append(frozenset().union(*[inc[j] for j in cohort]))
    return len(set(keys)) != len(keys)


# ----------------------------------------------------------------------------------------------
# generators


def all_chunkings(n: int):
    """all compositions of n"""
    for mask in range(1 << (n - 1)):
        out, cur = [], 1
        for i in range(n - 1):
            if mask >> i & 1:
                out.append(cur)
                cur = 1
            else:
                cur += 1
        out.append(cur)
        yield out


def random_chunking(rng: random.Random, n: int, mode=None):
    mode = mode or rng.choice(["random", "random", "ones", "equal", "few"])
    if mode == "ones":
        return [1] * n
    if mode == "equal":
        k = rng.randint(1, max(1, n // 2))
        out = [k] * (n // k)
        if n % k:
            out.append(n % k)
        return out
    if mode == "few":
        cuts = sorted(rng.sample(range(1, n), min(n - 1, rng.randint(0, 2)))) if n > 1 else []
    else:
        cuts = sorted(rng.sample(range(1, n), rng.randint(0, n - 1))) if n > 1 else []
    b = [0] + cuts + [n]
    return [b[i + 1] - b[i] for i in range(len(b) - 1)]


def from_table(rng: random.Random, table: dict[int, list[int]], nblocks: int, pad=0.2, shuffle=True):
    """realise an incidence table (label -> blocks) as a 1-D label array + chunking"""
    labels, chunks = [], []
    for b in range(nblocks):
        here = [l for l, bs in table.items() if b in bs]
        extra = []
        for l in here:
            if rng.random() < 0.3:
                extra.append(l)
        here = here + extra
        if rng.random() < pad or not here:
            here.append(-1)
        if shuffle:
            rng.shuffle(here)
        labels += here
        chunks.append(len(here))
    return labels, [chunks]


def gen_planted(rng: random.Random, big=False):
    """incidence tables with structure: periodic, nested containment, near the 3/4 and 2/5 thresholds"""
    kind = rng.choice(["periodic", "nested", "near34", "near25", "blocks+stragglers", "collisionish", "collision"])
    table: dict[int, list[int]] = {}
    if kind == "periodic":
        period = rng.randint(2, 6)
        nblocks = rng.randint(period + 1, 24 if big else 14)
        per_block = rng.randint(1, 3)
        nl = period * per_block
        for b in range(nblocks):
            for j in range(per_block):
                table.setdefault((b % period) * per_block + j, []).append(b)
        if rng.random() < 0.5:   # a label that straddles
            l = rng.randrange(nl)
            table[l] = sorted(set(table[l]) | {rng.randrange(nblocks)})
    elif kind == "nested":
        nblocks = rng.randint(4, 20 if big else 12)
        nl = rng.randint(2, 8)
        base = sorted(rng.sample(range(nblocks), rng.randint(2, nblocks)))
        for l in range(nl):
            if rng.random() < 0.6:
                k = rng.randint(1, len(base))
                sub = sorted(rng.sample(base, k))
                if rng.random() < 0.4:
                    sub = sorted(set(sub) | {rng.randrange(nblocks)})
                table[l] = sub
            else:
                table[l] = sorted(rng.sample(range(nblocks), rng.randint(1, nblocks)))
    elif kind == "near34":
        q = 4 * rng.randint(1, 3 if not big else 5)       # |Q|
        nblocks = q + rng.randint(2, 8)
        S = list(range(rng.randint(q, nblocks)))
        table[0] = S
        nl = rng.randint(2, 6)
        for l in range(1, nl):
            inside = 3 * q // 4 + rng.choice([-1, 0, 0, 1])
            inside = max(1, min(inside, len(S), q))
            outside_pool = [b for b in range(nblocks) if b not in S]
            outside = min(q - inside, len(outside_pool))
            table[l] = sorted(rng.sample(S, inside) + rng.sample(outside_pool, outside))
    elif kind == "near25":
        nblocks = rng.choice([5, 10, 10, 15, 20])
        nl = rng.choice([2, 3, 4, 5, 6])
        size = nblocks * nl
        target = (2 * size) // 5 + rng.choice([-1, 0, 0, 1, 2])
        target = max(nl, min(target, size))
        cells = [(l, b) for l in range(nl) for b in range(nblocks)]
        for l in range(nl):
            table[l] = [rng.randrange(nblocks)]
        rest = [c for c in cells if c[1] not in table[c[0]]]
        rng.shuffle(rest)
        for l, b in rest[: target - nl]:
            table[l].append(b)
        table = {l: sorted(v) for l, v in table.items()}
    elif kind == "blocks+stragglers":
        nblocks = rng.randint(4, 16)
        nl = rng.randint(2, 8)
        for l in range(nl):
            start = rng.randrange(nblocks)
            table[l] = sorted({(start + i) % nblocks for i in range(rng.randint(1, 3))})
    elif kind == "collision":
        # two hubs overlapping by half, satellites 3/4 inside their hub and 1/4 in the other hub's exclusive part: when the
        # satellites cover the exclusive parts, both merged cohorts span exactly the same blocks (dict-key collision)
        h = rng.choice([4, 4, 8])
        q = h // 4
        r1, r2 = list(range(0, h)), list(range(h // 2, h // 2 + h))
        ex1, ex2 = list(range(0, h // 2)), list(range(h, h // 2 + h))      # exclusive parts of r1 / r2
        table[0], table[1] = r1, r2
        l = 2
        for hub, other_ex in ((r1, ex2), (r2, ex1)):
            parts = [other_ex[i:i + q] for i in range(0, len(other_ex), q)]
            if rng.random() < 0.25:
                parts = parts[:-1]
            for part in parts:
                table[l] = sorted(rng.sample(hub, h - q) + part)
                l += 1
        for _ in range(rng.randint(0, 3)):
            b0 = rng.randrange(h // 2 + h + 4)
            table[l] = sorted({b0, b0 + 1})
            l += 1
    else:  # "collisionish": two hubs with satellites whose unions may coincide
        half = rng.choice([4, 8])
        nblocks = half + half // 2 * rng.randint(1, 2) + rng.randint(0, 6)
        r1 = list(range(0, half))
        r2 = list(range(half // 2, half // 2 + half))
        table[0] = r1
        l = 1
        for hub, other in ((r1, r2), (r2, r1)):
            for _ in range(rng.randint(1, 2)):
                k = 3 * half // 4
                ins = sorted(rng.sample(hub, k))
                outs = [b for b in other if b not in hub]
                table[l] = sorted(ins + rng.sample(outs, min(len(outs), half - k)))
                l += 1
            if hub is r1:
                table[l] = r2
                l += 1
        for _ in range(rng.randint(0, 3)):
            b0 = rng.randrange(nblocks)
            table[l] = sorted({b0, min(nblocks - 1, b0 + 1)})
            l += 1
    # random relabelling so that tie-breaks by label index vary
    labs = sorted(table)
    perm = labs[:]
    rng.shuffle(perm)
    table = {perm[i]: table[l] for i, l in enumerate(labs)}
    nblocks = max(max(v) for v in table.values()) + 1 + rng.choice([0, 0, 1])
    labels, chunks = from_table(rng, table, nblocks)
    return {"kind": "plan", "labels": labels, "chunks": chunks, "nlabels": None, "merge": False, "gen": "planted:" + kind}


def gen_random(rng: random.Random, nmax=24):
    ndim = rng.choice([1, 1, 1, 2])
    if ndim == 1:
        n = rng.randint(1, nmax)
        chunks = [random_chunking(rng, n)]
    else:
        a, b = rng.randint(1, 5), rng.randint(1, 6)
        chunks = [random_chunking(rng, a), random_chunking(rng, b)]
        n = a * b
    nl = rng.randint(1, 6)
    pat = rng.choice(["random", "sorted", "periodic", "runs", "rows"])
    if pat == "random":
        labels = [rng.randrange(nl) for _ in range(n)]
    elif pat == "sorted":
        labels = sorted(rng.randrange(nl) for _ in range(n))
    elif pat == "periodic":
        p = rng.randint(1, nl)
        labels = [i % p for i in range(n)]
    elif pat == "runs":
        labels, cur = [], 0
        while len(labels) < n:
            labels += [cur % nl] * rng.randint(1, 4)
            cur += rng.choice([1, 1, 2])
        labels = labels[:n]
    else:
        w = shape_of(chunks)[-1]
        labels = [(i // w) % nl if rng.random() < 0.9 else rng.randrange(nl) for i in range(n)]
    miss = rng.choice([0, 0, 0.15, 0.4])
    labels = [-1 if rng.random() < miss else l for l in labels]
    return {"kind": "plan", "labels": labels, "chunks": chunks, "nlabels": None, "merge": False, "gen": "random:" + pat}


def finish(rng: random.Random, case):
    """choose expected_groups / merge"""
    mx = max(case["labels"])
    r = rng.random()
    if mx < 0 or r < 0.5:
        case["nlabels"] = (mx + 1 + rng.choice([0, 0, 1, 3])) if (mx < 0 or rng.random() < 0.6) else None
    else:
        case["nlabels"] = None
    if case["nlabels"] is None and mx < 0:
        case["nlabels"] = 0
    case["merge"] = rng.random() < 0.5
    return case


# the hand-built witness of the dict-key collision in the merge loop (former finding C09-F12, repaired): 12 blocks, 6 labels
def collision_witness(merge=True):
    table = {
        0: list(range(0, 8)),                 # r1
        1: [0, 1, 2, 3, 4, 5, 8, 9],          # 6/8 inside r1
        2: [0, 1, 2, 3, 4, 5, 10, 11],
        3: list(range(4, 12)),                # r2
        4: [6, 7, 8, 9, 10, 11, 0, 1],        # 6/8 inside r2
        5: [6, 7, 8, 9, 10, 11, 2, 3],
    }
    labels, chunks = [], []
    for b in range(12):
        here = [l for l, bs in sorted(table.items()) if b in bs]
        labels += here
        chunks.append(len(here))
    return {"kind": "plan", "labels": labels, "chunks": [chunks], "nlabels": None, "merge": merge, "gen": "corpus:collision"}
