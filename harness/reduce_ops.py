"""`reduce` operations: one API-level call of flox.groupby_reduce on a 1-D array with one categorical grouper.

For each case the harness computes four things:
  impl   – the real flox (in-process, imported from /repo)
  model  – the Lean model `Flox.run` (through the native driver), given the plan the real code resolved
  spec   – the Lean specification `Flox.specRun`
  oracle – NumPy applied per group in this file (independent of flox and of Lean)
and compares impl~model (tie 1), oracle~spec (tie 2) and impl~oracle (the property itself).
"""
from __future__ import annotations

import math
import random
import warnings
from dataclasses import dataclass, field, asdict
from fractions import Fraction

import numpy as np

from . import core

warnings.filterwarnings("ignore")

NAN = float("nan")
INF = float("inf")

ENGINE_CLASS = {"numpy": "npg", "numba": "npg", "flox": "flox", "numbagg": "numbagg"}
DKIND = {"float64": "f8", "float32": "f4", "int64": "i8", "int32": "i4", "int8": "i1", "uint8": "u1", "bool": "b1", "int16": "i2"}

REDUCTIONS = [
    "sum", "nansum", "prod", "nanprod", "max", "nanmax", "min", "nanmin", "count", "mean", "nanmean", "var", "nanvar",
    "std", "nanstd", "any", "all", "first", "last", "nanfirst", "nanlast", "argmax", "argmin", "nanargmax", "nanargmin",
]
ARG = {"argmax", "argmin", "nanargmax", "nanargmin"}
FIRSTLAST = {"first", "last", "nanfirst", "nanlast"}
APPROX = {"var": "approx", "nanvar": "approx", "std": "sqrt", "nanstd": "sqrt", "mean": "rounded", "nanmean": "rounded"}


@dataclass
class Case:
    func: str
    dtype: str
    vals: list
    labels: list                 # None = missing (NaN) label
    expected: list | None = None
    sort: bool = True
    fill: object = None          # None = not given
    min_count: int | None = None
    ddof: int = 0
    engine: str | None = None
    method: str | None = None    # None / map-reduce / cohorts / blockwise ; "eager" = numpy input
    reindex: bool | None = None
    chunks: list | None = None   # None = eager
    split_every: int = 4
    dask_labels: bool = False
    scheduler: str = "sync"
    stream: str = ""
    label_dtype: str | None = None  # dtype of the label array handed to flox when no label is missing (None: int64 / float64)
    expected_kind: str = "array"   # container handed to flox: "array" (ndarray) | "list" | "index" (pandas.Index) | "range" (pandas.RangeIndex; c.expected is an arithmetic progression)

    def key(self):
        d = asdict(self)
        d.pop("stream")
        return core.case_hash(d)


# ----------------------------------------------------------------------------------------------
# running the implementation

_recorded: dict = {}
_patched = False


def _patch_flox():
    global _patched
    if _patched:
        return
    import flox.core as fc

    orig_agg = fc.dask_groupby_agg
    orig_eng = fc._choose_engine

    def agg_wrapper(*a, **k):
        _recorded["method"] = k.get("method")
        r = k.get("reindex")
        _recorded["reindex"] = None if r is None else r.blockwise
        _recorded["engine"] = k.get("engine")
        cc = k.get("chunks_cohorts")
        _recorded["cohorts"] = None if not cc else [(list(map(int, b)), [int(x) for x in c]) for b, c in cc.items()]
        arr = k.get("array", a[0] if a else None)
        _recorded["chunks"] = list(arr.chunks[-1]) if arr is not None else None
        return orig_agg(*a, **k)

    def eng_wrapper(by, agg):
        e = orig_eng(by, agg)
        _recorded["chosen_engine"] = e
        return e

    fc.dask_groupby_agg = agg_wrapper
    fc._choose_engine = eng_wrapper
    _patched = True


def np_array(c: Case):
    dt = np.dtype(c.dtype)
    if dt.kind == "b":
        return np.array([bool(v) for v in c.vals], dtype=bool)
    if dt.kind in "mM":
        # datetime64 / timedelta64: integers, NaN stands for NaT (the missing value of these dtypes)
        nat = np.iinfo("int64").min
        return np.array([nat if (isinstance(v, float) and v != v) else int(v) for v in c.vals], dtype="int64").view(dt)
    return np.array(c.vals, dtype=dt)


def timelike_as_float(x):
    """datetime64 / timedelta64 results -> float64 with NaN for NaT (so that they compare with the float oracle)"""
    x = np.asarray(x)
    if x.dtype.kind in "mM":
        return np.where(np.isnat(x), np.nan, x.view("int64").astype("float64"))
    return x


def np_labels(c: Case):
    if any(l is None for l in c.labels):
        return np.array([NAN if l is None else float(l) for l in c.labels], dtype="float64")
    if all(float(l).is_integer() for l in c.labels):
        return np.array([int(l) for l in c.labels], dtype=c.label_dtype or "int64")
    return np.array([float(l) for l in c.labels], dtype="float64")


def err_kind(e: BaseException) -> str:
    if isinstance(e, NotImplementedError):
        return "NotImplementedError"
    if isinstance(e, ValueError):
        return "ValueError"
    if isinstance(e, ImportError):
        return "ImportError"
    return "internal:" + type(e).__name__


def run_impl(c: Case):
    """returns dict(kind='ok', groups=[...], vals=ndarray, plan=...) or dict(kind='err', err=..., phase=...)"""
    import dask
    import dask.array as da
    import flox

    _patch_flox()
    _recorded.clear()
    arr = np_array(c)
    by = np_labels(c)
    kw = dict(func=c.func, sort=c.sort)
    if c.expected is not None:
        ex = np.array(c.expected)
        if c.expected_kind == "list":
            ex = list(c.expected)
        elif c.expected_kind == "index":
            import pandas as pd

            ex = pd.Index(ex)
        elif c.expected_kind == "range":
            import pandas as pd

            e = [int(x) for x in c.expected]
            step = (e[1] - e[0]) if len(e) > 1 else 1
            assert step != 0 and all(b - a == step for a, b in zip(e, e[1:])), "expected_kind='range' needs an arithmetic progression"
            ex = pd.RangeIndex(e[0], e[-1] + step, step)
            assert list(ex) == e
        kw["expected_groups"] = ex
    if c.fill is not None:
        kw["fill_value"] = c.fill
    if c.min_count is not None:
        kw["min_count"] = c.min_count
    if c.func in ("var", "nanvar", "std", "nanstd") and c.ddof:
        kw["finalize_kwargs"] = {"ddof": c.ddof}
    if c.engine is not None:
        kw["engine"] = c.engine
    phase = "call"
    try:
        if c.chunks is None:
            res, groups = flox.groupby_reduce(arr, by, **kw)
        else:
            if c.method is not None:
                kw["method"] = c.method
            if c.reindex is not None:
                kw["reindex"] = c.reindex
            darr = da.from_array(arr, chunks=(tuple(c.chunks),))
            dby = da.from_array(by, chunks=(tuple(c.chunks),)) if c.dask_labels else by
            with dask.config.set(split_every=c.split_every):
                res, groups = flox.groupby_reduce(darr, dby, **kw)
                phase = "compute"
                lazy = hasattr(res, "dask")
                if c.scheduler == "sync":
                    res, groups = dask.compute(res, groups, scheduler="sync")
                elif c.scheduler == "threads":
                    res, groups = dask.compute(res, groups, scheduler="threads", num_workers=4)
                else:
                    # seeded random topological order through the harness's own executor
                    from . import graphexec

                    seed = int(c.scheduler.split(":")[1]) if ":" in c.scheduler else 0
                    if lazy:
                        res = graphexec.assemble_1d(graphexec.execute(res, random.Random(seed)))
                    if hasattr(groups, "dask"):
                        groups = graphexec.assemble_1d(graphexec.execute(groups, random.Random(seed + 1)))
                    else:
                        (groups,) = dask.compute(groups, scheduler="sync")
            _recorded["lazy"] = lazy
    except Exception as e:  # noqa
        return dict(kind="err", err=err_kind(e), phase=phase, msg=str(e)[:200], plan=dict(_recorded))
    return dict(kind="ok", groups=np.asarray(groups), vals=timelike_as_float(res), plan=dict(_recorded))


# ----------------------------------------------------------------------------------------------
# oracle (NumPy per group)


def effective_min_count(c: Case):
    if c.min_count is None:
        mc = 1 if (c.fill is not None and c.expected is not None) else 0
    else:
        mc = c.min_count
    fill = c.fill
    if mc > 0 and c.func in ("nansum", "nanprod") and fill is None:
        fill = NAN
    if c.func in ("nanmin", "nanmax") and mc == 0:
        mc = 1
        if fill is None:
            fill = NAN
    return mc, fill


def np_reduce(func: str, ms: np.ndarray, pos: np.ndarray, ddof: int):
    with np.errstate(all="ignore"):
        if func == "count":
            return int(np.sum(~np.isnan(ms))) if ms.dtype.kind == "f" else len(ms)
        if func in ("first", "last"):
            return ms[0] if func == "first" else ms[-1]
        if func in ("nanfirst", "nanlast"):
            ok = ms[~np.isnan(ms)] if ms.dtype.kind == "f" else ms
            if len(ok) == 0:
                return NAN
            return ok[0] if func == "nanfirst" else ok[-1]
        if func in ARG:
            if func.startswith("nan"):
                # NumPy's own nanarg* substitutes NaN by -+inf and may point at a NaN when the true extreme is
                # -+inf; the reference (C06) is the first occurrence of the extreme among the non-NaN members
                valid = ~np.isnan(ms) if ms.dtype.kind == "f" else np.ones(len(ms), bool)
                if not valid.any():
                    return None  # all-NaN: undefined
                ext = ms[valid].max() if "max" in func else ms[valid].min()
                return int(pos[np.flatnonzero(valid & (ms == ext))[0]])
            return int(pos[getattr(np, func)(ms)])
        if func in ("var", "nanvar", "std", "nanstd"):
            n = int(np.sum(~np.isnan(ms))) if func.startswith("nan") and ms.dtype.kind == "f" else len(ms)
            if n <= ddof:
                return NAN
            return getattr(np, func)(ms.astype("float64") if ms.dtype.kind != "f" else ms, ddof=ddof)
        if func in ("any", "all"):
            return bool(getattr(np, func)(ms))
        if func in ("sum", "prod", "nansum", "nanprod") and ms.dtype.kind in "iub":
            return int(getattr(np, func)(ms.astype("int64") if ms.dtype.kind != "u" else ms.astype("uint64")))
        return getattr(np, func)(ms)


def run_oracle(c: Case):
    """returns dict(kind='ok', groups, vals(list; None = undefined by NumPy)) or dict(kind='err', err='ValueError')"""
    arr = np_array(c)
    if arr.dtype.kind == "b" and c.func not in ("any", "all"):
        arr = arr.astype("int64")
    if arr.dtype.kind in "mM":
        arr = timelike_as_float(arr)          # NaT behaves like NaN: skipped by the nan* reductions, propagated by the others
    labs = c.labels
    present = sorted({l for l in labs if l is not None})
    groups = sorted(c.expected) if c.expected is not None else present
    mc, fill = effective_min_count(c)
    out = []
    for g in groups:
        pos = np.array([i for i, l in enumerate(labs) if l is not None and l == g], dtype=int)
        ms = arr[pos]
        if len(ms) == 0:
            if fill is None:
                return dict(kind="err", err="ValueError")
            out.append(fill)
            continue
        nvalid = int(np.sum(~np.isnan(ms))) if ms.dtype.kind == "f" else len(ms)
        if nvalid < mc:
            if fill is None:
                return dict(kind="err", err="ValueError")
            out.append(fill)
            continue
        out.append(np_reduce(c.func, ms, pos, c.ddof))
    return dict(kind="ok", groups=groups, vals=out)


# ----------------------------------------------------------------------------------------------
# model line


def model_line(c: Case, plan: dict) -> str | None:
    """protocol line for the Lean driver, using the plan the real code resolved (None if not expressible)"""
    dt = np.dtype(c.dtype)
    if dt.kind in "mM":
        return None          # datetime64 / timedelta64 are not in the value model: oracle only
    dk = DKIND[dt.name]
    if dt.kind == "b" and c.func not in ("any", "all"):
        dk = "i8"
    eng = c.engine or plan.get("engine") or plan.get("chosen_engine") or "numpy"
    if c.chunks is None:
        p = "eager"
        chunks = ""
    else:
        m = plan.get("method")
        if m is None:
            return None
        chunks = ",".join(str(x) for x in (plan.get("chunks") or c.chunks))
        if m == "map-reduce":
            p = "mapreduce:" + ("1" if plan.get("reindex") else "0")
        elif m == "blockwise":
            p = "blockwise:" + ("1" if plan.get("reindex") else "0")
        else:
            cs = plan.get("cohorts") or []
            p = "cohorts:" + ";".join(".".join(map(str, b)) + "~" + ".".join(map(str, l)) for b, l in cs)
    known = not (c.dask_labels and c.expected is None)
    exp = "-" if c.expected is None else ("[]" if len(c.expected) == 0 else core.toks(c.expected))
    head = (
        f"reduce func={c.func} dk={dk} fill={'-' if c.fill is None else core.tok(c.fill)} "
        f"minc={'-' if c.min_count is None else c.min_count} ddof={c.ddof} eng={ENGINE_CLASS[eng]} "
        f"sort={1 if c.sort else 0} expected={exp} known={1 if known else 0} se={c.split_every} "
        f"float={1 if dt.kind == 'f' else 0} plan={p} chunks={chunks}"
    )
    arr = np_array(c)
    if arr.dtype.kind == "b" and c.func not in ("any", "all"):
        arr = arr.astype("int64")
    return head + " | " + core.toks(c.labels) + " | " + core.toks(arr.tolist())


def parse_outcome(s: str):
    s = s.strip()
    if s.startswith("ok "):
        body = s[3:]
        g, _, v = body.partition("|")
        return dict(kind="ok", groups=[x for x in g.split(",") if x != ""], vals=[x for x in v.split(",") if x != ""])
    if s.startswith("err "):
        return dict(kind="err", err=s[4:].strip())
    return dict(kind="unsupported", why=s)


def parse_model_output(line: str):
    if not line.startswith("model "):
        return dict(kind="bad", why=line), dict(kind="bad", why=line)
    m, _, s = line[6:].partition(" ; spec ")
    return parse_outcome(m), parse_outcome(s)


# ----------------------------------------------------------------------------------------------
# comparisons


def cmp_mode(c: Case) -> str:
    m = APPROX.get(c.func, "exact")
    if c.dtype == "float32" and m != "exact":
        return "sqrt32" if m == "sqrt" else "approx32"
    return m


def isnan(x) -> bool:
    try:
        return math.isnan(float(x))
    except Exception:
        return False


def cmp_impl_model(c: Case, impl: dict, model: dict) -> str | None:
    """None if equal, else a description"""
    if model["kind"] in ("unsupported", "bad"):
        return None
    if impl["kind"] == "err":
        if model["kind"] == "err" and model["err"] == impl["err"]:
            return None
        return f"impl raised {impl['err']} ({impl.get('msg','')}) but model gives {model}"
    if model["kind"] == "err":
        return f"model raises {model['err']} but impl returned values"
    mode = cmp_mode(c)
    g_i = list(np.asarray(impl["groups"]).reshape(-1))
    v_i = list(np.asarray(impl["vals"]).reshape(-1))
    if len(g_i) != len(model["groups"]) or len(v_i) != len(model["vals"]):
        return f"shape differs: impl {len(g_i)} groups/{len(v_i)} vals, model {len(model['groups'])}/{len(model['vals'])}"
    for a, b in zip(model["groups"], g_i):
        if not core.same_value(a, b, "exact"):
            return f"group label differs: model {model['groups']} impl {g_i}"
    for j, (a, b) in enumerate(zip(model["vals"], v_i)):
        if c.func in ARG and not default_in_domain(c, float(core.untok(model["groups"][j]))):
            continue
        if mode.startswith("sqrt") and a in fill_tokens(c) and core.same_value(a, b, "exact"):
            continue
        if not core.same_value(a, b, mode):
            return f"value differs at slot {j}: model {a} impl {b!r}"
    return None


def fill_tokens(c: Case):
    out = {"nan"}
    if c.fill is not None:
        out.add(core.tok(c.fill))
    return out


def cmp_oracle_spec(c: Case, oracle: dict, spec: dict) -> str | None:
    if spec["kind"] in ("unsupported", "bad"):
        return None
    if oracle["kind"] == "err" or spec["kind"] == "err":
        if oracle["kind"] == spec["kind"]:
            return None
        return f"oracle {oracle['kind']} vs spec {spec['kind']}"
    mode = cmp_mode(c)
    if len(oracle["vals"]) != len(spec["vals"]):
        return "length differs"
    for j, (a, b) in enumerate(zip(spec["vals"], oracle["vals"])):
        if b is None:
            continue
        if mode.startswith("sqrt"):
            # the Lean spec returns the variance for std; the oracle is np.std
            if a in fill_tokens(c) and core.same_value(a, b, "exact"):
                continue
        if not core.same_value(a, b, mode):
            return f"slot {j}: spec {a} oracle {b!r}"
    return None


def cmp_impl_oracle(c: Case, impl: dict, oracle: dict, in_domain) -> str | None:
    """the property itself: impl == NumPy per group, on the slots where the property applies"""
    if oracle["kind"] == "err":
        if impl["kind"] == "err" and impl["err"] == "ValueError":
            return None
        if impl["kind"] == "err":
            return f"impl raised {impl['err']}: {impl.get('msg','')}"
        return None  # flox documents no default here: anything goes
    if impl["kind"] == "err":
        return f"impl raised {impl['err']} at {impl['phase']}: {impl.get('msg','')}"
    mode = cmp_mode(c).replace("sqrt", "approx")
    g_i = list(np.asarray(impl["groups"]).reshape(-1))
    v_i = list(np.asarray(impl["vals"]).reshape(-1))
    pairs = {}
    for g, v in zip(g_i, v_i):
        gk = None if (isinstance(g, float) and math.isnan(g)) else Fraction(float(g))
        if gk in pairs:
            return f"label {g} returned twice"
        pairs[gk] = v
    if c.sort and c.chunks is not None or c.sort:
        fl = [float(g) for g in g_i if not (isinstance(g, float) and math.isnan(g))]
        if any(a >= b for a, b in zip(fl, fl[1:])):
            return f"sort=True but labels not strictly ascending: {g_i}"
    want = oracle["groups"]
    if len(pairs) != len(want):
        return f"labels differ: impl {g_i} oracle {want}"
    for g, ov in zip(want, oracle["vals"]):
        gk = Fraction(float(g))
        if gk not in pairs:
            return f"label {g} missing from impl groups {g_i}"
        if ov is None or not in_domain(c, g):
            continue
        iv = pairs[gk]
        if isnan(ov):
            ok = isnan(iv)
        else:
            try:
                fo, fi = float(ov), float(iv)
            except Exception:
                ok = False
            else:
                if isinstance(ov, (int, np.integer)) and isinstance(iv, (int, np.integer)) and not isinstance(ov, (bool, np.bool_)):
                    ok = int(ov) == int(iv)          # exact, also beyond 2**53
                elif mode == "exact" or fo == fi or math.isinf(fo) or math.isinf(fi):
                    ok = fo == fi
                elif mode == "rounded":
                    ok = abs(fo - fi) <= 2 * math.ulp(fo)
                elif mode == "approx32":
                    ok = abs(fo - fi) <= 1e-5 + 1e-5 * abs(fo)
                else:
                    ok = abs(fo - fi) <= 1e-9 + 1e-9 * abs(fo)
        if not ok:
            return f"label {g}: impl {iv!r} oracle {ov!r}"
    return None


def default_in_domain(c: Case, g) -> bool:
    """restrictions the properties themselves state (C01 quantifier)"""
    ms = [v for v, l in zip(c.vals, c.labels) if l is not None and l == g]
    isnan = [isinstance(v, float) and math.isnan(v) for v in ms]
    if c.func in ("argmax", "argmin") and any(isnan):
        return False
    if c.func in ("nanargmax", "nanargmin") and (all(isnan) if ms else False):
        return False
    return True


# ----------------------------------------------------------------------------------------------
# generators

ALPHA_FINITE = [-3, -2, -1, 0, 1, 2, 3, 5]


def gen_vals(rng: random.Random, n: int, dtype: str, stream: str):
    dt = np.dtype(dtype)
    if dt.kind == "b":
        return [rng.random() < 0.5 for _ in range(n)]
    if dt.kind == "u":
        return [rng.choice([0, 1, 2, 3, 5]) for _ in range(n)]
    if dt.kind == "i":
        return [rng.choice(ALPHA_FINITE) for _ in range(n)]
    out = []
    for _ in range(n):
        r = rng.random()
        if stream == "nan" and r < 0.4:
            out.append(NAN)
        elif stream == "inf" and r < 0.3:
            out.append(rng.choice([INF, -INF]))
        elif stream == "mixed" and r < 0.35:
            out.append(rng.choice([NAN, NAN, INF, -INF]))
        elif stream == "infnan" and r < 0.85:
            # mostly NaN and infinities of ONE sign per draw sequence: groups whose valid values are all +inf / all -inf,
            # next to NaN - the cells in which an infinity can be mistaken for a sentinel
            out.append(rng.choice([NAN, NAN, INF, INF, -INF, -INF]) if r < 0.5 else rng.choice([NAN, -INF] if n % 2 else [NAN, INF]))
        else:
            out.append(float(rng.choice(ALPHA_FINITE)))
    return out


def gen_labels(rng: random.Random, n: int, ngroups: int, missing: float, pattern: str = "random"):
    base = rng.sample([0, 1, 2, 3, 4, 7, 9, -2, -1], ngroups)   # (-1 is also the code flox gives missing labels)
    if pattern == "sorted":
        labs = sorted(rng.choice(base) for _ in range(n))
    elif pattern == "periodic":
        labs = [base[i % ngroups] for i in range(n)]
    elif pattern == "runs":
        labs = []
        while len(labs) < n:
            labs += [rng.choice(base)] * rng.randint(1, 3)
        labs = labs[:n]
    else:
        labs = [rng.choice(base) for _ in range(n)]
    return [None if rng.random() < missing else l for l in labs]


def gen_chunks(rng: random.Random, n: int, kind: str | None = None):
    kind = kind or rng.choice(["ones", "single", "random", "random", "random", "even"])
    if kind == "ones":
        return [1] * n
    if kind == "single":
        return [n]
    if kind == "even":
        k = rng.randint(1, max(1, n // 2))
        out = [k] * (n // k)
        if n % k:
            out.append(n % k)
        return out
    out = []
    left = n
    while left > 0:
        k = rng.randint(1, min(left, 4))
        out.append(k)
        left -= k
    return out


def gen_expected(rng: random.Random, labels: list, mode: str | None = None):
    present = sorted({l for l in labels if l is not None})
    mode = mode or rng.choice(["none", "none", "superset", "subset", "disjoint", "exact", "unsorted"])
    if mode == "none":
        return None
    if mode == "exact":
        return present or [0]
    if mode == "superset":
        return sorted(set(present) | {11, 12})
    if mode == "subset":
        keep = [p for p in present if rng.random() < 0.6]
        return keep or [11]
    if mode == "disjoint":
        return [11, 12]
    ex = sorted(set(present) | {11})
    rng.shuffle(ex)
    return ex
