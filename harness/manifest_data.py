"""Data for MANIFEST.json (one entry per claimed property)."""

TB = ("Trusted: Lean kernel; axioms ⊆ {propext, Classical.choice, Quot.sound}; translator + correspondence harness; "
      "third-party contracts in the model (numpy/numpy_groupies/numbagg/pandas/dask) validated by execution only; "
      "exact arithmetic instead of IEEE rounding.")


def chk(pid, text, technique, design_ref, note=TB):
    return {
        "property_id": pid,
        "quick_cmd": f"./check {pid} --tier quick",
        "thorough_cmd": f"./check {pid} --tier thorough",
        "evidence_file": f"evidence/{pid}.json",
        "replay_cmd_template": f"./check {pid} --replay {{path}}",
        "engine": "lean-model",
        "level_claimed": {"category": "proof", "text": text, "design_ref": design_ref},
        "level_note": note,
        "technique": technique,
    }


CHECKS = [
    chk("C01",
        "Lean theorems: the grouped-kernel contract puts in every slot the NumPy reduction of exactly that group's members "
        "(original order), dropped codes affect no slot, flox's sort+reduceat engine equals that contract; the model is tied to "
        "/repo by the regenerated registry/_initialize_aggregation tables and by differential execution of groupby_reduce on all "
        "engines against the Lean model and a NumPy oracle.",
        "Lean 4 proof over a hand-written model + generated tables; correspondence (differential) tie; failing-input search",
        "DESIGN.md §7 C01"),
]

_PENDING = "check not built yet in this round (planned: Lean model + correspondence, see DESIGN.md §7)"
NOT_APPLICABLE = [{"property_id": f"C{n:02d}", "reason": _PENDING} for n in range(2, 21)]

NOTES = ("All checks are `./check <id>`: translator -> lake build (proofs re-checked) -> axiom audit -> correspondence streams -> "
         "verdict/evidence. Exit 0 = held; exit 1 + VIOLATION line; exit 2 = infrastructure error (never a VIOLATION).")
