"""Data for MANIFEST.json (one entry per claimed property)."""

TB = ("Trusted: Lean kernel; axioms ⊆ {propext, Classical.choice, Quot.sound}; translator + correspondence harness; "
      "third-party contracts in the model (numpy/numpy_groupies/numbagg/pandas/dask) validated by execution only; "
      "exact arithmetic instead of IEEE rounding.")


def chk(pid, text, technique, design_ref, note=TB):
    return {
        "property_id": pid,
        "quick_cmd": f"./check {pid} --tier quick",
        "thorough_cmd": f"./check {pid} --tier thorough",
        "evidence_file": f"evidence/{pid}.json",
        "replay_cmd_template": f"./check {pid} --replay {{path}}",
        "engine": "lean-model",
        "level_claimed": {"category": "proof", "text": text, "design_ref": design_ref},
        "level_note": note,
        "technique": technique,
    }


CORR = "Lean 4 proof over a hand-written model + generated tables; correspondence (differential) tie; failing-input search"

CHECKS = [
    chk("C01",
        "Lean theorems: the grouped-kernel contract puts in every slot the NumPy reduction of exactly that group's members "
        "(original order), dropped codes affect no slot, flox's sort+reduceat engine equals that contract (stable sort proved), "
        "engine independence at kernel level, and the eager pipeline equals the NumPy-per-group specification; tied to /repo by the "
        "regenerated registry/_initialize_aggregation tables and by differential execution of groupby_reduce on all engines "
        "against the Lean model and a NumPy oracle, of the engines called directly (generic_aggregate, every slot against the "
        "Lean engine models) and of calls flox documents a refusal for (refused or answered correctly).", CORR, "DESIGN.md §7 C01"),
    chk("C02",
        "Lean theorems: for every chunking and every split_every the map-reduce plan with simple combine yields, in every slot, "
        "blockVal of all members (independent of chunks/tree) and hence the eager result; generated rows are shown to have a proven "
        "shape; the other plans (combine-time reindex, cohorts, blockwise, grouped combine) are tied by differential execution "
        "of the real graph against the Lean pipeline model (which reproduces them exactly) and the NumPy oracle; the streams include "
        "RangeIndex / narrow-dtype / fractional requested labels, the label -1, integer data on the default (numbagg) engine and "
        "calls flox documents a refusal for (refused or answered correctly).", CORR, "DESIGN.md §7 C02"),
    chk("C03",
        "Lean theorems: any bracketing of the n-ary combine over ordered parts gives blockVal of the concatenated members "
        "(PTree.eval_eq, no commutativity assumed), the tree built by treeReduce for any split_every gives the same Inter; real graphs "
        "are executed under sync / threaded schedulers and in seeded random topological orders for split_every 2..#blocks and compared "
        "with model, oracle and a reference run.", CORR, "DESIGN.md §7 C03"),
    chk("C05",
        "Lean spec `Spec.slot` (one slot per requested label; fill verbatim when absent or under min_count) proved equal to the "
        "model's eager/map-reduce result under the documented contract; the implicit min_count rule and the nanmin/nanmax default "
        "are modelled from the regenerated _initialize_aggregation table; differential execution over fills {NaN,0,False,-7,1e6} x "
        "min_count {None,0,1,2,20} x expected super/sub/disjoint/unsorted sets x all plans.", CORR, "DESIGN.md §7 C05"),
    chk("C06",
        "Lean model of the (value, global index) intermediates and of first/last combines; arg-reduction decomposition law "
        "(first extreme wins, block order preserved) and order-aware nanfirst/nanlast column laws (combine_parts, no commutativity); "
        "differential execution with ties and NaNs on both sides of every chunk boundary, single chunk / all size-1 chunks, tree "
        "depth up to 4.", CORR, "DESIGN.md §7 C06"),
    chk("C16",
        "Lean model returns labels in the order the code produces them (sorted / expected order / first appearance) and the "
        "label->value mapping theorems are those of C01/C02; the harness checks strict ascending order, the sort=False order contract "
        "and mapping equality against the oracle for every plan.", CORR, "DESIGN.md §7 C16"),
    chk("C20",
        "Lean theorems: flox engine nanmax/nanmin keep +-inf extremes (all-NaN detected by count, floxEngine_eq_blockVal), one-pass "
        "variance = two-pass variance in exact arithmetic for all inputs incl. NaN/inf (var_finalize); a width-aware "
        "two's-complement model of integer accumulation (FloxModel/IntWidth: wrap after every step; engines cast first, then "
        "accumulate; chunked = any tree of wrapping partial sums): cast-first accumulation at the table's 64-bit accumulator equals "
        "the exact sum / product for every chunking, block order and tree whenever the total fits (cast_first_exact_all_plans, "
        "chunkedSum_eq_wrap_total), accumulating at the input width does not (counterexample theorems = the repaired defects), and "
        "the regenerated dtype table gives a 64-bit accumulator of the right signedness for every integer input (table_accumulators_64bit). "
        "Tie: every integer sum/prod case of the stream is replayed through the model at the width of the dtype flox returned "
        "(driver op intwidth) and must agree; the evidence counts how many cases lie in the wrap region. Rounding is observed "
        "(var/std eager vs chunked within 1e-9).", CORR, "DESIGN.md §7 C20",
        note=TB + " Floating-point rounding is a runtime behaviour the exact model cannot exhibit: observed, not proved. That the engines "
        "really accumulate sequentially in the dtype they are handed (NumPy reduceat / numpy_groupies / numbagg) is a third-party contract, "
        "validated by execution."),
    chk("C18",
        "Lean theorems over the model of aggregate_flox.quantile_ (one partition of label+1j*value, cumulative valid counts as "
        "offsets, floor/ceil, _lerp, NaN masks): for every array of finite values and NaNs, any unsorted codes, q in [0,1] and "
        "either NaN policy every slot holds NumPy's linear-interpolation (nan)quantile of exactly that group's members (all-NaN "
        "groups included), absent groups get the fill; _lerp is exact interpolation within its bounds; a vector q adds one leading "
        "axis in the given order, a scalar none; chunked input is accepted under the blockwise plan only and a group spanning "
        "blocks is refused. Tied to /repo by differential execution of groupby_reduce (eager and dask, engines "
        "flox/numpy/default, 1-D and 2-D, scalar and vector q) against the Lean model and a NumPy oracle, exhaustive over all "
        "arrays on {NaN,1,4} x labellings on {0,1,2} up to length 4 (sorted: 6) in thorough.",
        "Lean 4 proof over a hand-written model; correspondence (differential) tie incl. bounded-exhaustive enumeration; "
        "failing-input search",
        "DESIGN.md §7 C18"),
    chk("C10",
        "Lean theorems over a bug-for-bug model of groupby_scan (aggregate_flox.ffill, numpy_groupies nancumsum, chunk_scan, "
        "grouped_reduce, scan_binary_op in both modes incl. the nanlast state update, dask's Blelloch wiring, entry shortcuts, "
        "reverse for bfill): the kernels equal the per-group sequential NumPy scan (ffill for all inputs; nancumsum without +-inf), "
        "the state-combine is a homomorphism so ANY bracketing of the carried prefixes and ANY chunking gives the eager result, "
        "bfill = reverse . ffill . reverse, no cross-group flow; named exclusions (shortcut, +-inf) each with a kernel-checked "
        "counterexample confirmed on the real code (findings C10-F1..F5). Tie: differential execution of flox.groupby_scan "
        "(eager and dask, every chunking of small arrays exhaustively) against the Lean model/spec and a pure-Python oracle.",
        "Lean 4 proof over a hand-written model; correspondence (differential) tie incl. exhaustive small-space enumeration; "
        "failing-input search",
        "DESIGN.md §7 C10"),
    chk("C17",
        "Lean theorems over an executable model of _get_optimal_chunks_for_groups, rechunk_for_blockwise (factorise + optimal) and "
        "the division loop of rechunk_for_cohorts, for all label vectors / chunkings / hints: new chunks are positive and sum to "
        "the axis length; for sequential labels (each label one contiguous run) no group straddles a new boundary and every "
        "label lives in exactly one block (what method='blockwise' relies on); after rechunk_for_cohorts position 0 and every "
        "forced label start a chunk and, unless ignore_old_chunks, every old boundary is kept; the helper returns iff the label "
        "length matches and a forced label occurs. Necessity of the sequential hypothesis and of the 'unless' shown by "
        "counterexample theorems. Model tied to /repo by differential execution (array, DataArray, Dataset flavours, the "
        "internal rechunk of groupby_reduce(method='blockwise'), memoisation history) incl. exhaustive enumeration of all "
        "run-length patterns x chunkings for n<=9; same shape/dtype/values and untouched other axes are checked by "
        "execution only (dask/xarray are not modelled).",
        "Lean 4 proof over a hand-written model; correspondence (differential) tie with exhaustive small-scope enumeration; "
        "independent Python oracle for the postconditions; failing-input search",
        "DESIGN.md §7 C17"),
    chk("C08",
        "Lean theorems on a model of the partial-axis path (normalize_axis_tuple, _move_reduce_dims_to_end, _collapse_axis, "
        "offset_labels, nan sentinel, min_count forced to 1, result shapes of chunk_reduce/_squeeze_results and of the graph): for "
        "ALL sizes, the grouped kernel on offset codes equals the row-wise 1-D kernel (no slice leaks into another), the result for "
        "a stack is the stack of results, a group absent from a slice gets the fill, every output axis but the last is the i-th "
        "kept dim in ascending order for every subset/order/sign of axis, eager and announced chunked shapes coincide; the chunked "
        "graph is proved order-independent for proper subsets of the label dims and, PARTIAL, for all label dims only when the last "
        "array axis is given last (counterexample theorem; finding C08-F1). Values through the transposition for 3-D labels / "
        "several axes and the chunked values are tied by differential execution against a NumPy slice-by-slice oracle over the "
        "exhaustively enumerated axis space.",
        "Lean 4 proof over a hand-written model; correspondence (differential) tie with exhaustive axis enumeration; failing-input search",
        "DESIGN.md §7 C08"),
    chk("C04",
        "Lean theorems: for every built-in intermediate column (chunk kernel, combine kernel, resolved fill) merging the block values "
        "of ANY ordered split of a group's members (empty and all-NaN parts allowed) gives the block value of the concatenation "
        "(combine_parts), absent / all-NaN blocks are neutral, any reduction tree gives the same value, mean / var / std finalizers on "
        "the merged 2- and 3-column intermediates equal the NumPy kernels; max / min / nanmax / nanmin keep the law with the finite "
        "integer-dtype fills when the data are within the dtype range (shown necessary by a counterexample); registry tie: every entry "
        "of the live AGGREGATIONS with a chunk function is literally one of the hand-written proven blueprints and "
        "_initialize_aggregation resolves its fills as assumed (decide over the regenerated tables; an edited combine / fill / "
        "finalizer breaks the build); user-defined Aggregation objects: for an ARBITRARY resolved blueprint the chunked result is the "
        "tree fold of the per-block values with the user's combine kernel (userAggregation_machinery), with the column laws it is the "
        "single-block / eager result; differential execution of every split of every small member multiset into 2-3 blocks for all 23 "
        "chunk-capable built-ins and 19 user aggregations (lawful and unlawful) against the Lean model, a NumPy oracle and eager flox.",
        CORR, "DESIGN.md §7 C04"),
    chk("C12",
        "Second sentence (labels found at compute time): Lean theorems over the model `runUnknown` of the path taken for dask "
        "labels without expected_groups (map-reduce without reindexing, _grouped_combine discovering the union of the blocks' "
        "labels at every tree node, finalisation without expected groups): for every simple-combine reduction with a proven "
        "Shape, EVERY chunking and split_every, the pair (discovered labels, values) equals (labels eager factorisation finds, "
        "Spec.reduce over the eager codes) i.e. the eager mapping (unknown_labels_same_mapping, runUnknown_eq_spec); the "
        "discovered labels are duplicate-free, exactly the non-missing labels, ascending for sort=True; chunking and tree are "
        "irrelevant; when every label is missing no label is found, as eagerly (runUnknown_all_missing; this was finding "
        "C12-F2 before fix 2e9744c). First sentence (laziness) is a runtime fact of the Python code and is OBSERVED, not proved: groupby_reduce, "
        "groupby_scan and xarray_reduce are called with dask arrays whose every chunk raises+counts when evaluated (values, and "
        "labels when chunked) under raising+counting schedulers, exhaustively over reduction x method x numpy|dask labels x "
        "expected_groups x reindex (x engine in thorough) and over seeded random layouts (n-D, axis subsets, degenerate label "
        "sets, scans, DataArray/Dataset); checked: zero chunk evaluations, zero scheduler invocations, a documented refusal or a "
        "dask-backed result, group labels in-memory or lazy. The unknown-labels path is tied to /repo by differential execution "
        "(real data, all chunkings, NaN/unsorted labels; exhaustive over label vectors on {1,2,missing} x chunkings, n<=4) of "
        "groupby_reduce against the eager call, the Lean model and a NumPy oracle.",
        "Lean 4 proof over a hand-written model (value half) + runtime instrumentation over an exhaustively enumerated "
        "configuration grid (laziness half); correspondence (differential) tie; failing-input search",
        "DESIGN.md §7 C12",
        note=TB + " Laziness itself (that the Python call evaluates no chunk) cannot be expressed in the functional model: it is "
                  "observed by instrumentation on every generated configuration, not proved."),
    chk("C09",
        "Lean theorems over a bug-for-bug model of _compute_label_chunk_bitmask + find_group_cohorts (any number of label axes, any "
        "thresholds): whatever the planner returns lists every present label exactly once and each cohort's blocks contain every block "
        "holding a member of its labels (or it is the unused ('map-reduce', {}) answer of merge=False); 'blockwise' only if every "
        "present label sits in one block; cohort blocks are exactly the union of its labels' blocks; an element is picked up by exactly "
        "one (cohort, label) slot; the planner always answers (its two asserts never fire; cohorts with equal block unions are joined). Tie: differential execution of the real planner against the model "
        "(exact outcome incl. dict order), exhaustive over all label vectors in {-1,0,1,2}^n with all chunk layouts (n<=7, 2x3/3x2 grids) "
        "in the thorough tier and sampled planted patterns beyond; the graph half of the property (dependency closures of every output "
        "chunk of real lazy results, provenance sums of 2**i data for every method) is observed on the real dask graphs, not proved.",
        "Lean 4 proof over a hand-written model; correspondence (differential) tie incl. exhaustive small-scope enumeration; "
        "dependency-closure and provenance observation of real dask graphs; failing-input search",
        "DESIGN.md §7 C09",
        TB + " C09: dask graph construction (subset_to_blocks / _tree_reduce wiring) is not modelled - closures and provenance are runtime "
        "observations; float thresholds equal the model's exact comparisons only below 196 blocks per label. "
        "The defects found by this check (C09-F1 silent wrong result from a per-cohort layer-name collision on N-D block grids, C09-F12 "
        "AssertionError on a dict-key collision) are repaired in /repo; their witnesses run first as corpus cases."),
    chk("C13",
        "Lean theorems over a generic task-graph / scheduler model (tasks = functions of the values of the keys they read; memo "
        "table; schedules with repeated executions, lost results and shipped tasks): the table of ANY complete dependency-respecting "
        "schedule is the unique solution of the graph's equations (spec `Solution`, no schedule mentioned), hence any two "
        "interleavings agree; re-executing any subset of tasks any number of times at any later position is always possible and "
        "changes nothing; losing results and recomputing them never stores a different value; a faithful pickle round trip of tasks "
        "changes no schedule's result; all for arbitrary graphs and sizes. Necessity of purity shown by kernel-checked "
        "counterexamples over tasks that write into an input shared with a sibling (result depends on order and on re-execution). "
        "PARTIAL by nature: that flox's Python callables ARE pure is a runtime fact, observed not proved: every task of real graphs "
        "(29 reductions x plans x engines x label kinds x 1-D/2-D x chunkings x raw/optimised graphs, 3 scans) is executed by an "
        "instrumented executor with read-only + hashed inputs, hashed task state, double execution, cloudpickle round trips (before "
        "and after the first execution), later re-executions and lost results, on frozen and on writable buffers, and compared "
        "bitwise with dask's synchronous and threaded (x5) schedulers, the eager result, and the user's arrays before/after; thorough "
        "enumerates all interleavings and all re-execution subsets of small graphs. The real graphs' key/dependency structure and "
        "the executed schedules are replayed in the Lean model (must accept them, one table) and an independent recursion is "
        "checked against the Lean spec.",
        "Lean 4 proof over a generic scheduler model; instrumented execution of the real task graphs (purity / re-execution / "
        "serialisation observed per task) tied to the model through the graphs' structure and the executed schedules; exhaustive "
        "interleavings of small graphs; failing-input search",
        "DESIGN.md §7 C13",
        note=TB + " Purity of Python callables, aliasing views and pickling of closures are runtime behaviours: observed on every "
                  "executed task, not proved."),
    chk("C07",
        "Lean theorems (all sizes, by induction): the bin code flox computes (np.digitize - 1, the within_bins mask and, for a "
        "non-contiguous IntervalIndex, the gap mask) equals the pandas.cut code on every sorted non-overlapping interval list - "
        "contiguous or with gaps - for every value incl. NaN/+-inf and both closed sides, and is i exactly when the value lies in "
        "interval i; ravel_multi_index(mode='wrap') with the -1 restore is inverted by unravel, is injective on in-range code "
        "tuples and is -1 iff some grouper dropped the element; hence every entry (i, j, ...) of the reshaped result is the NumPy "
        "reduction of exactly the elements whose code tuple is (i, j, ...); broadcasting of size-1 grouper axes commutes with "
        "coding; for dask labels the block-by-block factorisation against the global found groups equals the whole-array "
        "factorisation (lazy = eager). Tie: differential execution of _convert_expected_groups_to_index/_factorize_multiple/"
        "_ravel_factorized/_factorize_single and of groupby_reduce with 1-3 groupers (eager, dask values, dask labels, "
        "broadcasting 2-D labels) against the Lean model and a pandas.cut / tuple-key oracle; exhaustive small-space enumerations "
        "in the thorough tier; the witnesses of the four repaired defects C07-F1..F4 run first as corpus cases.",
        "Lean 4 proof over a hand-written model; correspondence (differential) tie; exhaustive enumeration of small spaces; "
        "failing-input search",
        "DESIGN.md §7 C07"),
    chk("C11",
        "Lean theorems over the WHOLE finite grid reduction(31) x input dtype(13) x dtype=(4) x fill_value(5) x min_count x engine "
        "(kernel-checked enumeration; the grid is the property's quantifier over dtypes): the dtype model of groupby_reduce "
        "(hand-written entry/exit logic + _initialize_aggregation table regenerated from /repo) equals NumPy's convention "
        "(requested dtype, else NumPy default of the reduction, widened by result_type to hold the fill) outside one named table-level "
        "deviation cell (bool input of mode; counterexample theorem), never refuses inside NumPy's domain, is engine-independent and min_count-independent "
        "(one documented cell), accumulates integers in 64-bit dtypes, and is stable under the final reindex; the spec's promotion "
        "rules are tied to NumPy's own tables (result_type, min_scalar_type, iinfo, np.<reduction>(a).dtype). Structural theorems "
        "(all label lists / chunkings): announced group-axis chunks = groups returned by the blocks for blockwise, reindexed "
        "map-reduce and cohorts. Differential execution: every grid cell x engine eagerly and on the dask plans, comparing dtype / "
        "shape / chunks / type(_meta) announced before compute with the computed array and every computed block, with the Lean "
        "model, and with an oracle computed by NumPy itself.",
        "Lean 4 proof by kernel-checked enumeration of a generated table + structural proofs; correspondence (differential) tie; "
        "metadata truthfulness observed on real dask graphs", "DESIGN.md §7 C11",
        note=TB + " That every plan really ends in the final cast, and announced == computed metadata of real dask arrays, are "
        "runtime facts: observed on every cell, not proved. Values of the fills/dtypes outside the 13 x 4 x 5 grid are not covered."),
    chk("C15",
        "PARTIAL. Lean theorems over an executable metadata model of flox.xarray.xarray_reduce (grouper_dims, dim_tuple for "
        "dim=None/.../explicit, xr.broadcast, the plain-reduction shortcut, missing_dim pass-through, apply_ufunc's broadcast "
        "dims ++ output core dims, <name>_bins, and _restore_dim_order as a stable sort by lookup_order), for ALL dims lists and "
        "all choices of reduced dims: the group dim takes the place of the grouper's dim (DataArray, 1-D grouper), comes first "
        "in a Dataset, last for N-D groupers; on the supported calls the dims of every result variable, the reduced dims and "
        "the surviving coordinates are those of native xarray's groupby (rule written as the specification); every restriction is "
        "shown necessary by a counterexample theorem (findings C15-F1, F4, F6, F7 and three order conventions); the skipna -> nan* "
        "renaming equals a table recorded from the real wrapper (all reductions x 8 dtype kinds x skipna). Values, coordinates, "
        "names, attrs and dtype are NOT modelled: they are compared by differential execution of xarray_reduce against native "
        "xarray groupby with flox disabled (DataArrays/Datasets of 1-4 dims in random order, 1-D/2-D/external/binned/several "
        "groupers, dim None/.../subset, skipna, min_count, keep_attrs, dask), against groupby_reduce on the transposed underlying "
        "arrays, and against 'unchanged' for pass-through variables; the Lean model and spec are tied to the real flox / native "
        "xarray dims on every generated case and on an exhaustive enumeration of all 1-3-D DataArray dim orders x groupers x dims.",
        "Lean 4 proof over a hand-written metadata model + generated table; correspondence (differential) tie with exhaustive "
        "small-space enumeration; native xarray as independent oracle; failing-input search",
        "DESIGN.md §7 C15"),
    chk("C19",
        "Lean model of the validation / planning chain of groupby_reduce (`_validate_reindex`, `_choose_method`, `_choose_engine`, the "
        "entry guards and the guards at the top of dask_groupby_agg) on an abstract configuration cell; the three decision functions "
        "are proved equal to tables regenerated from the live code (decide +kernel), and theorems proved for every cell by exhaustive "
        "kernel evaluation: on aligned input the chain never fails an assertion - every refusal is ValueError / NotImplementedError / "
        "ImportError (full; the former counterexamples are now clean refusals), every accepted plan satisfies the strategy-specific preconditions "
        "(cohorts never with blockwise reindexing, arg-reductions never on the flox engine / blockwise only on one block, ...), "
        "method=None is accepted wherever method='map-reduce' is (and only there for reductions with a chunk function). The "
        "data-dependent part (no internal error at compute time, values = NumPy oracle, auto = map-reduce, cohorts/blockwise match or "
        "are refused) is checked by differential execution over the enumerated cells (reduction x engine x method x reindex x label "
        "kind x label/value ndim x axis x expected_groups x layout) against the Lean model (call-time outcome and resolved plan), a "
        "NumPy oracle and the Lean specification `Spec19.violations`.", CORR, "DESIGN.md §7 C19",
        note=TB + " Behaviour inside graph construction and at compute time is observed on the enumerated cells, not proved; the open "
        "finding C19-F5 is recorded in KNOWN_FINDINGS.json (the others were repaired in /repo)."),
    chk("C14",
        "Lean theorems over a model of flox's process state (registry of blueprints with the fields _initialize_aggregation and "
        "groupby_scan write, the cachey / lru memo tables keyed by the token of the full argument, evictions): after ANY sequence "
        "of calls from any state the registry is unchanged and a caller's Aggregation object is returned untouched "
        "(registry_invariant, arguments_unchanged; the model's copy switch is regenerated from behavioural probes of the live "
        "code); a memoised function equals the pure function for every sound table and eviction (memo_refines); every call's "
        "result after any history equals a function of its arguments and the pristine registry (history_independent, "
        "last_call_eq_first_call, trace_eq_spec); necessity shown by kernel-checked counterexamples (no copy: `nanlen` "
        "accumulates; a key ignoring the labels serves stale chunks). Graphs as finite maps with union = later insertion wins: "
        "if two graphs agree on shared keys every key evaluates in the union, in either order, to its stand-alone value "
        "(merge_safe, any semantics, any depth); the table of ingredients hashed into each kind of task name covers what the "
        "tasks depend on (tokenCovers_holds) and agrees with names produced by the real API (generated_rows_ok, regenerated on "
        "every run), hence graphs of any two configurations are compatible (names_compatible, names_merge_safe); counterexamples "
        "for incompatible graphs and for a token that omits min_count. PARTIAL in one respect: tokens are modelled as injective "
        "on what flox hands to dask; flox hands Aggregation fields over un-normalised, so ndarray-valued finalize_kwargs enter "
        "the token through repr() (finding C14-F1, found and isolated by the names stream). Tie: differential execution - "
        "random histories of real API calls with registry snapshots, argument-buffer hashes and probes compared with "
        "pristine processes; every recorded stateful internal call replayed in the Lean model and re-derived by a pure-Python "
        "oracle; pairs/triples of lazy results differing in one ingredient computed together in all orders vs alone with all "
        "tasks executed and shared keys compared; the real graphs' skeletons union-evaluated in Lean.",
        "Lean 4 proof over a hand-written state / naming / graph-union model + generated tables (token fields, copy sites); "
        "correspondence (differential) tie incl. exhaustive enumeration of one-ingredient pairs over small grids; pristine-process "
        "references; failing-input search",
        "DESIGN.md §7 C14"),
]

_PENDING = "check not built yet in this round (planned: Lean model + correspondence, see DESIGN.md §7)"
_DONE = {c["property_id"] for c in CHECKS}
NOT_APPLICABLE = [{"property_id": f"C{n:02d}", "reason": _PENDING} for n in range(1, 21) if f"C{n:02d}" not in _DONE]

NOTES = ("All checks are `./check <id>`: translator -> lake build (proofs re-checked) -> axiom audit -> correspondence streams -> "
         "verdict/evidence. Exit 0 = held; exit 1 + VIOLATION line; exit 2 = infrastructure error (never a VIOLATION).")
