"""C11 — result dtype, shape and chunk metadata are plan-independent and truthful.

For a cell (reduction, input dtype, dtype=, fill_value, min_count) the harness calls the REAL flox.groupby_reduce on a
6-element canonical input on every engine and plan and records
  * eager: result.dtype / .shape
  * dask : dtype / shape / chunks / type(_meta) / _meta.dtype ANNOUNCED before compute, then the computed array and every
           computed block (one `dask.compute` of all blocks + the whole array), plus the plan flox resolved and the chunks
           `dask_groupby_agg` itself announced along the group axis.
It compares
  tie 1  : implementation dtype (and refusals) vs the Lean dtype model (driver op `dtype`), announced group-axis chunks vs
           the Lean chunk model (driver op `dchunks`);
  tie 2  : an independent oracle computed here with NumPy itself (np.sum(a).dtype, np.result_type, np.min_scalar_type …)
           vs the Lean specification `npConvention`;
  direct : announced == computed == every block (dtype, shape, chunk sizes, array type); implementation dtype == oracle;
           same dtype / shape for every engine, plan, chunking and label layout of one cell; no crash in a cell where
           another engine / plan returns.
"""
from __future__ import annotations

import itertools
import math
import os
import random
import warnings

import numpy as np

from . import core
from .framework import Prop, Report

warnings.filterwarnings("ignore")

FUNCS = ["any", "all", "count", "sum", "nansum", "prod", "nanprod", "mean", "nanmean", "var", "nanvar", "std", "nanstd",
         "max", "nanmax", "min", "nanmin", "argmax", "nanargmax", "argmin", "nanargmin", "first", "nanfirst", "last",
         "nanlast", "median", "nanmedian", "quantile", "nanquantile", "mode", "nanmode"]
DTYPES = ["bool", "int8", "int16", "int32", "int64", "uint8", "uint16", "uint32", "uint64", "float32", "float64",
          "datetime64[ns]", "timedelta64[ns]"]
USERS = [None, "float32", "float64", "int64"]
FILLS = [None, 0, -7, 10**6, "nan"]
ENGINES = ["numpy", "flox", "numbagg", None]
PLANS = ["eager", "map-reduce", "cohorts", "blockwise"]
ARG = {"argmax", "argmin", "nanargmax", "nanargmin"}
MINMAX = {"max", "nanmax", "min", "nanmin"}
FIRSTLAST = {"first", "last", "nanfirst", "nanlast"}
REFUSALS = ("NotImplementedError", "ValueError", "DTypePromotionError")

LAYOUTS = {  # name -> (labels, chunks)
    "interleaved-222": ([0, 1, 0, 1, 2, 2], (2, 2, 2)),
    "interleaved-33": ([0, 1, 0, 1, 2, 2], (3, 3)),
    "sorted-222": ([0, 0, 1, 1, 2, 2], (2, 2, 2)),
    "sorted-24": ([0, 0, 1, 1, 2, 2], (2, 4)),
    "sorted-231": ([0, 0, 1, 1, 1, 2], (2, 3, 1)),
}


def core_name(f):
    return f[3:] if f.startswith("nan") else f


def fill_value(tok):
    return float("nan") if tok == "nan" else tok


def fill_tok(tok):
    return "-" if tok is None else str(tok)


def make_array(dt):
    if dt == "bool":
        return np.array([True, False, True, True, False, True])
    return np.array([1, 0, 3, 2, 0, 5]).astype(dt)


# ------------------------------------------------------------------------------------------------
# the implementation

_rec: dict = {}
_patched = False


def _patch():
    global _patched
    if _patched:
        return
    import flox.core as fc

    orig = fc.dask_groupby_agg

    def wrapper(*a, **k):
        res = orig(*a, **k)
        r = k.get("reindex")
        cc = k.get("chunks_cohorts")
        arr = k.get("array", a[0] if a else None)
        by = k.get("by", a[1] if len(a) > 1 else None)
        _rec.update(method=k.get("method"), reindex=None if r is None else r.blockwise, engine=k.get("engine"),
                    cohorts=None if not cc else [[int(x) for x in c] for c in cc.values()],
                    in_chunks=list(arr.chunks[-1]), sort=bool(k.get("sort", True)),
                    codes=None if not isinstance(by, np.ndarray) else [int(x) for x in by.reshape(-1)],
                    agg_chunks=list(res[0].chunks[-1]), agg_dtype=str(res[0].dtype), agg_meta=str(res[0]._meta.dtype),
                    ngroups=None if k.get("expected_groups") is None else len(k["expected_groups"]))
        return res

    fc.dask_groupby_agg = wrapper
    _patched = True


def err_name(e):
    return type(e).__name__


def observe(c: dict) -> dict:
    import dask
    import dask.array as da
    import flox

    _patch()
    _rec.clear()
    arr = make_array(c["dtype"])
    labels, chunks = LAYOUTS[c["layout"]]
    kw = dict(func=c["func"], dtype=c["user"], fill_value=fill_value(c["fill"]), engine=c["engine"])
    if "quantile" in c["func"]:
        kw["finalize_kwargs"] = {"q": 0.5}
    if c["absent"]:
        kw["expected_groups"] = np.array([0, 1, 2, 3])
    if c["min_count"] is not None:
        kw["min_count"] = c["min_count"]
    try:
        if c["plan"] == "eager":
            r, g = flox.groupby_reduce(arr, np.array(labels), **kw)
            return dict(kind="ok", dtype=str(r.dtype), shape=list(r.shape), ngroups=len(g), typ=type(r).__name__)
        a = da.from_array(arr, chunks=(chunks,))
        with dask.config.set(scheduler="sync"):
            r, g = flox.groupby_reduce(a, np.array(labels), method=c["plan"], **kw)
            ann = dict(dtype=str(r.dtype), shape=list(r.shape), chunks=[list(x) for x in r.chunks],
                       meta=type(r._meta).__name__, meta_dtype=str(r._meta.dtype), typ=type(r).__name__)
            nb = r.numblocks[0] if r.ndim == 1 else 0
            outs = dask.compute(r, *[r.blocks[i] for i in range(nb)])
        comp = outs[0]
        blocks = [dict(dtype=str(b.dtype), shape=list(b.shape), typ=type(b).__name__) for b in outs[1:]]
        return dict(kind="ok", dtype=str(comp.dtype), shape=list(comp.shape), typ=type(comp).__name__, ann=ann,
                    blocks=blocks, ngroups=len(g), plan=dict(_rec))
    except Exception as e:  # noqa
        return dict(kind="err", err=err_name(e), msg=str(e)[:120], plan=dict(_rec))


# ------------------------------------------------------------------------------------------------
# the oracle: NumPy's own conventions, computed with NumPy (independent of flox and of the Lean spec)


def in_domain(c) -> bool:
    d = np.dtype(c["dtype"])
    if d.kind in "mM":
        return (core_name(c["func"]) in ("min", "max", "first", "last", "count", "mean", "median")
                and c["user"] is None and c["fill"] is None)
    return True


def oracle_base(func, dt):
    d = np.dtype(dt)
    cf = core_name(func)
    a = np.array([1, 0, 1]).astype(d)
    if cf == "count":
        return np.dtype(np.intp)
    if cf in ("first", "last", "mode"):
        return d                                   # selections keep the dtype of what they select
    if cf == "quantile":
        return d if d.kind in "mM" else np.quantile(a.astype("int8") if d.kind == "b" else a, np.array([0.5])).dtype
    if cf in ("mean", "median") and d.kind == "M":
        return d                                   # pandas / xarray convention: the mean of dates is a date
    if cf in ("argmax", "argmin"):
        return getattr(np, cf)(a).dtype
    return np.asarray(getattr(np, cf)(a)).dtype    # np.sum(a).dtype, np.max(a).dtype, np.var(a).dtype, np.any(a).dtype …


def oracle(c) -> str | None:
    """expected result dtype; None = NumPy refuses the combination"""
    b = np.dtype(c["user"]) if c["user"] is not None else oracle_base(c["func"], c["dtype"])
    fv = fill_value(c["fill"])
    mc_pos = (c["min_count"] or 0) > 0 if c["min_count"] is not None else (c["fill"] is not None and c["absent"])
    if fv is None and mc_pos and c["func"] in ("nansum", "nanprod"):
        fv = float("nan")                          # documented: under-populated groups of nansum / nanprod become NaN
    if fv is None:
        return str(b)
    try:
        if isinstance(fv, int) and b.kind in "iu" and not (np.iinfo(b).min <= fv <= np.iinfo(b).max):
            return str(np.result_type(b, np.min_scalar_type(fv)))
        return str(np.result_type(b, fv))
    except TypeError:
        return None


# ------------------------------------------------------------------------------------------------
# legality (what can be called at all; everything else is a counted refusal)


def skip(c) -> bool:
    f = c["func"]
    if c["plan"] != "eager":
        if f in ("first", "last") and c["plan"] != "blockwise":
            return True
        if f in ARG and c["plan"] == "blockwise" and len(LAYOUTS[c["layout"]][1]) > 1:
            return True
        if f in ARG and c["engine"] == "numbagg":
            return True
        if core_name(f) in ("median", "quantile", "mode") and c["plan"] != "blockwise":
            return True
    if f in ARG and c["engine"] == "flox":
        return True
    if c["min_count"] is not None and c["fill"] is None and f not in ("nansum", "nanprod"):
        return True
    return False


def layout_for(plan, rng):
    if plan == "blockwise":
        return rng.choice(["sorted-222", "sorted-24", "sorted-231"])
    if plan == "eager":
        return "interleaved-222"
    return rng.choice(["interleaved-222", "interleaved-33", "sorted-222", "sorted-231"])


def cell_of(c):
    mc_pos = (c["min_count"] or 0) > 0 if c["min_count"] is not None else (c["fill"] is not None and c["absent"])
    eff = "nan" if (c["fill"] is None and mc_pos and c["func"] in ("nansum", "nanprod")) else c["fill"]
    return (c["func"], c["dtype"], c["user"], str(eff))


def model_line(c):
    return "dtype func=%s in=%s user=%s fill=%s minc=%s exp=%d eng=%d" % (
        c["func"], c["dtype"], c["user"] or "-", fill_tok(c["fill"]),
        "-" if c["min_count"] is None else c["min_count"], 1 if c["absent"] else 0, 1 if c["engine"] == "flox" else 0)


def chunk_line(plan):
    if not plan or plan.get("method") is None:
        return None
    m = plan["method"]
    if m == "map-reduce" and plan.get("ngroups") is not None:
        return "dchunks plan=mapreduce ngroups=%d" % plan["ngroups"]
    if m == "cohorts" and plan.get("cohorts"):
        return "dchunks plan=cohorts cohorts=" + ";".join(".".join(str(x) for x in co) for co in plan["cohorts"])
    if m == "blockwise" and not plan.get("reindex") and plan.get("codes") is not None:
        return "dchunks plan=blockwise sort=%d chunks=%s keys=%s" % (
            1 if plan["sort"] else 0, ",".join(map(str, plan["in_chunks"])), ",".join(map(str, plan["codes"])))
    return None


def parse_kv(line):
    return dict(t.split("=", 1) for t in line.split(" ") if "=" in t)


# ------------------------------------------------------------------------------------------------


class C11(Prop):
    id = "C11"
    lean_module = "FloxProps.C11"
    level = "proof"
    rule = ("grid: reduction (all 31 Aggregations) x input dtype (bool, (u)int8-64, float32/64, datetime64[ns], timedelta64[ns]) x "
            "dtype= {None, float32, float64, int64} x fill_value {None, 0, -7, 10**6, NaN} x min_count {None, 1} x expected_groups "
            "{absent, with one absent label} x engine {numpy, flox, numbagg, None} x plan {eager, map-reduce, cohorts, blockwise} on a "
            "6-element input with 2-3 chunks (5 label/chunk layouts). thorough: every grid cell is executed eagerly on every engine (+ once with "
            "an absent label) and on two of the three dask plans (seeded rotation of plan, engine, layout); quick: seeded sample of "
            "380 cells, 4 observations each. Each observation is compared with the Lean dtype model "
            "(regenerated _initialize_aggregation table + hand-written entry logic), the Lean spec with a NumPy-computed oracle, and "
            "announced dtype/shape/chunks/meta with the computed array and every computed block; distinct = (cell, engine, plan, "
            "layout, absent, min_count) with a successful result")
    assumptions = [
        "NumPy has a convention for datetime64/timedelta64 only for min/max/first/last/count/mean/median without dtype=/fill_value (other datetime cells are observed for plan-independence and truthfulness only)",
        "a positive min_count on nansum/nanprod without fill_value is documented to act as fill_value=NaN",
        "arg-reductions with a floating dtype= are refused by groupby_reduce (ValueError) and by the model alike",
        "ValueError / NotImplementedError / DTypePromotionError are documented refusals; any other exception in a cell where another engine or plan returns is reported as a failure",
        "mode/nanmode cannot run in this environment (SciPy API change, ValueError on every call): table-level only",
    ]

    # ---- generation ---------------------------------------------------------------------------
    def cases(self, rng: random.Random, tier: str, search: bool):
        out = []
        grid = list(itertools.product(FUNCS, DTYPES, USERS, FILLS))
        if tier == "thorough":
            for (f, d, u, k) in grid:
                for e in ENGINES:
                    out.append(dict(func=f, dtype=d, user=u, fill=k, engine=e, plan="eager", layout="interleaved-222",
                                    absent=False, min_count=None))
                out.append(dict(func=f, dtype=d, user=u, fill=k, engine=rng.choice(ENGINES), plan="eager",
                                layout="interleaved-222", absent=True, min_count=rng.choice([None, 1])))
                for p in rng.sample(PLANS[1:], 2):
                    out.append(dict(func=f, dtype=d, user=u, fill=k, engine=rng.choice(ENGINES), plan=p,
                                    layout=layout_for(p, rng), absent=rng.random() < 0.3,
                                    min_count=rng.choice([None, None, None, 1])))
        else:
            # a seeded sample of cells; inside a cell several engines / plans so that plan-dependence is visible
            for _ in range(800 if search else 380):
                f, d, u, k = rng.choice(grid)
                e1, e2 = rng.sample(ENGINES, 2)
                out.append(dict(func=f, dtype=d, user=u, fill=k, engine=e1, plan="eager", layout="interleaved-222",
                                absent=False, min_count=None))
                out.append(dict(func=f, dtype=d, user=u, fill=k, engine=e2, plan="eager", layout="interleaved-222",
                                absent=rng.random() < 0.5, min_count=rng.choice([None, None, 1])))
                for p in rng.sample(PLANS[1:], 2):
                    out.append(dict(func=f, dtype=d, user=u, fill=k, engine=rng.choice(ENGINES), plan=p,
                                    layout=layout_for(p, rng), absent=rng.random() < 0.3,
                                    min_count=rng.choice([None, None, None, 1])))
        return [c for c in out if not skip(c)]

    # ---- running ------------------------------------------------------------------------------
    def run(self, rng, tier, rep: Report, search=False):
        self.run_cases(self.cases(rng, tier, search), rep, workers=int(os.environ.get("VERIF_WORKERS", "4")) if tier == "thorough" else 1)

    def run_cases(self, cases, rep: Report, workers=1):
        if workers > 1 and len(cases) > 2000:
            import multiprocessing as mp

            with mp.get_context("spawn").Pool(workers) as pool:
                obs = pool.map(observe, cases, chunksize=250)
            rep.dist["worker-processes"] = workers
        else:
            obs = [observe(c) for c in cases]
        lines = [model_line(c) for c in cases]
        cl_idx, cl = [], []
        for i, o in enumerate(obs):
            l = chunk_line(o.get("plan")) if o["kind"] == "ok" else None
            if l:
                cl_idx.append(i)
                cl.append(l)
        outs = core.Driver().run(lines + cl)
        mouts = [parse_kv(x) if not x.startswith("bad-op") else None for x in outs[:len(lines)]]
        couts = {i: x for i, x in zip(cl_idx, outs[len(lines):])}

        by_cell: dict = {}
        for i, (c, o, m) in enumerate(zip(cases, obs, mouts)):
            rep.evaluations += 1
            rep.dist["plan:" + c["plan"]] += 1
            rep.dist["engine:" + str(c["engine"])] += 1
            rep.dist["func:" + c["func"]] += 1
            rep.dist["in:" + c["dtype"]] += 1
            rep.dist["impl:" + ("ok" if o["kind"] == "ok" else o["err"])] += 1
            if o["kind"] == "ok":
                rep.keys.add(core.case_hash(c))
                if c["plan"] != "eager":
                    rep.dist["resolved:%s/reindex=%s/blocks=%d" % (o["plan"].get("method"), o["plan"].get("reindex"), len(o["blocks"]))] += 1
            if m is None:
                rep.tie1.append((c, "driver refused the line: " + outs[i]))
                continue
            dom = in_domain(c)
            orc = oracle(c) if dom else None
            rep.dist["domain:" + ("in" if dom else "out")] += 1
            # tie 2: oracle vs Lean spec (and the domain predicate)
            if (m["dom"] == "1") != dom:
                rep.tie2.append((c, f"domain: lean={m['dom']} harness={dom}"))
            if dom and m["spec"] != (orc or "none"):
                rep.tie2.append((c, f"spec {m['spec']} != numpy oracle {orc}"))
            # tie 1: implementation vs model
            model_ok = not m["model"].startswith("err:")
            if o["kind"] == "ok":
                if not model_ok:
                    rep.tie1.append((c, f"model refuses ({m['model']}) but flox returned {o['dtype']}"))
                elif m["model"] != o["dtype"]:
                    rep.tie1.append((c, f"dtype: model {m['model']} != flox {o['dtype']}"))
            elif not model_ok:
                rep.dist["model-refusal-confirmed:" + ("same-class" if o["err"] == m["model"][4:] else "earlier-refusal")] += 1
                if o["err"] not in REFUSALS:
                    rep.tie1.append((c, f"model refuses with {m['model'][4:]} but flox crashed with {o['err']}: {o['msg']}"))
            if i in couts:
                ck = parse_kv(couts[i]) if not couts[i].startswith("bad-op") else None
                if ck is None:
                    rep.tie1.append((c, "driver refused the chunk line: " + couts[i]))
                else:
                    ann = ",".join(str(x) for x in o["plan"]["agg_chunks"])
                    rep.dist["chunk-model:" + o["plan"]["method"]] += 1
                    if ck["announced"] != ann:
                        rep.tie1.append((c, f"group chunks announced by dask_groupby_agg {ann} != model {ck['announced']}"))
                    if ck["computed"] != "-" and ck["computed"] != ck["announced"]:
                        rep.tie1.append((c, f"model: computed {ck['computed']} != announced {ck['announced']}"))
            # direct: truthfulness of the lazy result
            if o["kind"] == "ok" and c["plan"] != "eager":
                d = self.truthful(o)
                if d:
                    rep.direct.append((c, "untruthful metadata: " + d))
            # direct: NumPy's convention
            if o["kind"] == "ok" and dom:
                if orc is None:
                    rep.direct.append((c, f"NumPy refuses this combination but flox returned {o['dtype']}"))
                elif o["dtype"] != orc:
                    rep.direct.append((c, f"dtype {o['dtype']} != NumPy convention {orc}"))
            if o["kind"] == "ok" and o["shape"] != [o["ngroups"]]:
                rep.direct.append((c, f"shape {o['shape']} != (number of returned groups {o['ngroups']},)"))
            if o["kind"] == "ok" and o["ngroups"] != (4 if c["absent"] else 3):
                rep.direct.append((c, f"{o['ngroups']} groups returned, expected {4 if c['absent'] else 3}"))
            by_cell.setdefault(cell_of(c), []).append((c, o))
            if len(rep.samples) < 6 and o["kind"] == "ok" and c["plan"] != "eager" and i % 7 == 0:
                rep.add_sample({"case": c, "observed": o, "model": outs[i], "oracle": orc, "chunk_model": couts.get(i)})

        # direct: plan / engine independence inside a cell
        for cell, lst in by_cell.items():
            oks = [(c, o) for c, o in lst if o["kind"] == "ok"]
            dts = sorted({o["dtype"] for _, o in oks})
            if len(dts) > 1:
                ref = oks[0]
                for c, o in oks:
                    if o["dtype"] != ref[1]["dtype"]:
                        rep.direct.append((c, f"dtype depends on the plan: {o['dtype']} here, {ref[1]['dtype']} with "
                                              f"engine={ref[0]['engine']} plan={ref[0]['plan']} absent={ref[0]['absent']}"))
                        break
            if not oks and lst and all(o["err"] in REFUSALS for _, o in lst):
                # nobody returns: a uniform refusal (visible in the evidence; the model says whether it expects it)
                rep.dist["cell-refused-by-every-observation:" + "+".join(sorted({o["err"] for _, o in lst}))] += 1
            crashes = [(c, o) for c, o in lst if o["kind"] == "err" and o["err"] not in REFUSALS]
            if crashes and not in_domain(crashes[0][0]):
                rep.dist["crash-outside-domain:" + crashes[0][1]["err"]] += len(crashes)
                crashes = []
            if crashes and not oks:
                # is the cell computable at all?  reference: the numpy engine, eagerly, same arguments
                c0 = crashes[0][0]
                ref = dict(c0, engine="numpy", plan="eager", layout="interleaved-222")
                ro = observe(ref)
                rep.evaluations += 1
                rep.dist["reference-runs"] += 1
                if ro["kind"] == "ok":
                    oks = [(ref, ro)]
            for c, o in crashes:
                if True:
                    if oks:
                        w = oks[0][0]
                        rep.direct.append((c, f"crash {o['err']}: {o['msg']} (engine={w['engine']} plan={w['plan']} returns "
                                              f"{oks[0][1]['dtype']} for the same cell)"))
                    else:
                        rep.dist["crash-everywhere:" + o["err"]] += 1
        rep.dist["cells"] += len(by_cell)

    @staticmethod
    def truthful(o) -> str | None:
        a = o["ann"]
        if a["dtype"] != o["dtype"]:
            return f"announced dtype {a['dtype']} != computed {o['dtype']}"
        if a["meta_dtype"] != o["dtype"]:
            return f"_meta dtype {a['meta_dtype']} != computed {o['dtype']}"
        if a["shape"] != o["shape"]:
            return f"announced shape {a['shape']} != computed {o['shape']}"
        if a["meta"] != o["typ"]:
            return f"type(_meta) {a['meta']} != computed {o['typ']}"
        if len(a["chunks"]) != 1 or any(isinstance(x, float) and math.isnan(x) for x in a["chunks"][0]):
            return f"chunks {a['chunks']} are not known 1-D chunks"
        if sum(a["chunks"][0]) != a["shape"][0]:
            return f"chunks {a['chunks']} do not add up to shape {a['shape']}"
        if len(o["blocks"]) != len(a["chunks"][0]):
            return f"{len(o['blocks'])} blocks for chunks {a['chunks']}"
        for j, (b, n) in enumerate(zip(o["blocks"], a["chunks"][0])):
            if b["shape"] != [n]:
                return f"block {j}: announced size {n}, computed shape {b['shape']}"
            if b["dtype"] != a["dtype"]:
                return f"block {j}: announced dtype {a['dtype']}, computed {b['dtype']}"
            if b["typ"] != a["meta"]:
                return f"block {j}: type(_meta) {a['meta']}, computed {b['typ']}"
        p = o.get("plan") or {}
        if p.get("agg_dtype") and p["agg_dtype"] != p.get("agg_meta"):
            return f"dask_groupby_agg: dtype {p['agg_dtype']} != _meta dtype {p['agg_meta']}"
        return None

    def replay(self, payload, rep: Report):
        c = dict(payload["case"])
        # re-run the whole cell so that plan-dependence failures reproduce
        cs = [c]
        for e in ENGINES:
            cs.append(dict(c, engine=e, plan="eager", layout="interleaved-222"))
        self.run_cases([x for x in cs if not skip(x) or x is c], rep)

    # ---- known findings -------------------------------------------------------------------------
    def match_finding(self, finding, case, detail) -> bool:
        from . import findings

        pred = findings.PREDICATES.get(finding["id"])
        return bool(pred and pred(case, detail))

    def check_finding_still_fails(self, finding):
        w = finding.get("witness")
        if not w or w.get("op") != "dtype":
            return None
        rep = Report()
        cs = [dict(w["case"])] + [dict(w["case"], **alt) for alt in w.get("also", [])]
        self.run_cases(cs, rep)
        return any(self.match_finding(finding, c, d) for c, d in rep.direct)
