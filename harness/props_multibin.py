"""C07 – multi-variable grouping and binning follow tuple-key and pandas.cut semantics."""
from __future__ import annotations

import itertools
import math
import random
from dataclasses import asdict

import numpy as np

from . import core
from .framework import Prop, Report
from . import multibin_ops as mb
from .multibin_ops import G, MCase

NAN = float("nan")
INF = float("inf")


def corpus() -> list[MCase]:
    """hand-made cases that run first: every branch of the model, and the witnesses of the four defects found by this check
    and repaired in /repo (C07-F1 block-local codes of a NumPy grouper next to a dask grouper, C07-F2 IntervalIndex with
    gaps, C07-F3 a grouper without any group, C07-F4 nothing to reduce on chunked input with method=None); a recurrence of
    any of them is a VIOLATION"""
    x = [0.0, 1.0, 2.0, 3.0, 0.5, -1.0, 4.0, NAN, INF, -INF, 1.5, 3.0]
    out = []
    # C07-F1
    out.append(MCase(op="multi", ashape=[4], vals=[1.0, 2.0, 4.0, 8.0], func="sum", chunks=[[2, 2]], tag="corpus", groupers=[
        G("cat", [0.0, 0.0, 0.0, 0.0], [4], expected=[0], dask=True), G("cat", [3.0, 3.0, 5.0, 5.0], [4])]))
    out.append(MCase(op="factor", chunks=[[2, 2]], tag="corpus", groupers=[
        G("cat", [0.0, 0.0, 0.0, 0.0], [4], expected=[0], dask=True), G("cat", [3.0, 3.0, 5.0, 5.0], [4])]))
    out.append(MCase(op="factor", chunks=[[1, 2, 1]], tag="corpus", sort=False, groupers=[
        G("cat", [0.0, 1.0, 0.0, 1.0], [4], expected=[0, 1], dask=True), G("cat", [5.0, NAN, 3.0, 5.0], [4])]))
    # C07-F2
    out.append(MCase(op="factor", groupers=[G("ivs", [0.5, 1.5, 2.5], [3], ivs=[[0, 1], [2, 3]], closed="left")], tag="corpus"))
    out.append(MCase(op="factor", groupers=[G("ivs", x, [12], ivs=[[0, 1], [2, 3]], closed="right")], tag="corpus"))
    out.append(MCase(op="multi", ashape=[3], vals=[1.0, 2.0, 4.0], func="sum", fill=-7, tag="corpus", groupers=[
        G("ivs", [0.5, 1.5, 2.0], [3], ivs=[[0, 1], [2, 3]], closed="left"), G("cat", [0.0, 0.0, 1.0], [3])]))
    # C07-F3
    out.append(MCase(op="factor", groupers=[G("cat", [NAN, NAN], [2]), G("cat", [0.0, 1.0], [2])], tag="corpus"))
    out.append(MCase(op="multi", ashape=[2], vals=[1.0, 2.0], func="sum", fill=-7, tag="corpus",
                     groupers=[G("cat", [NAN, NAN], [2]), G("cat", [0.0, 1.0], [2])]))
    # C07-F4
    out.append(MCase(op="multi", ashape=[2, 4], vals=[0, 1, 2, 3, 4, 5, 6, 7], dtype="int64", func="sum", fill=0, chunks=[[1, 1], [4]],
                     tag="corpus", groupers=[G("edges", [5.0, 6.0, 5.0, 5.0], [1, 4], breaks=[0.0, 1.0, 2.0])]))
    out.append(MCase(op="multi", ashape=[1, 3], vals=[-1.0, 1.0, 5.0], func="min", fill=NAN, chunks=[[1], [1, 1, 1]], tag="corpus",
                     groupers=[G("ivs", [4.0], [1, 1], ivs=[[3.0, 4.0]], closed="left")]))
    out.append(MCase(op="multi", ashape=[2], vals=[3, 3], dtype="int64", func="sum", chunks=[[1, 1]], tag="corpus",
                     groupers=[G("cat", [5.0, 6.0], [2], expected=[0, 1])]))
    out.append(MCase(op="multi", ashape=[3, 1], vals=[NAN, 5.0, NAN], func="nanmax", fill=-7, engine="flox", chunks=[[1, 1, 1], [1]],
                     split_every=3, tag="corpus", groupers=[G("cat", [5.0], [1, 1], expected=[5]), G("cat", [3.0], [1, 1], expected=[11])]))
    # branches of the model
    for closed in ("left", "right", "neither", "both"):
        out.append(MCase(op="factor", groupers=[G("ivs", x, [12], ivs=[[0, 1], [1, 3]], closed=closed)], tag="corpus"))
    out.append(MCase(op="factor", groupers=[G("edges", x, [12], breaks=[0, 1, 3])], tag="corpus"))
    out.append(MCase(op="factor", groupers=[G("edges", x, [12], breaks=[1.0])], tag="corpus"))            # single edge
    out.append(MCase(op="factor", groupers=[G("edges", x, [12], breaks=[1.0, 0.0, 2.0])], tag="corpus"))  # unsorted edges
    out.append(MCase(op="factor", groupers=[G("ivs", x, [12], ivs=[[1, 3], [0, 1]], closed="left")], sort=False, tag="corpus"))
    out.append(MCase(op="factor", groupers=[G("ivs", x, [12], ivs=[[1, 3], [0, 1]], closed="left")], sort=True, tag="corpus"))
    out.append(MCase(op="multi", ashape=[2, 3], vals=[0.0, 1.0, 2.0, 3.0, 4.0, 5.0], func="sum", tag="corpus", groupers=[
        G("cat", [0.0, 1.0], [2, 1]), G("cat", [0.0, 1.0, 1.0], [1, 3])]))
    return out


def exhaustive_bins() -> list[MCase]:
    """every value of a grid (all edges, all midpoints, outside values, NaN, +-inf) against every contiguous edge list of
    2..4 edges drawn from a 5-point pool, both closed sides and raw edges (isbin=True)"""
    pool = [0.0, 0.5, 1.0, 2.0, 3.0]
    grid = [-INF, -1.0, 0.0, 0.25, 0.5, 0.75, 1.0, 1.5, 2.0, 2.5, 3.0, 3.5, INF, NAN]
    out = []
    for k in (2, 3, 4):
        for edges in itertools.combinations(pool, k):
            ivs = [[a, b] for a, b in zip(edges, edges[1:])]
            for closed in ("left", "right"):
                out.append(MCase(op="factor", groupers=[G("ivs", list(grid), [len(grid)], ivs=ivs, closed=closed)], tag="exh-bins"))
            out.append(MCase(op="factor", groupers=[G("edges", list(grid), [len(grid)], breaks=list(edges))], tag="exh-bins"))
    return out


def exhaustive_ravel(maxdim=3) -> list[str]:
    """driver lines: every code tuple (each code in -1..d-1) for every shape with 1-3 groupers and dims 1..maxdim"""
    lines = []
    for nby in (1, 2, 3):
        for shape in itertools.product(range(1, maxdim + 1), repeat=nby):
            tuples = list(itertools.product(*[range(-1, d) for d in shape]))
            lines.append((shape, tuples, f"ravel shape={','.join(map(str, shape))} | " + ";".join(",".join(map(str, t)) for t in tuples)))
    return lines


def exhaustive_pairs() -> list[MCase]:
    """two groupers over 3 elements: every assignment of labels from {a, b, missing} x {bin0, edge, outside}"""
    out = []
    l1s = list(itertools.product([0.0, 1.0, NAN], repeat=3))
    l2s = list(itertools.product([0.5, 1.0, 2.5], repeat=3))
    for l1 in l1s:
        for l2 in l2s:
            out.append(MCase(op="multi", ashape=[3], vals=[1.0, 2.0, 4.0], func="sum", fill=-7, tag="exh-pairs", groupers=[
                G("cat", list(l1), [3], expected=[0, 1]), G("edges", list(l2), [3], breaks=[0.0, 1.0, 2.0])]))
    return out


class C07(Prop):
    id = "C07"
    lean_module = "FloxProps.C07"
    level = "proof"
    rule = ("streams: (a) `factor`: flox.core._convert_expected_groups_to_index + _factorize_multiple on 1-3 groupers, each "
            "categorical (expected groups absent / exact / superset / subset / unsorted, missing labels) or binned (raw edges with "
            "isbin=True, or an IntervalIndex closed left/right, sorted or shuffled, contiguous or with gaps), label values exactly on edges, mid-bin, outside, "
            "NaN, +-inf; 1-D labels and 2-D labels with size-1 axes that broadcast; NumPy or dask labels; (b) `multi`: "
            "flox.groupby_reduce(array, by1, by2, ..., expected_groups, isbin, func in sum/nansum/count/max/nanmax/min/nanmin/mean/"
            "nanmean) eager and on dask arrays (method None / map-reduce / cohorts, split_every 2-4), result shape, returned labels "
            "and every entry compared with the Lean model, and with a pure-Python tuple-key oracle (pandas.cut codes, NumPy per "
            "group); thorough adds exhaustive enumerations: all contiguous edge lists from a 5-point pool x 14 probe values x both "
            "closed sides, all code tuples for all shapes up to 3x3x3 through ravel/unravel, all 729 label assignments of a "
            "(categorical x binned) pair over 3 elements; non-trivial = >=2 elements and (>=2 groupers or a binned grouper); "
            "distinct = hash of the full case")
    assumptions = [
        "labels and edges are small dyadic rationals, NaN or +-inf (exactly representable; comparisons are exact in float64)",
        "an IntervalIndex passed with sort=False must already be increasing (flox raises ValueError otherwise; outside the property)",
        "empty bin lists (a single edge) are outside the property: flox raises IndexError there (tied to the model, not judged)",
        "2-D chunked inputs: the Lean model is evaluated with the eager plan (plan independence is property C02); the block-by-block "
        "factorisation of dask labels is modelled for 1-D labels (for n-D labels it is elementwise against the global found groups; "
        "theorems lazy_eq_eager_cat / lazy_eq_eager_expected)",
        "dask labels next to a grouper without any group: the lazy code array of _factorize_multiple raises ValueError when computed on "
        "its own (np.ravel_multi_index); groupby_reduce never computes it (empty result), so only the API-level result is judged there",
        "closed='both' (NotImplementedError) and closed='neither' are tied to the model but not judged against pandas.cut",
    ]

    quick_n = {"factor": 900, "multi": 700}
    thorough_n = {"factor": 6000, "multi": 4000}

    # -------------------------------------------------------------------------------------------
    def gen_cases(self, rng, tier, search):
        vol = self.quick_n if tier == "quick" else self.thorough_n
        mult = 3 if search else 1
        nmax = 10 if tier == "quick" else 16
        cases = list(corpus())
        cases += [mb.make_case(rng, "factor", nmax=nmax) for _ in range(vol["factor"] * mult)]
        cases += [mb.make_case(rng, "multi", nmax=nmax) for _ in range(vol["multi"] * mult)]
        if tier == "thorough":
            cases += exhaustive_bins() + exhaustive_pairs()
        else:
            cases += exhaustive_bins()[::7]
        return cases

    def run(self, rng, tier, rep: Report, search=False):
        self.run_cases(self.gen_cases(rng, tier, search), rep)
        self.run_ravel(rep, 3 if tier == "thorough" else 2)
        self.run_bincode(rng, rep, 400 if tier == "quick" else 3000)

    # -------------------------------------------------------------------------------------------
    def run_ravel(self, rep: Report, maxdim: int):
        """`ravel` op: model of `_ravel_factorized` against the real function on every code tuple of small shapes, and
        the oracle (C-order position, -1 if any code is -1) against `unravel`"""
        import flox.core as fc

        items = exhaustive_ravel(maxdim)
        outs = core.Driver().run([l for _, _, l in items])
        for (shape, tuples, line), out in zip(items, outs):
            rep.evaluations += 1
            rep.dist["ravel:nby=" + str(len(shape))] += 1
            case = {"op": "ravel", "shape": list(shape)}
            if not out.startswith("ok "):
                rep.tie1.append((case, "driver: " + out))
                continue
            flat_s, _, unr_s = out[3:].partition(" | ")
            flat = [int(x) for x in flat_s.split(",")]
            cols = [np.array([t[k] for t in tuples]) for k in range(len(shape))]
            real = [int(x) for x in fc._ravel_factorized(*cols, grp_shape=tuple(shape))]
            if real != flat:
                rep.tie1.append((case, f"_ravel_factorized {real} vs model {flat}"))
            want = [mb.flat_code(t, shape) for t in tuples]
            if want != real:
                rep.direct.append((case, f"_ravel_factorized {real} vs C-order position / -1 sentinel {want}"))
            unr = unr_s.split(";")
            for t, f, u in zip(tuples, want, unr):
                if f >= 0 and u != ",".join(map(str, t)):
                    rep.tie2.append((case, f"unravel({f}) = {u} but the tuple is {t}"))
                if f >= 0 and tuple(int(z) for z in np.unravel_index(f, shape)) != tuple(t):
                    rep.tie2.append((case, f"np.unravel_index({f}) differs from {t}"))
            rep.keys.add(core.case_hash(case))

    def run_bincode(self, rng, rep: Report, n: int):
        """`bincode` op: model `binCode` vs `_factorize_single`, spec `cutCode` vs pandas.cut, on random edge lists"""
        import pandas as pd
        import flox.core as fc

        cases = []
        for _ in range(n):
            edges = mb.gen_edges(rng, 2, 6)
            labels = mb.gen_bin_labels(rng, edges, rng.randint(1, 12))
            cases.append((edges, labels, rng.random() < 0.5))
        outs = core.Driver().run([f"bincode right={1 if r else 0} edges={core.toks(e)} | {core.toks(l)}" for e, l, r in cases])
        for (edges, labels, right), out in zip(cases, outs):
            rep.evaluations += 1
            rep.dist["bincode:" + ("right" if right else "left")] += 1
            case = {"op": "bincode", "edges": edges, "labels": labels, "right": right}
            rep.keys.add(core.case_hash(core.jsonable(case)))
            ii = pd.IntervalIndex.from_breaks(np.array(edges), closed="right" if right else "left")
            _, idx = fc._factorize_single(np.array(labels, dtype="float64"), ii, sort=True, reindex=True)
            cut = [int(x) for x in pd.cut(np.array(labels, dtype="float64"), ii).codes]
            if not out.startswith("ok "):
                rep.tie1.append((case, "driver: " + out))
                continue
            m_s, _, s_s = out[3:].partition(" | ")
            model = [int(x) for x in m_s.split(",")]
            spec = [int(x) for x in s_s.split(",")]
            if model != [int(x) for x in idx]:
                rep.tie1.append((case, f"_factorize_single {idx.tolist()} vs model {model}"))
            if spec != cut:
                rep.tie2.append((case, f"pandas.cut {cut} vs spec {spec}"))
            if [int(x) for x in idx] != cut:
                rep.direct.append((case, f"_factorize_single {idx.tolist()} vs pandas.cut {cut}"))

    # -------------------------------------------------------------------------------------------
    def run_cases(self, cases, rep: Report):
        impls = [mb.run_factor(c) if c.op == "factor" else mb.run_multi(c) for c in cases]
        lines, idx = [], []
        for i, (c, im) in enumerate(zip(cases, impls)):
            l = mb.factor_line(c) if c.op == "factor" else mb.multi_line(c, im.get("plan", {}))
            if l is not None:
                lines.append(l)
                idx.append(i)
        outs = core.Driver().run(lines)
        mout = dict(zip(idx, outs))
        for i, (c, im) in enumerate(zip(cases, impls)):
            rep.evaluations += 1
            if mb.nontrivial(c):
                rep.keys.add(c.key())
            self.count(c, im, rep)
            orc = mb.oracle_factor(c) if c.op == "factor" else mb.oracle_multi(c)
            rep.dist["oracle:" + orc["kind"]] += 1
            cd = asdict(c)
            if i in mout:
                model, spec = mb.parse_output(mout[i])
                rep.dist["model:" + model["kind"] + ((":" + model["err"]) if model["kind"] == "err" else "")] += 1
                if c.op == "factor":
                    d1 = mb.cmp_factor_impl_model(im, model)
                    d2 = mb.cmp_factor_oracle_spec(orc, spec)
                else:
                    d1 = mb.cmp_multi_impl_model(c, im, model, orc)
                    d2 = mb.cmp_multi_oracle_spec(c, orc, spec)
                if d1:
                    rep.tie1.append((cd, d1))
                if d2:
                    rep.tie2.append((cd, d2))
            else:
                rep.dist["model:not-expressible"] += 1
            d3 = mb.cmp_factor_impl_oracle(im, orc, c) if c.op == "factor" else mb.cmp_multi_impl_oracle(c, im, orc)
            if d3:
                rep.direct.append((cd, d3))
            if len(rep.samples) < 6 and mb.nontrivial(c) and c.tag in ("factor", "multi") and len(c.groupers) >= 2:
                rep.add_sample({"case": core.jsonable(cd), "impl": core.jsonable({k: v for k, v in im.items() if k != "plan"}),
                                "model_line_out": mout.get(i)})

    def count(self, c: MCase, im: dict, rep: Report):
        d = rep.dist
        d["op:" + c.op] += 1
        d["stream:" + c.tag] += 1
        d["nby:" + str(len(c.groupers))] += 1
        d["ndim:" + str(len(c.groupers[0].shape))] += 1
        d["sort:" + str(c.sort)] += 1
        for g in c.groupers:
            d["grouper:" + g.kind + ((":" + g.closed) if g.kind == "ivs" else "") + (":dask" if g.dask else "")] += 1
            if g.kind != "cat":
                edges = set(g.breaks or [x for iv in g.ivs for x in iv])
                if any(l in edges for l in g.labels):
                    d["labels:on-edge"] += 1
                if any(isinstance(l, float) and math.isinf(l) for l in g.labels):
                    d["labels:inf"] += 1
            if any(isinstance(l, float) and math.isnan(l) for l in g.labels):
                d["labels:nan"] += 1
        if len({tuple(g.shape) for g in c.groupers}) > 1:
            d["broadcast:mixed-shapes"] += 1
        d["impl:" + (im["kind"] if im["kind"] == "ok" else im["err"])] += 1
        if c.op == "multi":
            d["func:" + c.func] += 1
            plan = im.get("plan", {})
            d["plan:" + ("eager" if c.chunks is None else f"{plan.get('method')}/reindex={plan.get('reindex')}")] += 1
        if mb.finding_cell_lazy(c):
            d["cell:numpy-grouper-without-expected+dask-grouper"] += 1
        if mb.finding_cell_gaps(c):
            d["cell:interval-gaps"] += 1
        if mb.finding_cell_all_dropped(c):
            d["cell:chunked-nothing-to-reduce"] += 1

    # -------------------------------------------------------------------------------------------
    def replay(self, payload, rep: Report):
        d = payload["case"]
        if d.get("op") in ("ravel", "bincode"):
            # these streams are deterministic functions of the tier / seed: re-run them
            if d["op"] == "ravel":
                self.run_ravel(rep, 3)
            else:
                self.replay_bincode(d, rep)
            return
        self.run_cases([mb.case_from_dict(d)], rep)

    def replay_bincode(self, d, rep: Report):
        import pandas as pd
        import flox.core as fc

        edges = [float(x) for x in d["edges"]]
        labels = [mb._unjson(x) for x in d["labels"]]
        right = bool(d["right"])
        ii = pd.IntervalIndex.from_breaks(np.array(edges), closed="right" if right else "left")
        _, idx = fc._factorize_single(np.array(labels, dtype="float64"), ii, sort=True, reindex=True)
        cut = [int(x) for x in pd.cut(np.array(labels, dtype="float64"), ii).codes]
        rep.evaluations += 1
        if [int(x) for x in idx] != cut:
            rep.direct.append((d, f"_factorize_single {idx.tolist()} vs pandas.cut {cut}"))

    # -------------------------------------------------------------------------------------------
    def match_finding(self, finding, case, detail) -> bool:
        from . import findings

        pred = findings.PREDICATES.get(finding["id"])
        return bool(pred and pred(case, detail))

    def check_finding_still_fails(self, finding) -> bool | None:
        w = finding.get("witness")
        if not w or w.get("op") not in ("factor", "multi"):
            return None
        c = mb.case_from_dict(w["case"])
        if c.op == "factor":
            det = mb.cmp_factor_impl_oracle(mb.run_factor(c), mb.oracle_factor(c), c)
        else:
            det = mb.cmp_multi_impl_oracle(c, mb.run_multi(c), mb.oracle_multi(c))
        return bool(det) and self.match_finding(finding, asdict(c), det)
