"""The check framework: build + audit, run a property's streams, classify, search, verdict, evidence."""
from __future__ import annotations

import argparse
import collections
import json
import os
import random
import sys
import time
import traceback

from . import core


class Report:
    def __init__(self):
        self.evaluations = 0
        self.keys = set()              # distinct non-trivial cases
        self.samples = []
        self.dist = collections.Counter()
        self.tie1 = []                 # impl vs model disagreements  (case, detail)
        self.tie2 = []                 # oracle vs spec disagreements
        self.direct = []               # impl vs oracle (the property itself) failures (case, detail)
        self.known_hits = collections.Counter()
        self.notes = []
        self.extra = {}

    def add_sample(self, s, limit=6):
        if len(self.samples) < limit:
            self.samples.append(s)


class Prop:
    """base class; subclasses set id, lean_module, level, technique and implement run()"""

    id = "C00"
    lean_module = None
    level = "proof"
    rule = ""
    assumptions: list[str] = []

    def run(self, rng: random.Random, tier: str, rep: Report, search: bool = False):
        raise NotImplementedError

    def replay(self, payload: dict, rep: Report):
        raise NotImplementedError

    def match_finding(self, finding: dict, case, detail: str) -> bool:
        return False

    def check_finding_still_fails(self, finding: dict) -> bool | None:
        """re-run the finding's recorded witness; True = still fails as recorded"""
        return None


TRUSTED_BASE = [
    "Lean 4.33 kernel (theorems re-checked by `lake build`; thorough tier also by leanchecker)",
    "axioms per theorem as printed by `#print axioms` (subset of propext, Classical.choice, Quot.sound)",
    "translator/gen_tables.py (tabulates registry / _initialize_aggregation / decision tables from the live /repo code)",
    "correspondence harness (harness/*.py): generators, canonicalisation, comparison modes",
    "third-party contracts written into the model (numpy ufuncs, numpy_groupies, numbagg, pandas factorize/get_indexer, dask blockwise/_tree_reduce/cumreduction): validated by execution on every run, not proved",
    "exact rational arithmetic in place of IEEE rounding (harness feeds data on which double arithmetic is exact; var/std compared with tolerance)",
]


def run_check(prop: Prop, argv=None) -> int:
    ap = argparse.ArgumentParser()
    ap.add_argument("--tier", default=os.environ.get("VERIF_TIER", "quick"))
    ap.add_argument("--seed", type=int, default=int(os.environ.get("VERIF_SEED", "0") or 0))
    ap.add_argument("--replay", default=None)
    args = ap.parse_args(argv)
    tier = args.tier if args.tier in ("quick", "thorough") else "quick"
    t0 = time.time()
    log: list[str] = []
    pid = prop.id

    # 1. proofs: regenerate tables, build, audit -------------------------------------------------
    targets = [prop.lean_module] if prop.lean_module else []
    st = core.build(targets, log)
    axioms = core.audit_axioms(prop.lean_module, log) if (prop.lean_module and st["build_ok"]) else {}
    bad_axioms = {k: v for k, v in axioms.items() if not set(v) <= core.STD_AXIOMS}
    obligations = max(len(axioms), 1) if prop.lean_module else 0
    discharged = len([k for k, v in axioms.items() if set(v) <= core.STD_AXIOMS]) if st["build_ok"] else 0
    proof_broken = []
    if not st["translator_ok"] or not st["build_ok"]:
        proof_broken += st["broken"] or ["build failed"]
    if st["forbidden"]:
        proof_broken += ["forbidden token: " + x for x in st["forbidden"]]
    if bad_axioms:
        proof_broken += [f"non-standard axioms in {k}: {v}" for k, v in bad_axioms.items()]
    if prop.lean_module and st["build_ok"] and not axioms:
        proof_broken += [f"no theorems found in {prop.lean_module}"]
    if tier == "thorough" and prop.lean_module and st["build_ok"]:
        import subprocess

        p = subprocess.run(["lake", "env", "leanchecker", prop.lean_module], cwd=core.LEAN, capture_output=True, text=True)
        log.append(f"leanchecker {prop.lean_module}: exit {p.returncode}")
        if p.returncode != 0:
            proof_broken.append("leanchecker failed: " + (p.stdout + p.stderr)[-500:])

    # 2. correspondence / property streams -------------------------------------------------------
    rep = Report()
    rng = random.Random(args.seed * 1000003 + sum(ord(ch) * 131 ** i for i, ch in enumerate(pid)))
    infra_error = None
    try:
        if args.replay:
            payload = json.load(open(os.path.join(core.VERIF, args.replay) if not os.path.isabs(args.replay) else args.replay))
            prop.replay(payload, rep)
        else:
            prop.run(rng, tier, rep, search=False)
    except Exception:  # noqa
        infra_error = traceback.format_exc()

    # 3. classify ----------------------------------------------------------------------------------
    findings = [f for f in core.load_findings() if f.get("property") == pid and f.get("status") == "open"]
    violations = []
    for case, detail in rep.direct:
        hit = None
        for f in findings:
            if prop.match_finding(f, case, detail):
                hit = f
                break
        if hit is not None:
            rep.known_hits[hit["id"]] += 1
        else:
            violations.append((case, detail))

    exit_code = 0
    out_lines = []
    if infra_error and not violations:
        print(infra_error, file=sys.stderr)
        print(f"INFRASTRUCTURE-ERROR property={pid} (see stderr)")
        exit_code = 2

    tie_broken = bool(rep.tie1 or rep.tie2)
    if (proof_broken or tie_broken) and not violations and exit_code == 0 and not args.replay:
        # a proof obligation or the correspondence no longer checks: search harder for a failing input
        srep = Report()
        try:
            prop.run(random.Random(args.seed + 7919), tier, srep, search=True)
        except Exception:  # noqa
            log.append("search raised: " + traceback.format_exc()[-800:])
        rep.evaluations += srep.evaluations
        rep.keys |= srep.keys
        for case, detail in srep.direct:
            if not any(prop.match_finding(f, case, detail) for f in findings):
                violations.append((case, detail))

    if violations:
        case, detail = violations[0]
        path = core.write_replay(pid, {"property": pid, "kind": "failing-input", "case": core.jsonable(case), "detail": detail,
                                       "n_failing": len(violations), "proof_broken": proof_broken[:5]})
        out_lines.append(f"VIOLATION property={pid} replay={path}")
        exit_code = 1
    elif (proof_broken or tie_broken) and exit_code == 0:
        broken = {"proof_obligations": proof_broken[:10],
                  "correspondence_model_vs_impl": [{"case": core.jsonable(c), "detail": d} for c, d in rep.tie1[:5]],
                  "correspondence_spec_vs_oracle": [{"case": core.jsonable(c), "detail": d} for c, d in rep.tie2[:5]]}
        path = core.write_replay(pid, {"property": pid, "kind": "no-failing-input-found", "no_longer_checks": broken})
        out_lines.append(f"VIOLATION property={pid} replay={path} no-failing-input-found")
        exit_code = 1

    # known findings: print one line per open finding that is still reproducible
    for f in findings:
        still = None
        try:
            still = prop.check_finding_still_fails(f)
        except Exception:  # noqa
            still = None
        if still or (still is None and rep.known_hits.get(f["id"])):
            out_lines.append(f"KNOWN-FINDING: property={pid} {f['id']} {f['what']}")

    # 4. evidence ----------------------------------------------------------------------------------
    coverage = {
        "obligations": obligations, "discharged": discharged,
        "checker_cmd": f"cd lean && lake build {prop.lean_module or ''} driver  (+ #print axioms audit; thorough: lake env leanchecker)",
        "trusted_base": TRUSTED_BASE,
        "theorems": {k: v for k, v in axioms.items()},
        "proof_status": "all obligations discharged" if not proof_broken else proof_broken[:10],
        "evaluations": rep.evaluations, "distinct_nontrivial": len(rep.keys), "rule": prop.rule,
        "samples": rep.samples[:6] or ["<none>"],
        "distribution": dict(rep.dist),
        "tie_model_vs_impl_disagreements": len(rep.tie1), "tie_spec_vs_oracle_disagreements": len(rep.tie2),
        "property_failures_direct": len(rep.direct), "known_finding_hits": dict(rep.known_hits),
        "build_log": log[-6:], "notes": rep.notes[:10],
    }
    coverage.update(rep.extra)
    core.write_evidence(pid, tier, args.seed, prop.level, coverage, prop.assumptions, time.time() - t0, len(violations))
    for l in out_lines:
        print(l)
    print(f"{pid}: tier={tier} seed={args.seed} obligations={discharged}/{obligations} evaluations={rep.evaluations} "
          f"distinct={len(rep.keys)} tie1={len(rep.tie1)} tie2={len(rep.tie2)} direct={len(rep.direct)} "
          f"known={sum(rep.known_hits.values())} wall={time.time()-t0:.1f}s exit={exit_code}")
    return exit_code
