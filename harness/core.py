"""Shared machinery of the flox verification harness.

* building the Lean project (translator -> lake build -> audit) and reporting proof status
* the line-protocol client for the native Lean driver
* value canonicalisation (exact rationals; nan / inf / -inf)
* evidence, replay and known-findings files, verdict printing
"""
from __future__ import annotations

import fcntl
import hashlib
import json
import math
import os
import re
import subprocess
import sys
import time
from fractions import Fraction

VERIF = os.path.dirname(os.path.dirname(os.path.abspath(__file__)))
LEAN = os.path.join(VERIF, "lean")
DRIVER = os.path.join(LEAN, ".lake", "build", "bin", "driver")
REPO = os.environ.get("FLOX_REPO", "/repo")
PY = "/venv/bin/python"

os.environ.setdefault("FLOX_VERIF", "1")

STD_AXIOMS = {"propext", "Classical.choice", "Quot.sound"}

# ----------------------------------------------------------------------------------------------
# tokens


def tok(x) -> str:
    """python / numpy scalar -> protocol token (exact)"""
    import numpy as np

    if x is None:
        return "n"
    if isinstance(x, (bool, np.bool_)):
        return "1" if x else "0"
    if isinstance(x, (int, np.integer)):
        return str(int(x))
    if isinstance(x, Fraction):
        return str(x.numerator) if x.denominator == 1 else f"{x.numerator}/{x.denominator}"
    if isinstance(x, (np.datetime64, np.timedelta64)):
        if np.isnat(x):
            return "nan"
        return str(int(x.astype("int64")))
    f = float(x)
    if math.isnan(f):
        return "nan"
    if math.isinf(f):
        return "inf" if f > 0 else "-inf"
    fr = Fraction(f)
    return str(fr.numerator) if fr.denominator == 1 else f"{fr.numerator}/{fr.denominator}"


def toks(xs) -> str:
    return ",".join(tok(x) for x in xs)


def untok(s: str):
    """protocol token -> float('nan') / float('inf') / Fraction"""
    if s == "nan" or s == "n":
        return float("nan")
    if s == "inf":
        return float("inf")
    if s == "-inf":
        return float("-inf")
    return Fraction(s)


def same_value(model_tok: str, impl, mode: str = "exact") -> bool:
    """compare a model token with an implementation scalar"""
    import numpy as np

    m = untok(model_tok)
    if isinstance(impl, (np.datetime64, np.timedelta64)):
        impl = float("nan") if np.isnat(impl) else int(impl.astype("int64"))
    if isinstance(m, float):
        if math.isnan(m):
            try:
                return math.isnan(float(impl))
            except Exception:
                return False
        try:
            return float(impl) == m
        except Exception:
            return False
    # m is an exact rational
    if isinstance(impl, (int, np.integer)) and not isinstance(impl, (bool, np.bool_)) and abs(int(impl)) > 2**53:
        return Fraction(int(impl)) == m      # beyond float precision (e.g. the int64 identity of min/max): compare exactly
    try:
        f = float(impl)
    except Exception:
        return False
    if math.isnan(f) or math.isinf(f):
        return False
    if mode == "exact" or Fraction(f) == m:
        if Fraction(f) == m:
            return True
        # a floating result dtype cannot hold every integer beyond 2**53: the correctly rounded value is exact enough
        return isinstance(impl, (float, np.floating)) and abs(m) > 2**53 and f == float(m)
    if mode == "rounded":
        ref = float(m)
        return f == ref or abs(f - ref) <= 2 * math.ulp(ref)
    tol = 1e-5 if mode.endswith("32") else 1e-9
    if mode.startswith("sqrt"):
        ref = math.sqrt(float(m)) if m >= 0 else float("nan")
        return abs(f - ref) <= tol + tol * abs(ref)
    ref = float(m)
    return abs(f - ref) <= tol + tol * abs(ref)


# ----------------------------------------------------------------------------------------------
# driver


class Driver:
    def __init__(self):
        if not os.path.exists(DRIVER):
            raise RuntimeError("driver not built: " + DRIVER)

    def run(self, lines: list[str]) -> list[str]:
        if not lines:
            return []
        p = subprocess.run([DRIVER], input="\n".join(lines) + "\n", capture_output=True, text=True, timeout=1800)
        if p.returncode != 0:
            raise RuntimeError("driver failed: " + p.stderr[:2000])
        out = p.stdout.split("\n")
        if out and out[-1] == "":
            out.pop()
        if len(out) != len(lines):
            raise RuntimeError(f"driver returned {len(out)} lines for {len(lines)} ops")
        return out


# ----------------------------------------------------------------------------------------------
# build + audit


def _strip_comments(src: str) -> str:
    src = re.sub(r"/-.*?-/", "", src, flags=re.S)
    src = re.sub(r"--.*", "", src)
    return src


FORBIDDEN = re.compile(r"\b(sorry|admit|native_decide|bv_decide|implemented_by|unsafe)\b|^\s*axiom\s|maxHeartbeats\s+0", re.M)


def build(targets: list[str], log: list[str]) -> dict:
    """regenerate tables, lake build targets + driver + audit; returns proof status"""
    t0 = time.time()
    status = {"translator_ok": False, "build_ok": False, "forbidden": [], "axioms": {}, "broken": [], "wall_s": 0.0}
    lock = open(os.path.join(VERIF, ".build.lock"), "w")
    fcntl.flock(lock, fcntl.LOCK_EX)
    try:
        p = subprocess.run([PY, os.path.join(VERIF, "translator", "gen_tables.py")], capture_output=True, text=True)
        log.append(p.stdout.strip().split("\n")[-1] if p.stdout.strip() else "translator: no output")
        status["translator_ok"] = p.returncode == 0
        if p.returncode != 0:
            status["broken"].append("translator: " + p.stderr.strip()[-1500:])
        cmd = ["lake", "build", "driver"] + targets
        p = subprocess.run(cmd, cwd=LEAN, capture_output=True, text=True)
        status["build_ok"] = p.returncode == 0
        if p.returncode != 0:
            errs = [l for l in (p.stdout + p.stderr).split("\n") if "error" in l][:20]
            status["broken"].extend(errs or ["lake build failed"])
            # try to still build the driver alone so that the search can use the model
            subprocess.run(["lake", "build", "driver"], cwd=LEAN, capture_output=True, text=True)
        # forbidden tokens
        for root, _, files in os.walk(LEAN):
            if ".lake" in root:
                continue
            for fn in files:
                if fn.endswith(".lean"):
                    src = _strip_comments(open(os.path.join(root, fn)).read())
                    for m in FORBIDDEN.finditer(src):
                        status["forbidden"].append(f"{fn}: {m.group(0).strip()}")
    finally:
        fcntl.flock(lock, fcntl.LOCK_UN)
        lock.close()
    status["wall_s"] = time.time() - t0
    return status


def audit_axioms(module: str, log: list[str]) -> dict:
    """run `#print axioms` for every theorem of a FloxProps module; returns {theorem: [axioms]}"""
    path = os.path.join(LEAN, module.replace(".", "/") + ".lean")
    if not os.path.exists(path):
        return {}
    src = _strip_comments(open(path).read())
    ns = re.findall(r"^namespace\s+(\S+)", src, flags=re.M)
    prefix = (ns[0] + ".") if ns else ""
    names = re.findall(r"^(?:theorem|lemma)\s+([A-Za-z_][A-Za-z0-9_'.]*)", src, flags=re.M)
    if not names:
        return {}
    audit = "import " + module + "\n" + "\n".join(f"#print axioms {prefix}{n}" for n in names) + "\n"
    tmp = os.path.join(LEAN, ".lake", f"audit_{module.replace('.', '_')}.lean")
    with open(tmp, "w") as f:
        f.write(audit)
    p = subprocess.run(["lake", "env", "lean", tmp], cwd=LEAN, capture_output=True, text=True)
    out = p.stdout + p.stderr
    res = {}
    for m in re.finditer(r"'([^']+)' (?:depends on axioms: \[([^\]]*)\]|does not depend on any axioms)", out):
        name = m.group(1)
        axs = [a.strip() for a in (m.group(2) or "").replace("\n", " ").split(",") if a.strip()]
        res[name] = axs
    for n in names:
        if prefix + n not in res:
            res[prefix + n] = ["<missing>"]
    return res


# ----------------------------------------------------------------------------------------------
# findings / evidence / verdict


def load_findings() -> list[dict]:
    p = os.path.join(VERIF, "KNOWN_FINDINGS.json")
    if not os.path.exists(p):
        return []
    return json.load(open(p)).get("findings", [])


def case_hash(obj) -> str:
    return hashlib.sha1(json.dumps(obj, sort_keys=True, default=str).encode()).hexdigest()[:12]


def write_replay(prop: str, payload: dict) -> str:
    d = os.path.join(VERIF, "replay")
    os.makedirs(d, exist_ok=True)
    path = os.path.join(d, f"{prop}-{case_hash(payload)}.json")
    with open(path, "w") as f:
        json.dump(payload, f, indent=1, default=str)
    return os.path.relpath(path, VERIF)


def write_evidence(prop: str, tier: str, seed: int, level: str, coverage: dict, assumptions: list[str], wall: float,
                   violations: int):
    d = os.path.join(VERIF, "evidence")
    os.makedirs(d, exist_ok=True)
    ev = {
        "property_id": prop, "tier": tier, "seed": seed, "level": level, "coverage": coverage,
        "assumptions": assumptions, "wall_s": round(wall, 2), "violations": violations,
    }
    with open(os.path.join(d, f"{prop}.json"), "w") as f:
        json.dump(ev, f, indent=1, default=str)


def jsonable(x):
    import numpy as np

    if isinstance(x, dict):
        return {str(k): jsonable(v) for k, v in x.items()}
    if isinstance(x, (list, tuple)):
        return [jsonable(v) for v in x]
    if isinstance(x, np.ndarray):
        return jsonable(x.tolist())
    if isinstance(x, (np.integer,)):
        return int(x)
    if isinstance(x, (np.floating, float)):
        f = float(x)
        return f if math.isfinite(f) else repr(f)
    if isinstance(x, Fraction):
        return str(x)
    if isinstance(x, (np.bool_,)):
        return bool(x)
    return x
