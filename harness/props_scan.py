"""C10 – grouped scans (flox.groupby_scan: nancumsum, ffill, bfill) equal per-group sequential scans for every chunking.

For each case the harness computes
  impl    – the real flox.groupby_scan (in-process, from /repo), eager or on a dask array with the given chunks
  model   – the Lean model `Scan.groupbyScan` (native driver, op `scan`) with dask's Blelloch bracketings
  spec    – the Lean specification `Scan.spec`
  oracle  – per-group sequential scans in pure Python (independent of flox and of Lean)
and compares impl~model (tie 1), oracle~spec (tie 2) and impl~oracle / chunked~eager / bfill~mirrored ffill (the property).
"""
from __future__ import annotations

import itertools
import math
import random
import warnings
from dataclasses import asdict, dataclass

import numpy as np

from . import core
from .framework import Prop, Report

warnings.filterwarnings("ignore")

NAN = float("nan")
INF = float("inf")
FUNCS = ["nancumsum", "ffill", "bfill"]
NARROW = {"int8": (-128, 127), "uint8": (0, 255), "int16": (-32768, 32767)}
TIMEKINDS = ("datetime64[ns]", "timedelta64[ns]")


@dataclass
class Case:
    func: str
    dtype: str
    vals: list                   # python floats / ints; NaN (or NaT for time dtypes) = float('nan')
    labels: list                 # ints; None = missing (NaN) label
    chunks: list | None = None   # None = in-memory
    scheduler: str = "sync"
    stream: str = ""

    def key(self):
        d = asdict(self)
        d.pop("stream")
        return core.case_hash(d)


def _isnan(x):
    return isinstance(x, float) and math.isnan(x)


def np_array(c: Case):
    if c.dtype in TIMEKINDS:
        a = np.array([np.iinfo(np.int64).min if _isnan(v) else int(v) for v in c.vals], dtype="int64")
        return a.view(c.dtype)
    if c.dtype == "bool":
        return np.array([bool(v) for v in c.vals], dtype=bool)
    return np.array(c.vals, dtype=np.dtype(c.dtype))


def np_labels(c: Case):
    if any(l is None for l in c.labels):
        return np.array([NAN if l is None else float(l) for l in c.labels], dtype="float64")
    return np.array([int(l) for l in c.labels], dtype="int64")


def canon(arr) -> list:
    """numpy result -> list of python scalars (NaT -> nan)"""
    a = np.asarray(arr)
    if a.dtype.kind in "Mm":
        return [NAN if np.isnat(x) else int(x.astype("int64")) for x in a.reshape(-1)]
    if a.dtype.kind == "f":
        return [float(x) for x in a.reshape(-1)]
    return [int(x) for x in a.reshape(-1)]


def call_flox(func, arr, by, chunks, scheduler="sync"):
    import dask
    import dask.array as da
    import flox

    try:
        if chunks is None:
            r = flox.groupby_scan(arr, by, func=func)
            announced = None
        else:
            d = da.from_array(arr, chunks=(tuple(chunks),))
            lazy = flox.groupby_scan(d, by, func=func)
            announced = (str(lazy.dtype), tuple(lazy.chunks))
            with dask.config.set(scheduler="threads" if scheduler == "threads" else "sync"):
                r = lazy.compute()
        r = np.asarray(r)
        return {"kind": "ok", "vals": canon(r), "dtype": str(r.dtype), "shape": list(r.shape), "announced": announced}
    except Exception as e:  # noqa
        return {"kind": "err", "err": type(e).__name__, "msg": str(e)[:160]}


def run_impl(c: Case, chunks="same", func=None, reverse=False):
    arr, by = np_array(c), np_labels(c)
    ch = c.chunks if chunks == "same" else chunks
    if reverse:
        arr, by = arr[::-1].copy(), by[::-1].copy()
        ch = None if ch is None else list(reversed(ch))
    return call_flox(func or c.func, arr, by, ch, c.scheduler)


# ----------------------------------------------------------------------------------------------
# oracle: per-group sequential scans, pure Python


def seq_scan(func, ms):
    out = []
    if func == "nancumsum":
        acc = 0
        for v in ms:
            if not _isnan(v):
                acc = acc + v
            out.append(acc)
    else:
        carry = NAN
        for v in ms:
            if not _isnan(v):
                carry = v
            out.append(carry)
    return out


def run_oracle(c: Case) -> dict:
    """value per position; positions with a missing label are bucketed together (recorded convention, `conv` flags them)"""
    n = len(c.vals)
    if c.func == "nancumsum" and any(l is None for l in c.labels):
        return {"kind": "refused"}
    out = [None] * n
    groups: dict = {}
    for i, l in enumerate(c.labels):
        groups.setdefault(l, []).append(i)
    vals = list(c.vals)
    if c.dtype == "bool":
        vals = [int(bool(v)) for v in vals]
    for l, pos in groups.items():
        p = list(reversed(pos)) if c.func == "bfill" else pos
        sc = seq_scan("ffill" if c.func == "bfill" else c.func, [vals[i] for i in p])
        for i, s in zip(p, sc):
            out[i] = s
    if c.func == "nancumsum":
        dt = str(np.nancumsum(np_array(c)[:0]).dtype)
    else:
        dt = str(np_array(c).dtype)
    return {"kind": "ok", "vals": out, "conv": [l is None for l in c.labels], "dtype": dt}


def same(a, b) -> bool:
    if _isnan(a) or _isnan(b):
        return _isnan(a) and _isnan(b)
    return a == b


# ----------------------------------------------------------------------------------------------
# Lean model / spec


def factorize(labels):
    seen, codes = {}, []
    for l in labels:
        if l is None:
            codes.append(-1)
        else:
            codes.append(seen.setdefault(l, len(seen)))
    return codes


def model_line(c: Case) -> str | None:
    isfloat = c.dtype.startswith("float")
    vals = [int(bool(v)) for v in c.vals] if c.dtype == "bool" else c.vals
    if not isfloat and c.dtype not in TIMEKINDS and any(_isnan(v) for v in vals):
        return None
    ch = "-" if c.chunks is None else ",".join(map(str, c.chunks))
    return f"scan func={c.func} float={1 if isfloat else 0} chunks={ch}|{core.toks(factorize(c.labels))}|{core.toks(vals)}"


def parse_model_output(line: str):
    if line.startswith("bad-op"):
        return {"kind": "bad", "raw": line}, {"kind": "bad", "raw": line}
    parts = line.split("|")

    def one(p):
        if p == "refused":
            return {"kind": "refused"}
        assert p.startswith("ok"), line
        body = p[2:].strip()
        return {"kind": "ok", "toks": body.split(",") if body else []}

    return one(parts[0]), one(parts[1])


def cmp_tokens(toks, vals, what) -> str | None:
    if len(toks) != len(vals):
        return f"{what}: length {len(vals)} vs Lean {len(toks)}"
    for i, (t, v) in enumerate(zip(toks, vals)):
        if not core.same_value(t, v):
            return f"{what}: position {i}: {v} vs Lean {t}"
    return None


def cmp_impl_model(im, model) -> str | None:
    if model["kind"] == "bad":
        return "driver: " + model["raw"]
    if im["kind"] == "err":
        return None if model["kind"] == "refused" else f"impl raised {im['err']} but the model returns values"
    if model["kind"] == "refused":
        return f"model refuses but impl returned {im['vals']}"
    return cmp_tokens(model["toks"], im["vals"], "impl")


def cmp_oracle_spec(orc, spec) -> str | None:
    if spec["kind"] == "bad":
        return "driver: " + spec["raw"]
    if orc["kind"] == "refused" or spec["kind"] == "refused":
        return None if orc["kind"] == spec["kind"] else f"oracle {orc['kind']} vs spec {spec['kind']}"
    return cmp_tokens(spec["toks"], orc["vals"], "oracle")


# ----------------------------------------------------------------------------------------------
# the property itself


def direct_check(c: Case, im: dict, orc: dict, rep: Report | None = None) -> str | None:
    n = len(c.vals)
    if orc["kind"] == "refused":
        # nancumsum is documented to refuse missing labels; the one-element shortcut is outside the quantifier
        if im["kind"] == "ok" and n > 1:
            return f"refusal expected (nancumsum with a missing label) but got {im['vals']}"
        return None
    if im["kind"] != "ok":
        return f"unexpected exception {im['err']}: {im.get('msg')}"
    if im["shape"] != [n]:
        return f"shape {im['shape']} != input shape [{n}]"
    if c.chunks is not None:
        if im["announced"] != (orc["dtype"], (tuple(c.chunks),)):
            return f"announced dtype/chunks {im['announced']} != {(orc['dtype'], (tuple(c.chunks),))}"
        eager = run_impl(c, chunks=None)
        if eager["kind"] != "ok" or not all(same(a, b) for a, b in zip(im["vals"], eager["vals"])) or eager["dtype"] != im["dtype"]:
            return f"chunked != eager: chunks={c.chunks} gives {im['vals']} but in-memory gives {eager.get('vals', eager)}"
    for i in range(n):
        if orc["conv"][i]:
            continue        # element with a missing label: belongs to no group (bucket convention is tied by tie1/tie2 only)
        if not same(im["vals"][i], orc["vals"][i]):
            return f"value at position {i} (label {c.labels[i]}): {im['vals'][i]} but the sequential scan of its group gives {orc['vals'][i]}; impl={im['vals']} oracle={orc['vals']}"
    if im["dtype"] != orc["dtype"]:
        return f"dtype {im['dtype']} != NumPy's {orc['dtype']}"
    if c.func == "bfill":
        mir = run_impl(c, func="ffill", reverse=True)
        if mir["kind"] != "ok" or not all(same(a, b) for a, b in zip(im["vals"], reversed(mir["vals"]))):
            return f"bfill is not the mirror image of ffill: {im['vals']} vs reversed ffill of the reversed input {mir.get('vals', mir)}"
        if rep is not None:
            rep.dist["mirror_checked"] += 1
    return None


# ----------------------------------------------------------------------------------------------
# generators


def compositions(n):
    """all ways of cutting n positions into consecutive non-empty chunks"""
    for cuts in itertools.product([0, 1], repeat=n - 1):
        out, cur = [], 1
        for b in cuts:
            if b:
                out.append(cur)
                cur = 1
            else:
                cur += 1
        out.append(cur)
        yield out


def gen_chunks(rng, n, mode=None):
    mode = mode or rng.choice(["ones", "single", "random", "random", "random", "pairs"])
    if mode == "ones":
        return [1] * n
    if mode == "single":
        return [n]
    if mode == "pairs":
        out = [2] * (n // 2)
        return out + ([1] if n % 2 else []) or [n]
    out, left = [], n
    while left > 0:
        k = rng.randint(1, min(left, rng.choice([1, 2, 3, 5])))
        out.append(k)
        left -= k
    return out


def gen_labels(rng, n, ngroups, p_missing, pattern):
    pool = rng.sample([0, 1, 2, 3, 5, 7, 11], ngroups)
    if pattern == "periodic":
        labs = [pool[i % ngroups] for i in range(n)]
    elif pattern == "runs":            # groups that skip whole blocks
        labs, cur = [], rng.choice(pool)
        for _ in range(n):
            if rng.random() < 0.3:
                cur = rng.choice(pool)
            labs.append(cur)
    elif pattern == "rare":            # one group present only at the two ends
        labs = [pool[0]] * n
        if ngroups > 1:
            for i in (0, n - 1, rng.randrange(n)):
                labs[i] = pool[1]
    else:
        labs = [rng.choice(pool) for _ in range(n)]
    return [None if rng.random() < p_missing else l for l in labs]


def gen_vals(rng, n, dtype, stream):
    if dtype.startswith("float"):
        out = []
        p_nan = rng.choice([0.2, 0.5, 0.8])
        i = 0
        while i < n:
            if rng.random() < p_nan:      # NaN runs (they span chunk boundaries)
                k = rng.randint(1, 4)
                out += [NAN] * k
                i += k
            else:
                out.append(float(rng.choice([-3, -1, 0, 1, 2, 5])))
                i += 1
        out = out[:n]
        if stream == "inf":
            for _ in range(rng.randint(1, 3)):
                out[rng.randrange(n)] = rng.choice([INF, -INF])
        return out
    if dtype == "bool":
        return [rng.choice([0, 1]) for _ in range(n)]
    if dtype in TIMEKINDS:
        return [NAN if rng.random() < 0.4 else rng.randint(1, 50) for _ in range(n)]
    if stream == "narrow":
        lo, hi = NARROW[dtype]
        return [rng.choice([hi, hi - 1, hi // 2, 1] + ([lo] if lo < 0 else [])) for _ in range(n)]
    lo = 0 if dtype.startswith("uint") else -3
    return [rng.randint(lo, 5) for _ in range(n)]


def make_case(rng, nmax, stream=None) -> Case:
    stream = stream or rng.choice(["main"] * 10 + ["inf", "inf", "dtypes", "dtypes", "dtypes", "narrow", "time", "missing", "missing", "shortcut"])
    func = rng.choice(FUNCS)
    n = rng.randint(1, nmax)
    dtype = "float64"
    p_missing = 0.0
    if stream == "dtypes":
        dtype = rng.choice(["float32", "int64", "int8", "uint8", "bool", "int16"])
    elif stream == "narrow":
        dtype, func = rng.choice(list(NARROW)), "nancumsum"
    elif stream == "time":
        dtype = rng.choice(TIMEKINDS)
        func = rng.choice(["ffill", "bfill"]) if dtype.startswith("datetime") else rng.choice(FUNCS)
    elif stream == "inf":
        func = rng.choice(["nancumsum", "nancumsum", "ffill", "bfill"])
    elif stream == "missing":
        p_missing = rng.choice([0.15, 0.4])
    vals = gen_vals(rng, n, dtype, stream)
    if dtype == "timedelta64[ns]" and func == "nancumsum":
        vals = [1 if _isnan(v) else v for v in vals]      # NumPy has no nancumsum convention for NaT
    if stream == "shortcut":
        labels = rng.sample(range(0, 3 * n + 3), n)       # every element its own group
        if rng.random() < 0.3 and n > 1:
            labels[rng.randrange(n)] = labels[0]
    else:
        labels = gen_labels(rng, n, rng.randint(1, 4), p_missing, rng.choice(["random", "random", "periodic", "runs", "rare"]))
    c = Case(func=func, dtype=dtype, vals=vals, labels=labels, stream=stream)
    if rng.random() < 0.75:
        c.chunks = gen_chunks(rng, n)
        if rng.random() < 0.08:
            c.scheduler = "threads"
    return c


def nontrivial(c: Case) -> bool:
    """>= 2 elements share a group and, for the fills, a NaN is present; for chunked input the group spans >= 2 blocks"""
    labs = [l for l in c.labels if l is not None]
    shared = len(labs) > len(set(labs))
    if not shared:
        return False
    if c.func != "nancumsum" and not any(_isnan(v) for v in c.vals):
        return False
    return True


def spans_blocks(c: Case) -> bool:
    if c.chunks is None or len(c.chunks) < 2:
        return False
    block_of, b = [], 0
    for k, s in enumerate(c.chunks):
        block_of += [k] * s
    seen = {}
    for i, l in enumerate(c.labels):
        if l is None:
            continue
        if l in seen and seen[l] != block_of[i]:
            return True
        seen.setdefault(l, block_of[i])
    return False


def exhaustive_cases(n, funcs=FUNCS, nlabels=2):
    """every label array over `nlabels` labels (first label fixed), every NaN pattern, every chunking of n positions"""
    for labs in itertools.product(range(nlabels), repeat=n):
        if labs[0] != 0:
            continue
        for nanmask in itertools.product([0, 1], repeat=n):
            vals = [NAN if m else float(i + 1) for i, m in enumerate(nanmask)]
            for ch in compositions(n):
                for f in funcs:
                    yield Case(func=f, dtype="float64", vals=vals, labels=list(labs), chunks=ch, stream=f"exhaustive{n}")


# ----------------------------------------------------------------------------------------------


class C10(Prop):
    id = "C10"
    lean_module = "FloxProps.C10"
    level = "proof"
    rule = ("flox.groupby_scan(func in nancumsum/ffill/bfill) on 1-D data, eager and on dask arrays (sync scheduler, some threaded). "
            "Streams: main (float64, values from {-3..5} with NaN runs of length 1-4; 1-4 groups random / periodic / runs that skip blocks / "
            "a group present only at both ends; chunkings all-ones / single / pairs / random, up to nmax blocks), inf (+-inf planted), "
            "dtypes (float32,int64,int8,uint8,int16,bool), narrow (int8/uint8/int16 data whose group totals exceed the input width: must accumulate in int64/uint64), time (datetime64/timedelta64 "
            "with NaT), missing (NaN labels), shortcut (every element its own group); exhaustive: every label array over 2 labels x "
            "every NaN pattern x EVERY chunking of n positions x 3 functions (n<=4 quick, n<=5 plus 3 labels at n=4 thorough). "
            "Each case: impl vs Lean model (all positions), oracle vs Lean spec, impl vs pure-Python per-group sequential scan "
            "(positions of real groups), announced dtype/chunks, chunked vs in-memory result, bfill vs mirrored ffill. "
            "non-trivial = two elements share a group (and a NaN is present for fills); distinct = hash of the full case")
    assumptions = [
        "rounding is not modelled: data are small integers / NaN / +-inf, on which float arithmetic is exact",
        "1-D arrays, one grouper, numpy labels (dask labels without expected_groups are refused by flox)",
        "elements with a missing label: bucketed together by flox (observed convention, tied model<->impl and spec<->oracle); "
        "the property check itself only constrains positions of real groups and chunked == eager",
        "the reduction kernels inside grouped_reduce / AlignedArrays.last are used through their C01 contract (kEval)",
        "dask's Blelloch wiring is simulated in Lean (blellochTrees) and validated by execution; the theorems hold for ANY bracketing",
    ]

    def volumes(self, tier, search):
        if tier == "quick":
            return dict(random=1400 * (3 if search else 1), nmax=12, exhaustive=[3, 4], three=[])
        return dict(random=12000 * (2 if search else 1), nmax=24, exhaustive=[3, 4, 5], three=[4])

    def corpus(self):
        return [
            Case("nancumsum", "float64", [1.0, NAN, 2.0], [0, 1, 2], None, stream="corpus"),
            Case("nancumsum", "float64", [NAN], [0], None, stream="corpus"),
            Case("nancumsum", "float64", [INF, -INF, 1.0, 2.0], [0, 0, 0, 0], [1, 1, 1, 1], stream="corpus"),
            Case("nancumsum", "float64", [INF, 1.0], [0, 1], None, stream="corpus"),
            Case("nancumsum", "int8", [100, 100, 100, 4, 100, 100], [0, 1, 0, 1, 0, 0], [3, 3], stream="corpus"),
            Case("ffill", "datetime64[ns]", [5, NAN, 7, NAN], [0, 0, 1, 1], None, stream="corpus"),
            Case("ffill", "float64", [NAN, 1.0, NAN, NAN, NAN, 2.0, NAN], [0, 0, 1, 0, 1, 1, 0], [1, 2, 2, 2], stream="corpus"),
            Case("bfill", "float64", [NAN, 1.0, NAN, NAN, NAN, 2.0, NAN], [0, 0, 1, 0, 1, 1, 0], [1, 2, 2, 2], stream="corpus"),
            Case("ffill", "float64", [1.0, NAN, 2.0, NAN, 3.0, NAN], [0, None, None, None, 0, 1], [2, 2, 2], stream="corpus"),
            Case("nancumsum", "float64", [1.0, NAN, 2.0, NAN, 3.0, NAN], [0, None, None, None, 0, 1], [2, 2, 2], stream="corpus"),
        ]

    def run(self, rng, tier, rep: Report, search=False):
        v = self.volumes(tier, search)
        cases = list(self.corpus())
        cases += [make_case(rng, v["nmax"]) for _ in range(v["random"])]
        nex = 0
        for n in v["exhaustive"]:
            ex = list(exhaustive_cases(n))
            nex += len(ex)
            cases += ex
        for n in v["three"]:
            ex = [c for c in exhaustive_cases(n, nlabels=3) if 2 in c.labels]
            nex += len(ex)
            cases += ex
        rep.extra["exhaustive"] = False
        rep.extra["exhaustive_subspace"] = (f"complete enumeration of labels in {{0,1}}^n x NaN patterns x all chunkings x 3 functions for n in "
                                            f"{v['exhaustive']}" + (f" and 3 labels for n in {v['three']}" if v["three"] else "") + f": {nex} cases")
        self.run_cases(cases, rep)

    def run_cases(self, cases, rep: Report):
        impls = [run_impl(c) for c in cases]
        lines, idx = [], []
        for i, c in enumerate(cases):
            l = model_line(c)
            if l is not None:
                lines.append(l)
                idx.append(i)
        outs = core.Driver().run(lines)
        mout = dict(zip(idx, outs))
        for i, (c, im) in enumerate(zip(cases, impls)):
            rep.evaluations += 1
            nt = nontrivial(c)
            if nt:
                rep.keys.add(c.key())
            rep.dist["func:" + c.func] += 1
            rep.dist["stream:" + c.stream] += 1
            rep.dist["dtype:" + c.dtype] += 1
            rep.dist["nblocks:" + ("eager" if c.chunks is None else str(min(len(c.chunks), 12)))] += 1
            rep.dist["n:" + str(min(len(c.vals), 24))] += 1
            rep.dist["impl:" + (im["kind"] if im["kind"] == "ok" else im["err"])] += 1
            if spans_blocks(c):
                rep.dist["group_spans_blocks"] += 1
            if c.scheduler == "threads":
                rep.dist["sched:threads"] += 1
            orc = run_oracle(c)
            if i in mout:
                model, spec = parse_model_output(mout[i])
                rep.dist["model:" + model["kind"]] += 1
                d1 = cmp_impl_model(im, model)
                if d1:
                    rep.tie1.append((asdict(c), d1))
                d2 = cmp_oracle_spec(orc, spec)
                if d2:
                    rep.tie2.append((asdict(c), d2))
            else:
                rep.dist["model:not-expressible"] += 1
            d3 = direct_check(c, im, orc, rep)
            if d3:
                rep.direct.append((asdict(c), d3))
            if nt and c.chunks is not None and len(c.chunks) > 1:
                rep.add_sample({"case": core.jsonable(asdict(c)), "impl": core.jsonable(im.get("vals", im)),
                                "oracle": core.jsonable(orc.get("vals")), "lean_model|spec": mout.get(i)})

    def replay(self, payload, rep: Report):
        d = dict(payload["case"])
        d["vals"] = [_unjson(x) for x in d["vals"]]
        self.run_cases([Case(**d)], rep)

    def match_finding(self, finding, case, detail) -> bool:
        from . import findings

        pred = findings.PREDICATES.get(finding["id"])
        return bool(pred and pred(case, detail))

    def check_finding_still_fails(self, finding):
        w = finding.get("witness")
        if not w or w.get("op") != "scan":
            return None
        d = dict(w["case"])
        d["vals"] = [_unjson(x) for x in d["vals"]]
        c = Case(**d)
        det = direct_check(c, run_impl(c), run_oracle(c))
        return bool(det) and self.match_finding(finding, asdict(c), det)


def _unjson(x):
    if isinstance(x, str):
        if x.lower() in ("nan", "nat"):
            return NAN
        if x in ("inf", "Infinity"):
            return INF
        if x in ("-inf", "-Infinity"):
            return -INF
    return x
