"""C14, part (c): lazy results that differ in exactly one ingredient, evaluated in one merged graph.

A configuration (`cfg`, a plain dict) describes one call of the real API (groupby_reduce / groupby_scan on dask input).
`variants(cfg, ingredient, values)` gives the configurations that differ from it in exactly that ingredient.
`check_tuple` builds the lazy results with the real flox, evaluates each alone, all together (both orders, optimised and
raw graph), executes every task of every graph and compares the values of task keys that occur in more than one graph.
"""
from __future__ import annotations

import copy
import math

import numpy as np

NAN = float("nan")

INGREDIENTS = ["array", "labels", "func", "fk", "min_count", "fill", "dtype", "method", "engine", "sort", "reindex",
               "expected", "chunks"]

DEFAULT = dict(kind="reduce", vals=[1.0, 2.0, 3.0, 4.0, 5.0, 6.0, 7.0, 8.0], adtype="float64", rows=1,
               labels=[0, 1, 0, 1, 2, 2, 0, 1], chunks=[3, 3, 2], by_dask=False, func="sum", fk=None, min_count=None,
               fill=None, dtype=None, method=None, engine=None, sort=True, reindex=None, expected=None)


def mkcfg(**kw):
    c = copy.deepcopy(DEFAULT)
    c.update(kw)
    return c


def _arr(cfg):
    a = np.array([NAN if (isinstance(v, float) and math.isnan(v)) else v for v in cfg["vals"]], dtype="float64")
    a = a.astype(cfg["adtype"]) if cfg["adtype"] != "float64" else a
    if cfg.get("rows", 1) > 1:
        a = np.stack([a + i for i in range(cfg["rows"])])
    return a


def _labels(cfg):
    labs = cfg["labels"]
    if any(l is None for l in labs):
        return np.array([NAN if l is None else float(l) for l in labs])
    return np.array(labs, dtype="int64")


def make_fk(fk):
    """finalize_kwargs from their JSON form: {"q_array": [...]} passes q as an ndarray, {"q_linspace": [n, i, v]} passes
    np.linspace(0, 1, n) with element i replaced by v"""
    out = {}
    for k, v in fk.items():
        if k == "q_array":
            out["q"] = np.array(v, dtype="float64")
        elif k == "q_linspace":
            q = np.linspace(0, 1, int(v[0]))
            if v[1] is not None:
                q[int(v[1])] = v[2]
            out["q"] = q
        else:
            out[k] = copy.deepcopy(v)
    return out


def fk_is_array(fk):
    return isinstance(fk, dict) and any(k in ("q_array", "q_linspace") for k in fk)


def build(cfg):
    """-> tuple of lazy/eager outputs of the real API call (result first); raises what flox raises"""
    import dask.array as da

    from flox.core import groupby_reduce, groupby_scan

    a = _arr(cfg)
    chunks = tuple(cfg["chunks"])
    d = da.from_array(a, chunks=((a.shape[0],), chunks) if a.ndim == 2 else (chunks,))
    by = _labels(cfg)
    if cfg.get("by_dask"):
        by = da.from_array(by, chunks=(chunks,))
    if cfg["kind"] == "scan":
        return (groupby_scan(d, by, func=cfg["func"], dtype=None if cfg["dtype"] is None else np.dtype(cfg["dtype"])),)
    kw = {}
    if cfg["fk"] is not None:
        kw["finalize_kwargs"] = make_fk(cfg["fk"])
    if cfg["expected"] is not None:
        kw["expected_groups"] = np.array(cfg["expected"])
    out = groupby_reduce(d, by, func=cfg["func"], min_count=cfg["min_count"], fill_value=cfg["fill"], dtype=cfg["dtype"],
                         method=cfg["method"], engine=cfg["engine"], sort=cfg["sort"], reindex=cfg["reindex"], **kw)
    return tuple(out)


# ------------------------------------------------------------------------------------------------
# values of each ingredient (small grids); `variants` keeps the others fixed


def grid(cfg, ingredient):
    f = cfg["func"]
    n = len(cfg["vals"])
    if ingredient == "array":
        v = cfg["vals"]
        return [v, [x + 10 for x in v], list(reversed(v)), [NAN if i % 3 == 1 else x for i, x in enumerate(v)]]
    if ingredient == "labels":
        base = cfg["labels"]
        k = max([l for l in base if l is not None] + [0]) + 1
        alts = [base, [(l + 1) % k if l is not None else None for l in base], list(reversed(base)),
                [min(i * k // n, k - 1) for i in range(n)]]
        return alts
    if ingredient == "func":
        if cfg["kind"] == "scan":
            return ["nancumsum", "ffill", "bfill"]
        fam = [["sum", "nansum", "prod", "nanprod", "max", "nanmax", "min", "nanmin", "mean", "nanmean", "count", "var", "nanvar", "std",
                "nanstd", "first", "last", "nanfirst", "nanlast", "any", "all"],
               ["argmax", "nanargmax", "argmin", "nanargmin"],
               ["median", "nanmedian", "mode", "nanmode"],
               ["quantile", "nanquantile"]]
        for fm in fam:
            if f in fm:
                return fm
        return [f]
    if ingredient == "fk":
        if f in ("var", "nanvar", "std", "nanstd"):
            return [None, {"ddof": 0}, {"ddof": 1}, {"ddof": 2}]
        if f in ("quantile", "nanquantile"):
            return [{"q": 0.25}, {"q": 0.5}, {"q": 0.75}, {"q": [0.25, 0.5]}, {"q": [0.5, 0.75]}, {"q_array": [0.25, 0.5]},
                    {"q_array": [0.25, 0.75]}, {"q_array": [0.25, 0.123456789]}, {"q_array": [0.25, 0.123456788]},
                    {"q_linspace": [1001, None, 0]}, {"q_linspace": [1001, 500, 0.9]}]
        return [cfg["fk"]]
    if ingredient == "min_count":
        return [1, 2, 3, 4] if f in ("nanmin", "nanmax") else [0, 1, 2, 3]
    if ingredient == "fill":
        if f in ("argmax", "nanargmax", "argmin", "nanargmin"):
            return [None, -1, 0, 99]
        return [None, 0, -7, NAN, 1000000.0]
    if ingredient == "dtype":
        if cfg["kind"] == "scan":
            return [None, "float32"] if cfg["adtype"] == "float64" else [None, "int32"]
        return [None, "float64", "float32", "int64"]
    if ingredient == "method":
        return ["map-reduce", "cohorts", "blockwise"]
    if ingredient == "engine":
        return ["numpy", "flox", "numbagg"]
    if ingredient == "sort":
        return [True, False]
    if ingredient == "reindex":
        return [True, False]
    if ingredient == "expected":
        labs = sorted({l for l in cfg["labels"] if l is not None})
        k = (labs[-1] + 1) if labs else 1
        return [None, labs, list(range(k + 1)), list(range(k + 2)), labs[:-1] if len(labs) > 1 else [k + 5], list(reversed(labs)) + [k + 3]]
    if ingredient == "chunks":
        return [[n], [1] * n, [n // 2, n - n // 2], [3] * (n // 3) + ([n % 3] if n % 3 else []), [1, n - 1]]
    raise KeyError(ingredient)


FIELD = {"array": "vals", "labels": "labels", "func": "func", "fk": "fk", "min_count": "min_count", "fill": "fill",
         "dtype": "dtype", "method": "method", "engine": "engine", "sort": "sort", "reindex": "reindex",
         "expected": "expected", "chunks": "chunks"}


def _same(a, b):
    return repr(a) == repr(b)


def with_value(cfg, ingredient, value):
    c = copy.deepcopy(cfg)
    c[FIELD[ingredient]] = copy.deepcopy(value)
    return c


def distinct_values(cfg, ingredient):
    out = []
    for v in grid(cfg, ingredient):
        if not any(_same(v, w) for w in out):
            out.append(v)
    return out


# ------------------------------------------------------------------------------------------------
# graph helpers


def keyname(k):
    return k[0] if isinstance(k, tuple) else k


def graph_of(outputs):
    """merged low-level graph of the lazy outputs of ONE call"""
    dsk = {}
    for o in outputs:
        if hasattr(o, "__dask_graph__"):
            dsk.update(dict(o.__dask_graph__()))
    return dsk


def layer_names(outputs):
    names = set()
    for o in outputs:
        if hasattr(o, "dask") and hasattr(o.dask, "layers"):
            names |= set(o.dask.layers)
    return names


def run_all(dsk):
    """execute every task of a low-level graph; -> {key: value}"""
    from dask._task_spec import convert_legacy_graph

    graph = convert_legacy_graph(dsk)
    deps = {k: set(getattr(t, "dependencies", ())) for k, t in graph.items()}
    done = {}
    order = []
    state = {}

    def visit(k):
        stack = [(k, iter(sorted(deps[k], key=repr)))]
        state[k] = 1
        while stack:
            node, it = stack[-1]
            adv = False
            for d in it:
                if d not in state:
                    if d not in graph:
                        raise KeyError(f"dependency {d!r} of {node!r} missing from graph")
                    state[d] = 1
                    stack.append((d, iter(sorted(deps[d], key=repr))))
                    adv = True
                    break
            if not adv:
                stack.pop()
                order.append(node)

    for k in sorted(graph, key=repr):
        if k not in state:
            visit(k)
    for k in order:
        done[k] = graph[k]({d: done[d] for d in deps[k]})
    return done, deps


def kind_of(name: str) -> str:
    """layer / key name with the content token removed"""
    import re

    s = re.sub(r"-[0-9a-f]{32}", "-#", name)
    s = re.sub(r"-[0-9a-f]{8}-[0-9a-f]{4}-[0-9a-f]{4}-[0-9a-f]{4}-[0-9a-f]{12}", "-#uuid", s)
    s = re.sub(r"-#-\d+-partial-\d+", "-#-partial", s)
    return s


def classify(name: str, cfg_kind: str, value_name: str | None, layer_deps=None) -> str:
    """layer / key name -> the model's `Kind` (lean/FloxModel/State.lean); "?" + kind string when unknown"""
    import re

    if value_name is not None and name == value_name:
        return "values"
    k = re.sub(r"^groupby_[a-z]+", "groupby_F", kind_of(name))
    k = re.sub(r"^(reshape-|group-)groupby_[a-z]+", r"\1groupby_F", k)
    if cfg_kind == "scan":
        if k == "array-#":
            return "scanRev"      # the label codes, reversed first for bfill: named by content
        if k.startswith("getitem-"):
            # bfill reverses values and codes before the scan (scanRev) and the result after it (scanBody)
            deps = (layer_deps or {}).get(name, ())
            return "scanRev" if all(str(d).startswith("array-") for d in deps) else "scanBody"
        if k == "groupby-scan-preprocess-#":
            return "scanPre"
        return "scanBody"
    if k == "array-#":
        # from_array of the factorised labels (read by the chunk / lazy-factorise layers); any other one is an index array of the
        # post-processing (result[..., sorted_idx])
        readers = [d for l, d in (layer_deps or {}).items()
                   if re.match(r"^(groupby_[a-z]+-chunk-|_lazy_factorize_wrapper-|_ravel_factorized-|rechunk-merge-|rechunk-split-)", str(l))]
        return "codes" if (layer_deps is None or any(name in d for d in readers)) else "post"
    table = [("rechunk-merge-#", "rechunk"), ("rechunk-split-#", "rechunk"), ("concatenate-#", "rechunk"),
             ("_lazy_factorize_wrapper-#", "lazyCodes"), ("_ravel_factorized-#", "lazyCodes"), ("arange-#", "argIndex"),
             ("groupby-argreduce-preprocess-#", "argPre"), ("groupby_F-chunk-#", "chunk"),
             ("groupby_F-simple-reduce-partial-#", "combine"), ("groupby_F-simple-reduce-aggregate-#", "combine"),
             ("groupby-cohort-#", "cohortSubset"), ("groupby_F-reduce-cohorts-#", "cohortReduce"),
             ("groupby_F-reduce-cohorts-#-partial", "cohortReduce"), ("reshape-groupby_F-chunk-#", "reshape"),
             ("groupby_F-#", "result")]
    for pat, kind in table:
        if k == pat:
            return kind
    if k.startswith("group-groupby_F-"):
        return "groups"
    if re.match(r"^(getitem|shuffle-[a-z]+|setitem|reindex_|astype|reshape|reindex|where|transpose|moveaxis|full_like|full|concatenate-getitem)-#$", k):
        return "post"
    return "?" + k


def names_by_kind(outputs, cfg_kind, value_name):
    """{model kind: set of key names} of the merged graph of one call's lazy outputs"""
    out = {}
    ldeps = {}
    for o in outputs:
        if hasattr(o, "dask") and hasattr(o.dask, "dependencies"):
            ldeps.update({k: set(v) for k, v in o.dask.dependencies.items()})
    for k in graph_of(outputs):
        nm = str(keyname(k))
        out.setdefault(classify(nm, cfg_kind, value_name, ldeps), set()).add(nm)
    return out


def value_name(cfg):
    """the name dask gives the caller's value collection (same construction as in `build`)"""
    import dask.array as da

    a = _arr(cfg)
    chunks = tuple(cfg["chunks"])
    return da.from_array(a, chunks=((a.shape[0],), chunks) if a.ndim == 2 else (chunks,)).name


def same_val(a, b) -> bool:
    import pandas as pd

    if isinstance(a, pd.Index) or isinstance(b, pd.Index):
        return type(a) is type(b) and a.dtype == b.dtype and bool(a.equals(b))
    if isinstance(a, np.ndarray) or isinstance(b, np.ndarray) or isinstance(a, np.generic) or isinstance(b, np.generic):
        x, y = np.asarray(a), np.asarray(b)
        if x.dtype != y.dtype or x.shape != y.shape:
            return False
        if x.dtype == object:
            return all(same_val(p, q) for p, q in zip(x.ravel().tolist(), y.ravel().tolist()))
        if x.dtype.kind in "Mm":
            x, y = x.astype("int64"), y.astype("int64")
        try:
            return bool(np.array_equal(x, y, equal_nan=True))
        except TypeError:
            return bool(np.array_equal(x, y))
    if isinstance(a, dict) and isinstance(b, dict):
        return a.keys() == b.keys() and all(same_val(a[k], b[k]) for k in a)
    if isinstance(a, (list, tuple)) and isinstance(b, (list, tuple)):
        return type(a) is type(b) and len(a) == len(b) and all(same_val(x, y) for x, y in zip(a, b))
    if callable(a) and callable(b):
        return True
    if type(a) is type(b) and hasattr(a, "__dict__") and type(a).__module__.startswith("flox"):
        return same_val(vars(a), vars(b))
    try:
        return bool(a == b) or (a != a and b != b)
    except Exception:  # noqa
        return False


def canon(x):
    """value -> json-able canonical form (dtype, shape, tokens)"""
    from . import core

    if isinstance(x, tuple):
        return [canon(v) for v in x]
    a = np.asarray(x)
    if a.dtype == object:
        return {"dtype": "object", "shape": list(a.shape), "v": [repr(v) for v in a.ravel().tolist()]}
    if a.dtype.kind in "Mm":
        a = a.astype("int64")
    return {"dtype": str(np.asarray(x).dtype), "shape": list(a.shape), "v": [core.tok(v) for v in a.ravel().tolist()]}


def compute_alone(outputs, optimize=True):
    import dask

    return dask.compute(*outputs, scheduler="sync", optimize_graph=optimize)


def check_tuple(cfgs, stats=None, deep=True):
    """cfgs: 2 or 3 configurations.  -> dict(status, problems=[...], shared=[(kind, equal)], names=[set per cfg])

    problems are descriptions of property failures (together != alone, shared key with different values)."""
    import dask

    outs = []
    for c in cfgs:
        try:
            outs.append(build(c))
        except (NotImplementedError, ValueError, TypeError, AssertionError, ImportError) as e:
            return {"status": "refused:" + type(e).__name__, "problems": [], "which": len(outs), "msg": str(e)[:120]}
    problems = []
    alone = []
    for o in outs:
        try:
            alone.append(compute_alone(o))
        except Exception as e:  # noqa  - a call that fails alone is not this property's business
            return {"status": "alone-fails:" + type(e).__name__, "problems": [], "msg": str(e)[:120]}
    n = len(outs)
    orders = [list(range(n)), list(reversed(range(n)))]
    if n == 3:
        orders.append([1, 2, 0])
    for order in orders:
        for opt in ((True, False) if deep else (True,)):
            flat = []
            for i in order:
                flat.extend(outs[i])
            try:
                got = dask.compute(*flat, scheduler="sync", optimize_graph=opt)
            except Exception as e:  # noqa
                problems.append(f"together{order} optimize={opt}: raised {type(e).__name__}: {str(e)[:100]}")
                continue
            pos = 0
            for i in order:
                m = len(outs[i])
                for j in range(m):
                    if not same_val(got[pos + j], alone[i][j]):
                        problems.append(f"together{order} optimize={opt}: output {j} of result {i} differs from its stand-alone value: "
                                        f"{canon(got[pos + j])['v'][:8]} vs {canon(alone[i][j])['v'][:8]}")
                pos += m
    # task level: keys shared between graphs must carry the same value in each
    graphs = [graph_of(o) for o in outs]
    shared_report = []
    ran = []
    for g in graphs:
        try:
            ran.append(run_all(g))
        except Exception as e:  # noqa
            problems.append(f"task-by-task execution raised {type(e).__name__}: {str(e)[:100]}")
            ran.append(None)
    for i in range(n):
        for j in range(i + 1, n):
            if ran[i] is None or ran[j] is None:
                continue
            common = set(graphs[i]) & set(graphs[j])
            bad = []
            for k in common:
                if not same_val(ran[i][0][k], ran[j][0][k]):
                    bad.append(k)
            kinds = sorted({kind_of(str(keyname(k))) for k in common})
            shared_report.append({"pair": [i, j], "shared_keys": len(common), "kinds": kinds, "bad": [repr(k) for k in bad[:4]]})
            if bad:
                problems.append(f"results {i} and {j} share task key {bad[0]!r} but the two tasks compute different values "
                                f"({len(bad)} such keys)")
    if stats is not None:
        stats["tasks"] = stats.get("tasks", 0) + sum(len(g) for g in graphs)
    return {"status": "ok", "problems": problems, "shared": shared_report, "alone": [canon(a) for a in alone],
            "names": [sorted(kind_of(str(keyname(k))) for k in {keyname(k) for k in g}) for g in graphs],
            "rawnames": [sorted({str(keyname(k)) for k in g}) for g in graphs],
            "layers": [sorted(layer_names(o)) for o in outs], "graphs": graphs, "ran": ran, "outs": outs}
