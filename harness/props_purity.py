"""C13 – generated tasks are pure, re-executable and serialisable.

Per case (one flox API call on dask input) the harness

  impl    – builds the REAL graph, materialises it and executes it task by task (harness/graphexec.Instrumented):
              leg A  frozen buffers: every array reachable from a task's inputs is read-only; inputs and the task's own
                     embedded state are hashed before/after; each task is run twice and once after a cloudpickle round
                     trip of the task and of its inputs; the schedule is a seeded random topological order with extra
                     executions of finished tasks at later positions and with LOST results that are recomputed;
              leg B  writable buffers (deep copies of the leaves), another random order, inputs hashed before/after
                     (catches a write that only happens when the buffer happens to be writable);
              legs C  `dask.compute` on the synchronous scheduler once and on the threaded scheduler 5 times;
              leg E  the eager call on the same (frozen) NumPy arrays, and on writable copies;
            and compares: per key, the value of every execution in A and B (bitwise, structural digests); the assembled
            outputs of A, B, C (bitwise); the eager result (tolerance for floating results: C02's business); the user's
            value / label / expected-groups arrays before and after everything (bitwise); flox's AGGREGATIONS registry.
  model   – the Lean scheduler model (`graph` driver op) run on the key/dependency structure of the real graph and on the
            very schedules executed in A and B (and a plain order): it must accept them and return one and the same table
            (tie 1: what the model predicts – same key, same value under every schedule – is what the real tasks did;
             a schedule the real executor ran must respect dependencies in the model).
  oracle  – an independent evaluation of the same uninterpreted function symbols by memoised recursion over the
            dependencies (no schedule at all), checked by the driver against the Lean specification `Solution` and compared
            with the model's tables (tie 2).  One corrupted candidate per run must be rejected by the specification.

A violated property (rep.direct) is any Impurity raised by the executor or any bitwise difference between the legs.
"""
from __future__ import annotations

import itertools
import math
import random
import warnings
from dataclasses import asdict, dataclass, field

import numpy as np

from . import core, graphexec
from .framework import Prop, Report

warnings.filterwarnings("ignore")

NAN = float("nan")
MIXP = 2305843009213693951

REDUCTIONS = ["sum", "nansum", "prod", "nanprod", "max", "nanmax", "min", "nanmin", "count", "mean", "nanmean", "var",
              "nanvar", "std", "nanstd", "any", "all", "first", "last", "nanfirst", "nanlast", "argmax", "argmin",
              "nanargmax", "nanargmin", "median", "nanmedian", "quantile", "nanquantile"]
# "mode" / "nanmode" raise ValueError('setting an array element with a sequence.') in this environment for in-memory and
# dask input alike (before any graph exists): nothing to execute, left out of the grid
SCANS = ["nancumsum", "ffill", "bfill"]
ARG = {"argmax", "argmin", "nanargmax", "nanargmin"}
ORDER_STATS = {"median", "nanmedian", "quantile", "nanquantile", "mode", "nanmode"}
BLOCKWISE_ONLY = ORDER_STATS | {"first", "last"}
FLOATY = {"mean", "nanmean", "var", "nanvar", "std", "nanstd", "median", "nanmedian", "quantile", "nanquantile"}


@dataclass
class PCase:
    kind: str                       # reduce | scan
    func: str
    dtype: str
    shape: list                     # array shape (1-D or 2-D)
    vals: list                      # flat, row-major
    labels: list                    # flat; None = missing label
    label_shape: list               # 1-D (last axis) or the full 2-D shape
    chunks: list                    # per array axis: list of block sizes
    dask_labels: bool = False
    method: str | None = None
    reindex: bool | None = None
    engine: str | None = None
    split_every: int = 4
    expected: list | None = None
    fill: object = None
    min_count: int | None = None
    q: object = None                # None | float | list of floats
    optimize: bool = False
    seed: int = 0

    def key(self):
        return core.case_hash(core.jsonable(asdict(self)))


# ----------------------------------------------------------------------------------------------
# inputs and the API call


def np_array(c: PCase):
    dt = np.dtype(c.dtype)
    if dt.kind == "b":
        a = np.array([bool(v) for v in c.vals], dtype=bool)
    else:
        a = np.array(c.vals, dtype=dt)
    return a.reshape(c.shape)


def np_labels(c: PCase):
    if any(l is None for l in c.labels):
        a = np.array([NAN if l is None else float(l) for l in c.labels], dtype="float64")
    else:
        a = np.array([int(l) for l in c.labels], dtype="int64")
    return a.reshape(c.label_shape)


def api_kwargs(c: PCase):
    kw = dict(func=c.func)
    if c.engine is not None:
        kw["engine"] = c.engine
    if c.kind == "scan":
        return kw
    if c.expected is not None:
        kw["expected_groups"] = np.array(c.expected)
    if c.fill is not None:
        kw["fill_value"] = c.fill
    if c.min_count is not None:
        kw["min_count"] = c.min_count
    if c.q is not None:
        kw["finalize_kwargs"] = {"q": c.q}
    return kw


def call_eager(c: PCase, arr, by):
    import flox

    kw = api_kwargs(c)
    if c.kind == "scan":
        return (flox.groupby_scan(arr, by, **kw),)
    return flox.groupby_reduce(arr, by, **kw)


def call_lazy(c: PCase, arr, by):
    """returns the tuple of results (some lazy)"""
    import dask
    import dask.array as da
    import flox

    kw = api_kwargs(c)
    darr = da.from_array(arr, chunks=tuple(tuple(x) for x in c.chunks))
    if c.dask_labels:
        lch = tuple(tuple(x) for x in c.chunks[len(c.shape) - len(c.label_shape):])
        dby = da.from_array(by, chunks=lch)
    else:
        dby = by
    if c.method is not None:
        kw["method"] = c.method
    with dask.config.set(split_every=c.split_every):
        if c.kind == "scan":
            return (flox.groupby_scan(darr, dby, **kw),)
        if c.reindex is not None:
            kw["reindex"] = c.reindex
        return flox.groupby_reduce(darr, dby, **kw)


def is_readonly_error(e: BaseException) -> bool:
    s = str(e)
    return isinstance(e, (ValueError, TypeError)) and ("read-only" in s or "readonly" in s or "not writeable" in s or "WRITEABLE" in s)


def registry_digest():
    import flox.aggregations as fa

    return graphexec.digest2({k: v for k, v in fa.AGGREGATIONS.items()})


def eager_comparable(c: PCase) -> bool:
    """the eager result is a reference only inside the documented domain (C06: argmax/argmin of a group containing NaN and
    nanargmax/nanargmin of an all-NaN group are undefined and legitimately differ between in-memory and chunked evaluation;
    the legs of the SAME graph are still compared bitwise)"""
    if c.func in ARG and any(isinstance(v, float) and v != v for v in c.vals):
        return False          # argmax/argmin with a NaN member, nanargmax/nanargmin of an all-NaN group: undefined
    return True


def close(a, b, floaty: bool) -> bool:
    a, b = np.asarray(a), np.asarray(b)
    if a.shape != b.shape:
        return False
    if a.dtype.kind in "fc" or b.dtype.kind in "fc":
        if floaty:
            return bool(np.allclose(a.astype("float64"), b.astype("float64"), rtol=1e-6, atol=1e-9, equal_nan=True))
        return bool(np.array_equal(a.astype("float64"), b.astype("float64"), equal_nan=True))
    return bool(np.array_equal(a, b))


# ----------------------------------------------------------------------------------------------
# the uninterpreted-symbol evaluation (oracle side) – mirrors DriverOps/Graph.lean `mix`


def mix(k: int, xs) -> int:
    h = ((k + 1) * 1000003) % MIXP
    for x in xs:
        h = (h * 1000003 + x + 7) % MIXP
    return h


def oracle_table(deps_idx: list[list[int]]) -> list[int]:
    """value of every key by memoised recursion over the dependencies (no schedule)"""
    memo: dict[int, int] = {}

    def val(k, stack=()):
        if k in memo:
            return memo[k]
        if k in stack:
            raise RuntimeError("cyclic graph")
        memo[k] = mix(k, [val(d, stack + (k,)) for d in deps_idx[k]])
        return memo[k]

    return [val(k) for k in range(len(deps_idx))]


# ----------------------------------------------------------------------------------------------
# one case


class Outcome:
    def __init__(self):
        self.status = "ok"          # ok | refused | compute-error
        self.note = ""
        self.direct = []            # descriptions of property failures
        self.lines = []             # driver lines
        self.checks = []            # (line index, kind, payload) to verify after the driver ran
        self.dist = {}
        self.sample = None
        self.ntasks = 0


def bump(d, k, n=1):
    d[k] = d.get(k, 0) + n


def run_instrumented(inst, ops, mode, rerun, pickle, stats, out: Outcome, leg: str, fresh=False):
    """run a schedule; a read-only rejection that is not a write (Cython / numba signatures refusing const buffers) is
    retried by the executor on writable copies with hashing – see Instrumented.run(retry_readonly=True)"""
    try:
        return inst.run(ops, mode=mode, rerun=rerun, pickle=pickle, stats=stats, fresh=fresh)
    except graphexec.Impurity as e:
        out.direct.append(f"leg {leg}: {e.kind}: key={e.key!r} func={e.func} :: {e.detail}")
        return None


def run_case(c: PCase, out: Outcome, *, threads=5, exhaustive=False, exh_cap=4000):
    import dask

    rng = random.Random(c.seed)
    arr, by = np_array(c), np_labels(c)
    arr_w, by_w = arr.copy(), by.copy()
    arr.setflags(write=False)
    by.setflags(write=False)
    d_arr, d_by = graphexec.digest2(arr), graphexec.digest2(by)
    reg0 = registry_digest()
    floaty = c.func in FLOATY or (c.dtype.startswith("float") and c.func in ("sum", "nansum", "prod", "nanprod", "nancumsum"))

    # ---- leg E: eager on the frozen arrays and on writable copies ----------------------------------------------
    eager = None
    try:
        eager = [np.asarray(x) for x in call_eager(c, arr, by)]
    except Exception as e:  # noqa
        if is_readonly_error(e):
            # does the eager path really write into the user's array?  decide on writable copies by hashing
            bump(out.dist, "eager:readonly-rejected")
        eager_err = e
    try:
        d0 = (graphexec.digest2(arr_w), graphexec.digest2(by_w))
        eager_w = [np.asarray(x) for x in call_eager(c, arr_w, by_w)]
        if (graphexec.digest2(arr_w), graphexec.digest2(by_w)) != d0:
            which = "values" if graphexec.digest2(arr_w) != d0[0] else "labels"
            out.direct.append(f"leg E: the eager call modified the user's {which} array in place")
        if eager is not None and graphexec.digest2(eager) != graphexec.digest2(eager_w):
            out.direct.append("leg E: eager result on read-only arrays differs from the result on writable copies")
        if eager is None:
            if is_readonly_error(eager_err):
                out.direct.append(f"leg E: eager call raises on read-only user arrays ({eager_err!r}) but succeeds on writable ones")
            eager = eager_w
    except Exception:  # noqa
        eager = None  # the eager call is refused (e.g. NotImplementedError): nothing to compare with
    if graphexec.digest2(arr) != d_arr or graphexec.digest2(by) != d_by:
        out.direct.append("leg E: user array changed by the eager call")

    # ---- build the graph ---------------------------------------------------------------------------------------
    try:
        results = call_lazy(c, arr, by)
    except Exception as e:  # noqa
        if is_readonly_error(e):
            out.direct.append(f"graph construction writes into the user's read-only arrays: {e!r}")
            return
        out.status, out.note = "refused", type(e).__name__
        return
    if graphexec.digest2(arr) != d_arr or graphexec.digest2(by) != d_by:
        out.direct.append("the API call (graph construction) modified the user's arrays")
    lazy = [r for r in results if hasattr(r, "__dask_graph__")]
    if not lazy:
        out.status, out.note = "refused", "not-lazy"
        return
    if c.optimize:
        opt = dask.optimize(*lazy)
        it = iter(opt)
        results = tuple(next(it) if hasattr(r, "__dask_graph__") else r for r in results)
        lazy = [r for r in results if hasattr(r, "__dask_graph__")]

    # ---- legs A, B: instrumented execution (first, on the pristine task objects) ------------------------------------
    coll = graphexec.Multi(*lazy)
    inst = graphexec.Instrumented(coll)
    if inst.pickle_error is not None:
        out.direct.append(f"the graph cannot be serialised with cloudpickle: {inst.pickle_error!r}")
        return
    stats: dict = {}
    ops_a = inst.schedule(rng)
    ops_b = [("e", k) for k in inst.topo(rng)]
    ops_p = [("e", k) for k in inst.topo(random.Random(0))]
    generic = None
    ra = rb = None
    try:
        ra = run_instrumented(inst, ops_a, "frozen", True, True, stats, out, "A")
        rb = run_instrumented(inst, ops_b, "writable", False, False, stats, out, "B", fresh=True)
    except Exception as e:  # noqa
        generic = e

    # ---- legs C: plain dask schedulers ---------------------------------------------------------------------------
    try:
        with dask.config.set(split_every=c.split_every):
            ref = [np.asarray(x) for x in dask.compute(*results, scheduler="sync")]
    except Exception as e:  # noqa
        if is_readonly_error(e):
            out.direct.append(f"leg C: compute on read-only user arrays raises {e!r}")
            return
        if generic is not None and not is_readonly_error(generic):
            # the graph itself raises under plain dask as well as task by task (not C13's business; the exception types may
            # differ because the harness executes raw tasks while dask.compute optimises the graph first)
            out.status, out.note = "compute-error", type(e).__name__
            return
        out.direct.append(f"leg C: dask.compute raises {e!r} after the instrumented legs ran"
                          + ("" if generic is None else f" (which raised {generic!r})"))
        return
    if generic is not None:
        out.direct.append(f"the task-by-task execution (read-only inputs, re-executions, lost results, pickling) raised {generic!r} "
                          f"although dask.compute of the same collection succeeds")
    d_ref = graphexec.digest2(ref)
    for t in range(threads):
        try:
            got = [np.asarray(x) for x in dask.compute(*results, scheduler="threads", num_workers=4)]
        except Exception as e:  # noqa
            out.direct.append(f"leg C: computing the same collection again (threaded run #{t}) raises {e!r}")
            break
        if graphexec.digest2(got) != d_ref:
            out.direct.append(f"leg C: threaded run #{t} differs bitwise from the synchronous run: {got!r} vs {ref!r}")
            break

    out.ntasks = len(inst.keys)
    for k in inst.keys:
        bump(out.dist, "layer:" + graphexec.layer_kind(k))
        bump(out.dist, "node:" + type(inst.graph[k]).__name__)
    bump(out.dist, "ops:exec", sum(1 for o, _ in ops_a if o == "e") + len(ops_b))
    bump(out.dist, "ops:lose", sum(1 for o, _ in ops_a if o == "l"))
    bump(out.dist, "ops:extra-exec", sum(1 for o, _ in ops_a if o == "e") - len(inst.keys))
    for k2, v in stats.items():
        bump(out.dist, "task-" + k2, v)
    present_ok = True
    if ra is not None and rb is not None:
        (memo_a, dig_a), (memo_b, dig_b) = ra, rb
        present_ok = set(memo_a) == set(inst.keys) == set(memo_b)
        for k in inst.keys:
            if dig_a.get(k) != dig_b.get(k):
                out.direct.append(f"value of {k!r} [{graphexec.describe_func(inst.graph[k])}] differs between schedule A (frozen, "
                                  f"re-executions, losses) and schedule B (writable, other order)")
                break
        for name, memo in (("A", memo_a), ("B", memo_b)):
            fin = [np.asarray(graphexec.assemble(b)) for b in inst.collect(memo)]
            lazy_ref = [r for r, x in zip(ref, results) if hasattr(x, "__dask_graph__")]
            if graphexec.digest2(fin) != graphexec.digest2(lazy_ref):
                out.direct.append(f"leg {name}: assembled result differs bitwise from dask.compute: {fin!r} vs {lazy_ref!r}")
    if eager is not None and len(eager) == len(ref) and eager_comparable(c):
        for j, (a, b) in enumerate(zip(eager, ref)):
            if not close(a, b, floaty):
                out.direct.append(f"result #{j} of the graph differs from the eager result: {b!r} vs {a!r}")
                break

    # ---- exhaustive interleavings / re-execution subsets (small graphs) -----------------------------------------
    exh_scheds = []
    if exhaustive and ra is not None:
        prefix = [k for k in ops_p_keys(ops_p) if not inst.deps[k]]
        exts = inst.linear_extensions(prefix, exh_cap)
        inner = [k for k in inst.keys if inst.deps[k]]
        if exts is None:
            bump(out.dist, "exhaustive:too-many-orders")
        else:
            bump(out.dist, "exhaustive:graphs")
            bump(out.dist, "exhaustive:orders", len(exts))
            for o in exts:
                ops = [("e", k) for k in o]
                r = run_instrumented(inst, ops, "frozen", False, False, None, out, "X-order", fresh=True)
                if r is None:
                    break
                if r[1] != ra[1]:
                    out.direct.append(f"order {[inst.index[k] for k in o]} gives different task values than schedule A")
                    break
                exh_scheds.append(ops)
            if len(inner) <= 10:
                base = [("e", k) for k in ops_p_keys(ops_p)]
                nsub = 0
                for mask in range(1, 2 ** len(inner)):
                    extra = [k for j, k in enumerate(inner) if mask >> j & 1]
                    rng.shuffle(extra)
                    ops = base + [("e", k) for k in extra]
                    r = run_instrumented(inst, ops, "frozen", False, False, None, out, "X-subset", fresh=True)
                    if r is None:
                        break
                    if r[1] != ra[1]:
                        out.direct.append(f"re-executing the subset {[inst.index[k] for k in extra]} after the run changes task values")
                        break
                    nsub += 1
                    if mask % 7 == 0:
                        exh_scheds.append(ops)
                bump(out.dist, "exhaustive:reexec-subsets", nsub)

    # ---- afterwards: the user's arrays and the registry ----------------------------------------------------------
    if graphexec.digest2(arr) != d_arr:
        out.direct.append("the user's value array changed during execution")
    if graphexec.digest2(by) != d_by:
        out.direct.append("the user's label array changed during execution")
    if registry_digest() != reg0:
        out.direct.append("flox.aggregations.AGGREGATIONS changed during the call / execution")

    # ---- model / spec line -----------------------------------------------------------------------------------------
    deps_idx = [[inst.index[d] for d in inst.deps[k]] for k in inst.keys]
    cand = oracle_table(deps_idx)
    scheds = [ops_a, ops_b, ops_p] + exh_scheds
    line = (f"graph n={len(inst.keys)} cand={','.join(map(str, cand))} | {inst.deps_token()} | "
            + " | ".join(inst.ops_token(o) for o in scheds))
    out.lines.append(line)
    out.checks.append(dict(kind="main", cand=cand, nsched=len(scheds), ran=[ra is not None, rb is not None], present_ok=present_ok))
    # a corrupted candidate must be rejected by the specification
    if cand:
        j = rng.randrange(len(cand))
        bad = list(cand)
        bad[j] = (bad[j] + 1) % MIXP
        out.lines.append(f"graph n={len(inst.keys)} cand={','.join(map(str, bad))} | {inst.deps_token()} | {inst.ops_token(ops_p)}")
        out.checks.append(dict(kind="corrupt"))
        # a schedule that violates a dependency must be rejected by the model (the hypothesis is not vacuous)
        inner = [k for k in inst.keys if inst.deps[k]]
        if inner:
            k = rng.choice(inner)
            bad_ops = [("e", k)] + ops_p
            out.lines.append(f"graph n={len(inst.keys)} cand=- | {inst.deps_token()} | {inst.ops_token(bad_ops)}")
            out.checks.append(dict(kind="bad-order"))
    out.sample = {"case": core.jsonable(asdict(c)), "n_tasks": len(inst.keys), "schedule_A": inst.ops_token(ops_a)[:300],
                  "result": core.jsonable([np.asarray(x).tolist() for x in ref])}


def ops_p_keys(ops):
    return [k for _, k in ops]


def verify_driver(out: Outcome, answers: list[str]):
    """returns (tie1 descriptions, tie2 descriptions)"""
    t1, t2 = [], []
    for chk, ans in zip(out.checks, answers):
        if not ans.startswith("ok "):
            t1.append(f"driver answered {ans[:120]!r}")
            continue
        parts = [p.strip() for p in ans[3:].split("|")]
        sol, tables = parts[0], parts[1:]
        if chk["kind"] == "main":
            cand = ",".join(map(str, chk["cand"]))
            if sol != "sol=1":
                t2.append(f"the oracle's table is not a Solution according to the Lean spec ({sol})")
            if len(tables) != chk["nsched"]:
                t1.append("driver returned a wrong number of tables")
                continue
            for j, t in enumerate(tables):
                if t == "rejected":
                    if j >= 2 or chk["ran"][j]:
                        t1.append(f"schedule #{j} was executed on the real graph but the model rejects it")
                    continue
                if t != tables[2]:
                    t1.append(f"model table of schedule #{j} differs from the plain order's table")
                if t != cand:
                    t2.append(f"model table of schedule #{j} differs from the oracle's recursion")
            if not chk["present_ok"]:
                t1.append("the real memo after the schedule does not hold exactly the graph's keys")
        elif chk["kind"] == "corrupt":
            if sol != "sol=0":
                t2.append(f"a corrupted table is accepted by the Lean spec ({sol})")
        elif chk["kind"] == "bad-order":
            if tables != ["rejected"]:
                t1.append("the model accepts a schedule that executes a task before its dependencies")
    return t1, t2


# ----------------------------------------------------------------------------------------------
# generators


def split_blocks(rng: random.Random, n: int, kind: str | None = None):
    kind = kind or rng.choice(["ones", "single", "random", "random", "even"])
    if n == 0:
        return [0]
    if kind == "ones":
        return [1] * n
    if kind == "single":
        return [n]
    if kind == "even":
        k = rng.randint(1, max(1, n // 2))
        out = [k] * (n // k)
        if n % k:
            out.append(n % k)
        return out
    out, left = [], n
    while left > 0:
        k = rng.randint(1, min(left, 4))
        out.append(k)
        left -= k
    return out


def gen_vals(rng, n, dtype, nanp):
    dt = np.dtype(dtype)
    if dt.kind == "b":
        return [rng.random() < 0.5 for _ in range(n)]
    if dt.kind in "iu":
        return [rng.choice([-3, -2, -1, 0, 1, 2, 3, 5]) for _ in range(n)]
    return [NAN if rng.random() < nanp else float(rng.choice([-3, -2, -1, 0, 1, 2, 3, 5])) for _ in range(n)]


def make_case(rng: random.Random, i: int, tier: str, *, func=None, method="?", engine="?", small=False) -> PCase:
    kind = "scan" if (func in SCANS or (func is None and i % 6 == 5)) else "reduce"
    if func is None:
        func = SCANS[(i // 6) % len(SCANS)] if kind == "scan" else REDUCTIONS[i % len(REDUCTIONS)]
    dtype = rng.choice(["float64", "float64", "float64", "int64", "float32"])
    if func in ("any", "all"):
        dtype = "bool"
    if func in ORDER_STATS:
        dtype = rng.choice(["float64", "float64", "int64"])
    nmax = 6 if small else (10 if tier == "quick" else 16)
    n = 6 if small else rng.randint(2, nmax)
    layout = rng.choice(["1d", "1d", "2d-1dlabels", "2d-2dlabels"]) if not small else "1d"
    if layout == "2d-2dlabels" and (kind == "scan" or func in ARG or func in BLOCKWISE_ONLY or func in ("nanfirst", "nanlast")):
        layout = "2d-1dlabels"
    if method == "?":
        if kind == "scan":
            method = None
        elif func in BLOCKWISE_ONLY:
            method = "blockwise"
        elif func in ARG:
            method = rng.choice([None, "map-reduce", "map-reduce", "cohorts"])
        else:
            method = rng.choice([None, "map-reduce", "map-reduce", "cohorts", "blockwise"])
    ngroups = rng.randint(1, 4)
    base = rng.sample([0, 1, 2, 3, 4, 7, 9, -2], ngroups)
    pattern = rng.choice(["random", "sorted", "periodic", "runs"])
    if method == "blockwise":
        pattern = "sorted"
        if layout == "2d-2dlabels":
            layout = "2d-1dlabels"
    nlab = n
    r = 1
    if layout == "1d":
        shape, label_shape = [n], [n]
    else:
        r = rng.randint(1, 3)
        shape = [r, n]
        label_shape = [n] if layout == "2d-1dlabels" else [r, n]
        nlab = n if layout == "2d-1dlabels" else r * n
    if pattern == "sorted":
        labs = sorted(rng.choice(base) for _ in range(nlab))
    elif pattern == "periodic":
        labs = [base[j % ngroups] for j in range(nlab)]
    elif pattern == "runs":
        labs = []
        while len(labs) < nlab:
            labs += [rng.choice(base)] * rng.randint(1, 3)
        labs = labs[:nlab]
    else:
        labs = [rng.choice(base) for _ in range(nlab)]
    missing = rng.choice([0, 0, 0.2])
    labs = [None if rng.random() < missing else l for l in labs]
    if method == "blockwise" and any(l is None for l in labs):
        labs = [l for l in labs if l is not None] + [None] * sum(1 for l in labs if l is None)
    vals = gen_vals(rng, int(np.prod(shape)), dtype, rng.choice([0, 0.3]))
    last = [2, 2, 2] if small else split_blocks(rng, n)
    chunks = [last] if layout == "1d" else [split_blocks(rng, r, rng.choice(["ones", "single"])), last]
    c = PCase(kind=kind, func=func, dtype=dtype, shape=shape, vals=vals, labels=labs, label_shape=label_shape, chunks=chunks,
              method=method, seed=rng.randrange(2 ** 31))
    c.engine = rng.choice([None, "numpy", "flox", "numbagg"] + (["numba"] if tier == "thorough" and rng.random() < 0.05 else [])) if engine == "?" else engine
    if func in ARG and c.engine in ("flox", "numbagg"):
        c.engine = "numpy"
    if kind == "scan":
        c.engine = None
    c.split_every = rng.choice([2, 3, 4])
    c.optimize = rng.random() < 0.3
    if kind == "scan":
        return c
    if method in (None, "map-reduce"):
        c.reindex = rng.choice([None, None, True, False]) if func not in ARG else rng.choice([None, False])
        c.dask_labels = rng.random() < 0.3
    present = sorted({l for l in labs if l is not None})
    emode = rng.choice(["none", "none", "superset", "exact"])
    if c.dask_labels and rng.random() < 0.6:
        emode = "superset"
    if emode == "superset":
        c.expected = sorted(set(present) | {11, 12})
    elif emode == "exact" and present:
        c.expected = present
    if c.expected is not None or rng.random() < 0.3:
        c.fill = rng.choice([NAN, 0, -7]) if func not in ARG else -7
        if func in ("any", "all"):
            c.fill = rng.choice([0, 1])
        if dtype != "float64" and isinstance(c.fill, float) and func not in FLOATY:
            c.fill = 0
    if c.fill is not None and rng.random() < 0.3:
        c.min_count = rng.choice([1, 2])
    if func in ("quantile", "nanquantile"):
        c.q = rng.choice([0.5, 0.25, [0.25, 0.75]])
    return c


EXHAUSTIVE_CONFIGS = [
    ("nansum", "map-reduce", "numpy"), ("nansum", "map-reduce", "flox"), ("nanmean", "map-reduce", "numbagg"),
    ("nanargmax", "map-reduce", "numpy"), ("argmin", "map-reduce", "numpy"), ("nanvar", "cohorts", "flox"),
    ("nanmax", "cohorts", "numpy"), ("nanlast", "map-reduce", "numpy"), ("nanfirst", "cohorts", "numpy"),
    ("nanmedian", "blockwise", "flox"), ("nanquantile", "blockwise", "flox"), ("count", "blockwise", "numpy"),
    ("nancumsum", None, None), ("ffill", None, None), ("bfill", None, None), ("all", "map-reduce", "numpy"),
]


class C13(Prop):
    id = "C13"
    lean_module = "FloxProps.C13"
    level = "proof"
    rule = ("seeded grid over flox.groupby_reduce / groupby_scan on dask input: 29 reductions (incl. arg-reductions, first/last "
            "family, var/std, median/quantile; mode/nanmode raise before any graph exists in this environment) and the 3 scans; methods None/map-reduce (reindex None/True/False)/cohorts/"
            "blockwise; engines default/numpy/flox/numbagg (numba in thorough); numpy and dask labels; 1-D arrays, 2-D arrays with "
            "1-D labels, 2-D arrays with 2-D labels; chunkings all-ones/single/even/random on every axis; split_every 2-4; raw and "
            "dask-optimised graphs; NaN data and missing labels. Every task of every graph is executed by the instrumented "
            "executor (read-only + hashed inputs, hashed task state, double execution, cloudpickle round trip, later re-executions, "
            "lost results) and the legs A/B/sync/threads x5/eager are compared bitwise. Thorough adds, for 16 small (three-block, else fused / two-block) graphs, ALL "
            "dependency-respecting interleavings of the non-leaf tasks and ALL subsets of them re-executed after the run. "
            "Non-trivial = the graph has at least two non-leaf tasks sharing an input; distinct = hash of the case")
    assumptions = [
        "purity of the Python callables is observed on the executed graphs, not proved: the theorems are about any graph whose tasks are functions of their inputs",
        "a write through an alias that is not reachable from the task's inputs (e.g. a module-level cache) is visible only through the value comparisons between the legs",
        "cloudpickle round trips are performed in-process (same interpreter, same imported modules)",
    ]

    def volume(self, tier, search):
        n = 300 if tier == "quick" else 1800
        return n * 2 if search else n

    def gen_cases(self, rng, tier, search):
        cases = []
        for i in range(self.volume(tier, search)):
            cases.append((make_case(rng, i, tier), False))
        nexh = 2 if tier == "quick" else len(EXHAUSTIVE_CONFIGS)
        cfgs = EXHAUSTIVE_CONFIGS if tier != "quick" else rng.sample(EXHAUSTIVE_CONFIGS, nexh)
        for func, method, engine in cfgs:
            c = make_case(rng, 0, tier, func=func, method=method, engine=engine, small=True)
            c.optimize = False
            c.dask_labels = False
            c.reindex = None
            c.expected, c.fill, c.min_count = None, None, None
            cases.append((c, True))
        return cases

    def run(self, rng, tier, rep: Report, search=False):
        self.run_cases(self.gen_cases(rng, tier, search), rep, threads=5, exh_cap=4000 if tier == "thorough" else 250)

    def run_cases(self, cases, rep: Report, threads=5, exh_cap=4000):
        outs = []
        for c, exh in cases:
            variants = [c]
            if exh:
                # all interleavings must be enumerable: 3 blocks raw, else 3 blocks optimised (fused), else 2 blocks
                import copy

                v2, v3 = copy.deepcopy(c), copy.deepcopy(c)
                v2.optimize = True
                v3.chunks = [x if j < len(c.chunks) - 1 else [3, 3] for j, x in enumerate(c.chunks)]
                v4 = copy.deepcopy(v3)
                v4.optimize = True
                variants = [c, v2, v3, v4]
            for v in variants:
                out = Outcome()
                try:
                    run_case(v, out, threads=threads, exhaustive=exh, exh_cap=exh_cap)
                except Exception as e:  # noqa
                    import traceback

                    out.status, out.note = "harness-error", type(e).__name__
                    rep.notes.append(f"harness error on {v.func}/{v.method}: {traceback.format_exc()[-400:]}")
                    rep.tie1.append((asdict(v), f"the harness failed: {e!r}"))
                if not exh or out.dist.get("exhaustive:graphs") or out.direct or out.status != "ok":
                    break
            outs.append((v, out))
        lines = [l for _, o in outs for l in o.lines]
        answers = core.Driver().run(lines)
        pos = 0
        for c, out in outs:
            rep.evaluations += 1
            ans = answers[pos:pos + len(out.lines)]
            pos += len(out.lines)
            rep.dist["status:" + out.status + (":" + out.note if out.note else "")] += 1
            rep.dist["func:" + c.func] += 1
            rep.dist["plan:" + str(c.method) + ("/reindex=" + str(c.reindex) if c.reindex is not None else "")] += 1
            rep.dist["engine:" + str(c.engine)] += 1
            rep.dist["layout:" + f"{len(c.shape)}d-array/{len(c.label_shape)}d-labels" + ("/dask-labels" if c.dask_labels else "")] += 1
            rep.dist["graph:" + ("optimised" if c.optimize else "raw")] += 1
            rep.dist["nblocks:" + str(min(int(np.prod([len(x) for x in c.chunks])), 9))] += 1
            for k, v in out.dist.items():
                rep.dist[k] += v
            if out.status == "ok" and out.ntasks:
                rep.dist["tasks:total"] += out.ntasks
                if out.ntasks >= 4:
                    rep.keys.add(c.key())
            t1, t2 = verify_driver(out, ans)
            for d in t1:
                rep.tie1.append((asdict(c), d))
            for d in t2:
                rep.tie2.append((asdict(c), d))
            for d in out.direct:
                rep.direct.append((asdict(c), d))
            if out.sample is not None and len(rep.samples) < 6 and out.ntasks >= 6:
                out.sample["driver_answer"] = (ans[0][:200] if ans else None)
                rep.add_sample(out.sample)

        writes = {k[len("task-self-state-write:"):]: v for k, v in rep.dist.items() if k.startswith("task-self-state-write:")}
        if writes:
            rep.notes.append("observation (not a violation of C13 as stated): some tasks write into the state embedded in their own task "
                             "object on first execution, idempotently and without effect on any value (checked: second execution, copies "
                             f"shipped before and after): {writes}; source: flox.core._reduce_blockwise sets `agg.finalize = None` on the "
                             "per-call Aggregation copy shared by all blockwise tasks (its dask token changes after the first execution)")

    def replay(self, payload, rep: Report):
        d = dict(payload["case"])
        d["vals"] = [_unjson(x) for x in d["vals"]]
        d["fill"] = _unjson(d.get("fill"))
        self.run_cases([(PCase(**d), False)], rep)

    def match_finding(self, finding, case, detail) -> bool:
        from . import findings

        pred = findings.PREDICATES.get(finding["id"])
        return bool(pred and pred(case, detail))


def _unjson(x):
    if isinstance(x, str):
        if x in ("nan", "NaN"):
            return NAN
        if x in ("inf", "Infinity"):
            return float("inf")
        if x in ("-inf", "-Infinity"):
            return float("-inf")
    return x
