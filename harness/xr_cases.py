"""Case generation, object construction, execution and canonicalisation for the xarray family (C15).

A case is a JSON-able dict (replays exactly):

  kind     "da" | "ds"
  sizes    {dim: n}
  vars     [{name, dims, dtype, vals(flat, None = NaN)}]          (one entry for a DataArray)
  icoords  [dim, ...]            dims that carry a dimension coordinate (index);  values icoord_vals[dim]
  ndcoord  None | dim            a non-dimension coordinate "nd" along that dim
  scalar   bool                  a scalar coordinate "sc"
  attrs    bool                  attrs on the data variables, the groupers and the coordinates
  by       [{name, src: "coord"|"dimcoord"|"ext", dims, vals(flat; None = NaN), bins: None|[edges], expected: None|[labels]}]
  dim      None | "..." | [dims]
  func, skipna, min_count, keep_attrs, ddof
  chunks   None | {dim: [chunk sizes]}       (data only)
  dask_by  bool                               groupers chunked too (needs expected groups)
  method, engine
"""
from __future__ import annotations

import math
import random
import warnings

import numpy as np

DIMNAMES = ["x", "y", "z", "w"]
FUNCS = ["sum", "mean", "max", "min", "count", "var", "std", "first", "last", "any", "all", "median", "prod"]


# ------------------------------------------------------------------------------------------------
# generation


def _vals(rng, n, dtype, nanp):
    if dtype == "bool":
        return [bool(rng.getrandbits(1)) for _ in range(n)]
    if dtype == "int64":
        return [rng.randint(-4, 9) for _ in range(n)]
    out = []
    for _ in range(n):
        if rng.random() < nanp:
            out.append(None)
        else:
            out.append(float(rng.randint(-4, 9)))
    return out


def _composition(rng, n):
    out, cur = [], 1
    for _ in range(n - 1):
        if rng.random() < 0.5:
            out.append(cur)
            cur = 1
        else:
            cur += 1
    out.append(cur)
    return out


def gen_case(rng: random.Random, *, kind=None, ndim=None, grouper=None, dimmode=None, func=None, chunked=None):
    kind = kind or rng.choice(["da", "da", "ds"])
    ndim = ndim or rng.choice([1, 2, 2, 3, 3, 4])
    dims = rng.sample(DIMNAMES, ndim)
    sizes = {d: rng.choice([2, 2, 3, 3, 4, 1] if ndim <= 3 else [2, 2, 3]) for d in dims}
    func = func or rng.choice(FUNCS)
    if func in ("any", "all"):
        dtypes = ["bool"]
    elif func in ("median",):
        dtypes = ["float64", "float64", "int64"]
    else:
        dtypes = ["float64", "float64", "int64"]
    nanp = rng.choice([0.0, 0.15, 0.4])

    grouper = grouper or rng.choice(["coord1d", "coord1d", "dimcoord", "coord2d", "ext1d", "ext2d", "two", "two", "bins1d", "bins1d", "bins2d", "nodimcoord",
                                     "coord3d", "coord3d", "ext3d"])
    if grouper in ("coord3d", "ext3d") and ndim < 3:
        grouper = "coord2d"         # (3-D groupers go beyond the property's quantifier; they exercise the same transposition code)
    if grouper in ("coord2d", "ext2d", "bins2d") and ndim < 2:
        grouper = "coord1d"

    def labels(n, floaty=False):
        k = rng.choice([1, 2, 2, 3])
        base = rng.choice([0, 0, 1, 10])
        out = [base + rng.randrange(k) for _ in range(n)]
        if floaty and rng.random() < 0.5:
            out = [None if rng.random() < 0.25 else float(v) for v in out]
            if all(v is None for v in out):
                out[0] = float(base)
        return out

    by = []
    if grouper in ("coord1d", "ext1d", "bins1d"):
        d = rng.choice(dims)
        src = "ext" if grouper == "ext1d" or (grouper == "bins1d" and rng.random() < 0.4) else "coord"
        by.append(dict(name="lab", src=src, dims=[d], vals=labels(sizes[d], floaty=True), bins=None, expected=None))
    elif grouper in ("dimcoord", "nodimcoord"):
        d = rng.choice(dims)
        vals = labels(sizes[d]) if grouper == "dimcoord" else list(range(sizes[d]))
        by.append(dict(name=d, src=grouper, dims=[d], vals=vals, bins=None, expected=None))
    elif grouper in ("coord3d", "ext3d"):
        dd = rng.sample(dims, 3)
        n = sizes[dd[0]] * sizes[dd[1]] * sizes[dd[2]]
        by.append(dict(name="lab", src="ext" if grouper == "ext3d" else "coord", dims=dd, vals=labels(n, floaty=True), bins=None,
                       expected=None))
    elif grouper in ("coord2d", "ext2d", "bins2d"):
        dd = rng.sample(dims, 2)
        n = sizes[dd[0]] * sizes[dd[1]]
        src = "ext" if grouper == "ext2d" or (grouper == "bins2d" and rng.random() < 0.4) else "coord"
        by.append(dict(name="lab", src=src, dims=dd, vals=labels(n, floaty=True), bins=None, expected=None))
    else:  # two groupers
        for nm in ("lab", "lab2"):
            d = rng.choice(dims)
            src = rng.choice(["coord", "coord", "ext"])
            by.append(dict(name=nm, src=src, dims=[d], vals=labels(sizes[d]), bins=None, expected=None))
        if rng.random() < 0.25 and ndim >= 2:
            dd = rng.sample(dims, 2)
            by[1] = dict(name="lab2", src="coord", dims=dd, vals=labels(sizes[dd[0]] * sizes[dd[1]]), bins=None, expected=None)
    if grouper.startswith("bins"):
        b = by[0]
        present = sorted({v for v in b["vals"] if v is not None})
        lo, hi = present[0], present[-1]
        edges = sorted({lo - 1, lo + 0.5, hi + 0.5} | ({hi + 2} if rng.random() < 0.3 else set()))
        if rng.random() < 0.3:
            edges = [lo - 0.5, lo + 0.5] if lo + 0.5 < hi else edges     # some labels fall outside every bin
        b["bins"] = [float(e) for e in edges]
    else:
        for b in by:
            if rng.random() < (0.5 if len(by) == 2 else 0.2):
                present = sorted({v for v in b["vals"] if v is not None})
                extra = [present[-1] + 1] if rng.random() < 0.5 else []
                b["expected"] = present + extra
                if len(b["expected"]) >= 2 and rng.random() < 0.35:
                    # the same labels handed over as a pandas.Index in another order: xarray_reduce sorts them (sort=True), the
                    # coordinate of the result and its values must follow the same order
                    perm = list(b["expected"])
                    while perm == b["expected"]:
                        rng.shuffle(perm)
                    b["expected_perm"] = perm

    # variables
    variables = []
    if kind == "da":
        dt = rng.choice(dtypes)
        variables.append(dict(name=rng.choice(["v", "v", None]), dims=list(dims), dtype=dt,
                              vals=_vals(rng, math.prod(sizes[d] for d in dims), dt, nanp)))
    else:
        nvar = rng.choice([2, 3])
        gd = []
        for b in by:
            for d in b["dims"]:
                if d not in gd:
                    gd.append(d)
        for i in range(nvar):
            mode = rng.choice(["all", "all", "super-g", "any", "nogroup"]) if i else "all"
            if mode == "all":
                vd = rng.sample(dims, len(dims))
            elif mode == "super-g":
                rest = [d for d in dims if d not in gd]
                vd = gd + rng.sample(rest, rng.randint(0, len(rest)))
                rng.shuffle(vd)
            elif mode == "any":
                vd = rng.sample(dims, rng.randint(0, len(dims)))
            else:
                rest = [d for d in dims if d not in gd]
                vd = rng.sample(rest, rng.randint(0, len(rest)))
            dt = rng.choice(dtypes)
            variables.append(dict(name=f"v{i}", dims=vd, dtype=dt, vals=_vals(rng, math.prod([sizes[d] for d in vd]), dt, nanp)))

    icoords = [d for d in dims if rng.random() < 0.6]
    for b in by:
        if b["src"] == "dimcoord" and b["name"] not in icoords:
            icoords.append(b["name"])
        if b["src"] == "nodimcoord" and b["name"] in icoords:
            icoords.remove(b["name"])
    icoord_vals = {d: [10 * (i + 1) for i in range(sizes[d])] for d in icoords}
    for b in by:
        if b["src"] == "dimcoord":
            icoord_vals[b["name"]] = b["vals"]
    ndcoord = rng.choice(dims) if rng.random() < 0.5 else None

    dimmode = dimmode or rng.choice(["none", "none", "ellipsis", "subset", "subset", "groupdims"])
    if func in ("first", "last"):
        dimmode = "none"       # native first/last take no dim
    if dimmode == "none":
        dim = None
    elif dimmode == "ellipsis":
        dim = "..."
    elif dimmode == "groupdims":
        gd = []
        for b in by:
            for d in b["dims"]:
                if d not in gd:
                    gd.append(d)
        rng.shuffle(gd)
        dim = gd
    else:
        dim = rng.sample(dims, rng.randint(1, len(dims)))

    skipna = rng.choice([None, None, True, False])
    min_count = rng.choice([None, None, None, 1, 2]) if func in ("sum", "prod") else None
    chunked = (rng.random() < 0.35) if chunked is None else chunked
    chunks = None
    if chunked and func != "median":
        chunks = {d: _composition(rng, sizes[d]) for d in dims}
    dask_by = bool(chunks) and all(b["expected"] is not None or b["bins"] is not None for b in by) and rng.random() < 0.5 \
        and all(b["src"] in ("coord", "ext") for b in by)
    case = dict(kind=kind, sizes=sizes, dimorder=dims, vars=variables, icoords=icoords, icoord_vals=icoord_vals, ndcoord=ndcoord,
                scalar=rng.random() < 0.5, attrs=rng.random() < 0.7, by=by, dim=dim, func=func, skipna=skipna,
                min_count=min_count, keep_attrs=rng.choice([True, True, False]), ddof=rng.choice([0, 0, 1]) if func in ("var", "std") else None,
                chunks=chunks, dask_by=dask_by,
                method=rng.choice([None, None, "map-reduce", "cohorts"]) if chunks else None,
                engine=rng.choice([None, None, "numpy", "flox"]), grouper=grouper, dimmode=dimmode)
    return case


# ------------------------------------------------------------------------------------------------
# construction


def _arr(vals, shape, dtype):
    if dtype == "bool":
        return np.array(vals, dtype=bool).reshape(shape)
    if dtype == "int64":
        return np.array(vals, dtype="int64").reshape(shape)
    return np.array([np.nan if v is None else v for v in vals], dtype="float64").reshape(shape)


def _label_arr(vals, shape):
    if any(v is None or isinstance(v, float) for v in vals):
        return np.array([np.nan if v is None else v for v in vals], dtype="float64").reshape(shape)
    return np.array(vals, dtype="int64").reshape(shape)


def build(case):
    """-> (obj, by_args for flox, by DataArrays (named), obj_for_native)"""
    import xarray as xr

    sizes = case["sizes"]
    coords = {}
    for d in case["icoords"]:
        coords[d] = xr.Variable((d,), np.array(case["icoord_vals"][d]), attrs={"ic": d} if case["attrs"] else {})
    if case["ndcoord"]:
        d = case["ndcoord"]
        coords["nd"] = xr.Variable((d,), np.arange(sizes[d]) * 2 + 1, attrs={"ndattr": 1} if case["attrs"] else {})
    if case["scalar"]:
        coords["sc"] = xr.Variable((), 7)
    by_args, by_das = [], []
    ext = {}
    for b in case["by"]:
        shape = tuple(sizes[d] for d in b["dims"])
        if b["src"] in ("dimcoord", "nodimcoord"):
            by_args.append(b["name"])
            continue
        data = _label_arr(b["vals"], shape)
        if case["dask_by"]:
            import dask.array as dsa

            data = dsa.from_array(data, chunks=tuple(tuple(case["chunks"][d]) for d in b["dims"]))
        v = xr.Variable(tuple(b["dims"]), data, attrs={"gattr": b["name"]} if case["attrs"] else {})
        if b["src"] == "coord":
            coords[b["name"]] = v
            by_args.append(b["name"])
        else:
            ext[b["name"]] = v
            by_args.append(None)

    def mk(v):
        shape = tuple(sizes[d] for d in v["dims"])
        data = _arr(v["vals"], shape, v["dtype"])
        if case["chunks"] is not None and len(shape) > 0:
            import dask.array as dsa

            data = dsa.from_array(data, chunks=tuple(tuple(case["chunks"][d]) for d in v["dims"]))
        return xr.Variable(tuple(v["dims"]), data, attrs={"units": "K", "vn": str(v["name"])} if case["attrs"] else {})

    def vcoords(vdims):
        return {k: c for k, c in coords.items() if set(c.dims) <= set(vdims)}

    if case["kind"] == "da":
        v = case["vars"][0]
        obj = xr.DataArray(mk(v), coords=vcoords(v["dims"]), name=v["name"])
    else:
        alld = set()
        for v in case["vars"]:
            alld |= set(v["dims"])
        obj = xr.Dataset({v["name"]: mk(v) for v in case["vars"]}, coords=vcoords(alld), attrs={"title": "t"} if case["attrs"] else {})
    # external groupers: DataArrays carrying the object's coordinates along their dims
    for i, b in enumerate(case["by"]):
        if b["src"] == "ext":
            var = ext[b["name"]]
            cc = {k: c for k, c in coords.items() if k in case["icoords"] and k in var.dims and k in obj.coords}
            by_args[i] = xr.DataArray(var, coords=cc, name=b["name"])
    return obj, by_args


def _np_func_kwargs(case):
    kw = {}
    if case["ddof"] is not None:
        kw["ddof"] = case["ddof"]
    return kw


def dim_arg(case):
    d = case["dim"]
    if d is None:
        return None
    if d == "...":
        return ...
    return d[0] if len(d) == 1 else tuple(d)


def run_flox(case, obj=None, by_args=None):
    from flox.xarray import xarray_reduce

    if obj is None:
        obj, by_args = build(case)
    kw = dict(func=case["func"], dim=dim_arg(case), keep_attrs=case["keep_attrs"], skipna=case["skipna"])
    if case["min_count"] is not None:
        kw["min_count"] = case["min_count"]
    if case["method"] is not None:
        kw["method"] = case["method"]
    if case["engine"] is not None:
        kw["engine"] = case["engine"]
    kw.update(_np_func_kwargs(case))
    exp = [b["bins"] if b["bins"] is not None else b["expected"] for b in case["by"]]
    if any(e is not None for e in exp):
        exp = [None if e is None else np.array(e) for e in exp]
        for j, b in enumerate(case["by"]):
            if b.get("expected_perm") is not None and b["bins"] is None:
                import pandas as pd

                exp[j] = pd.Index(b["expected_perm"])
        kw["expected_groups"] = exp[0] if len(exp) == 1 else tuple(exp)
        kw["isbin"] = [b["bins"] is not None for b in case["by"]] if len(exp) > 1 else case["by"][0]["bins"] is not None
    with warnings.catch_warnings():
        warnings.simplefilter("ignore")
        res = xarray_reduce(obj, *by_args, **kw)
        return res.compute()


def run_native(case, obj=None, by_args=None):
    """xarray's own groupby (flox disabled)"""
    import xarray as xr
    from xarray.groupers import BinGrouper, UniqueGrouper

    if obj is None:
        obj, by_args = build(case)
    func = case["func"]
    kw = {}
    if func not in ("first", "last"):
        kw["dim"] = dim_arg(case)
    elif case["dim"] is not None:
        raise NotImplementedError("native first/last take no dim")
    if func not in ("count", "any", "all"):
        if case["skipna"] is not None or func in ("first", "last"):
            kw["skipna"] = case["skipna"]
    elif case["skipna"]:
        raise ValueError("skipna truthy for count/any/all")
    if case["min_count"] is not None:
        kw["min_count"] = case["min_count"]
    kw["keep_attrs"] = case["keep_attrs"]
    kw.update(_np_func_kwargs(case))
    with warnings.catch_warnings(), xr.set_options(use_flox=False):
        warnings.simplefilter("ignore")
        by = case["by"]
        if len(by) == 1:
            b = by[0]
            g = by_args[0]
            if b["bins"] is not None:
                gb = obj.groupby_bins(g, b["bins"])
            elif b["expected"] is not None:
                if isinstance(g, str):
                    gb = obj.groupby({g: UniqueGrouper(labels=np.array(b["expected"]))})
                else:
                    gb = obj.assign_coords({b["name"]: g}).groupby({b["name"]: UniqueGrouper(labels=np.array(b["expected"]))})
            else:
                gb = obj.groupby(g)
        else:
            o2 = obj
            groupers = {}
            for b, g in zip(by, by_args):
                if not isinstance(g, str):
                    o2 = o2.assign_coords({b["name"]: g})
                groupers[b["name"]] = (BinGrouper(bins=b["bins"]) if b["bins"] is not None else
                                       UniqueGrouper(labels=np.array(b["expected"])) if b["expected"] is not None else UniqueGrouper())
            gb = o2.groupby(groupers)
        res = getattr(gb, func)(**kw)
        return res.compute()


# ------------------------------------------------------------------------------------------------
# canonical form


def _canon_scalar(x):
    import pandas as pd

    if isinstance(x, pd.Interval):
        return f"({x.left},{x.right}]" if x.closed == "right" else f"<{x.closed}:{x.left},{x.right}>"
    if isinstance(x, (bool, np.bool_)):
        return bool(x)
    if isinstance(x, (int, np.integer)):
        return int(x)
    if isinstance(x, (float, np.floating)):
        f = float(x)
        if math.isnan(f):
            return "nan"
        if math.isinf(f):
            return "inf" if f > 0 else "-inf"
        return f
    return str(x)


def canon_var(v):
    arr = np.asarray(v.values)
    return dict(dims=list(v.dims), shape=list(arr.shape), kind=arr.dtype.kind, dtype=str(arr.dtype),
                vals=[_canon_scalar(x) for x in arr.reshape(-1).tolist()] if arr.dtype.kind != "O" else [_canon_scalar(x) for x in arr.reshape(-1)],
                attrs={str(k): str(a) for k, a in v.attrs.items()})


def canon(res):
    """xarray object -> {type, name, attrs, data: {name: var}, coords: {name: var}, indexes: [names]}"""
    import xarray as xr

    if isinstance(res, xr.DataArray):
        data = {"<this>": canon_var(res.variable)}
        out = dict(type="da", name=None if res.name is None else str(res.name), attrs=data["<this>"]["attrs"])
    else:
        data = {str(k): canon_var(v.variable) for k, v in res.data_vars.items()}
        out = dict(type="ds", name=None, attrs={str(k): str(a) for k, a in res.attrs.items()}, varorder=[str(k) for k in res.data_vars])
    out["data"] = data
    out["coords"] = {str(k): canon_var(c.variable) for k, c in res.coords.items()}
    out["indexes"] = sorted(str(k) for k in res.indexes)
    return out


def _close(a, b, tol):
    if isinstance(a, float) and isinstance(b, float):
        return abs(a - b) <= tol + tol * max(abs(a), abs(b))
    if isinstance(a, (int, float)) and isinstance(b, (int, float)) and not isinstance(a, bool) and not isinstance(b, bool):
        return abs(float(a) - float(b)) <= tol + tol * max(abs(a), abs(b))
    return a == b


def diff_var(a, b, tol=0.0, check_dtype=True):
    """list of difference descriptions between two canonical variables"""
    out = []
    if a["dims"] != b["dims"]:
        if sorted(a["dims"]) == sorted(b["dims"]):
            out.append(f"dims order {a['dims']} != {b['dims']}")
            # compare values after transposing b to a's order
            perm = [b["dims"].index(d) for d in a["dims"]]
            bv = np.array(b["vals"], dtype=object).reshape(b["shape"]).transpose(perm).reshape(-1).tolist()
            b = dict(b, vals=bv, shape=[b["shape"][i] for i in perm])
        else:
            return [f"dims {a['dims']} != {b['dims']}"]
    if a["shape"] != b["shape"]:
        return out + [f"shape {a['shape']} != {b['shape']}"]
    if check_dtype and a["dtype"] != b["dtype"]:
        out.append(f"dtype {a['dtype']} != {b['dtype']}")
    bad = [i for i, (x, y) in enumerate(zip(a["vals"], b["vals"])) if not (_close(x, y, tol) if tol else (x == y and type(x) is type(y) or _close(x, y, 0.0)))]
    if bad:
        i = bad[0]
        out.append(f"values differ at flat index {i}: {a['vals'][i]!r} != {b['vals'][i]!r} ({len(bad)} of {len(a['vals'])})")
    if a["attrs"] != b["attrs"]:
        out.append(f"attrs {a['attrs']} != {b['attrs']}")
    return out


def diff(ca, cb, tol=0.0):
    """differences between two canonical results (a = flox, b = reference)"""
    out = []
    if ca["type"] != cb["type"]:
        return [f"type {ca['type']} != {cb['type']}"]
    if ca["name"] != cb["name"]:
        out.append(f"name {ca['name']!r} != {cb['name']!r}")
    if ca["type"] == "ds" and ca["attrs"] != cb["attrs"]:
        out.append(f"dataset attrs {ca['attrs']} != {cb['attrs']}")
    for sect in ("data", "coords"):
        ka, kb = set(ca[sect]), set(cb[sect])
        if ka != kb:
            out.append(f"{sect} names: only flox {sorted(ka - kb)}, only reference {sorted(kb - ka)}")
        for k in sorted(ka & kb):
            for d in diff_var(ca[sect][k], cb[sect][k], tol=tol if sect == "data" else 0.0):
                out.append(f"{sect}[{k}]: {d}")
    if ca["indexes"] != cb["indexes"]:
        out.append(f"indexes {ca['indexes']} != {cb['indexes']}")
    return out
