"""C15 – `flox.xarray.xarray_reduce` agrees with xarray's own groupby (flox disabled): values, dimension order,
coordinates, names, attributes; its values equal `groupby_reduce` on the underlying arrays; variables lacking
every reduced dimension pass through unchanged.

  tie1   : real `xarray_reduce` (result dims of every variable, order of the data variables, coordinate names, refusals,
           the reduction name that reaches `groupby_reduce`)  ==  Lean model (`xdims`, `xskipna` driver ops)
  tie2   : native xarray (dims of every variable, coordinate names)  ==  Lean specification (`xdims-spec`)
  direct : the property: canonical(flox result) == canonical(native result); values == `groupby_reduce` on the transposed
           underlying arrays; pass-through variables unchanged
"""
from __future__ import annotations

import copy
import itertools
import math
import random
import warnings

import numpy as np

from . import core, findings
from . import xr_cases as X
from .framework import Prop, Report

TOL_FUNCS = ("var", "std", "mean", "median", "prod", "sum")
NONIDEMPOTENT = ("sum", "prod", "count", "var", "std")

# documented refusals of xarray_reduce / groupby_reduce (clear message, raised before any computation)
REFUSALS = [
    ("NotImplementedError", "Multiple by are not allowed when dim is Ellipsis"),
    ("ValueError", "Filling is required"),
    ("ValueError", "For dask arrays: first, last"),
    ("NotImplementedError", "is only implemented for dask arrays when reducing along a single axis"),
    ("ValueError", "skipna cannot be truthy"),
    ("ValueError", "Cannot reduce over absent dimensions"),
    ("ValueError", "Please provide expected_groups"),
    ("ValueError", "can only be used when grouping by numpy arrays"),
    ("NotImplementedError", "Must reduce along all dimensions of `by` when method"),
    ("NotImplementedError", "is only implemented for dask arrays when method="),
    ("ValueError", "is only supported for `method='blockwise'`"),
]

RULE = (
    "canonical(xarray_reduce(obj,*by,func,dim,skipna,min_count,keep_attrs,…)) == canonical(obj.groupby(by).<func>(…)) "
    "under xr.set_options(use_flox=False): per variable dims IN ORDER, shape, values (exact; rel. tol 1e-9 for "
    "sum/mean/var/std/median/prod), dtype, attrs; object name; coordinate names, dims, values, attrs; index names. "
    "Conventions canonicalised (documented differences, not failures): (a) a binned group dim is named <name>_bins on both "
    "sides; flox stores the intervals as an object array, xarray as an IntervalIndex – compared as strings; (b) with "
    "keep_attrs=False only the attrs of data variables/the object are compared (flox also drops coordinate attrs); "
    "(c) cells of groups without any member (label in expected_groups but absent, empty bin) are filled by "
    "groupby_reduce's fill rule (property C05) while xarray fills NaN: such cells, and the dtype of variables containing "
    "them, are not compared with native (they ARE compared with groupby_reduce); (d) expected_groups natively = "
    "groupby over the present labels followed by reindex; (e) grouping by a dimension whose labels are unique: xarray "
    "short-circuits (original label order, keeps coordinates along that dim, does not expand pass-through variables) – "
    "there only the reduced variables are compared, after sorting by label; (f) Dataset variable order is not part of "
    "xarray equality (flox re-attaches pass-through variables last; the Lean model predicts that order: tie1); "
    "(g) variables lacking every reduced dim: flox passes them through unchanged (expanded by the group dims), native "
    "applies the reduction over no axis – compared with native only for idempotent reductions, and always with "
    "'unchanged'; (h) calls refused by flox with a documented message are counted, not compared; (i) when native "
    "xarray itself refuses (e.g. a 2-D grouper with a partial dim) groupby_reduce on the underlying arrays is the reference. "
    "Second rule: result[var] == groupby_reduce(transposed underlying array, *broadcast labels, func=<resolved>, axis=last "
    "len(dim) axes) exactly (same chunks, method, engine)."
)


# ------------------------------------------------------------------------------------------------
# classification of a case (independent re-statement of the cells used by the finding predicates)


def classify(case):
    gd = []
    for b in case["by"]:
        for d in b["dims"]:
            if d not in gd:
                gd.append(d)
    objdims = list(case["dimorder"]) if case["kind"] == "da" else None
    dim = case["dim"]
    b0 = case["by"][0]
    if dim is None:
        t = list(gd)
    elif dim == "...":
        alld = objdims if objdims is not None else sorted({d for v in case["vars"] for d in v["dims"]})
        t = list(alld)
    else:
        t = list(dim)
    anybin = any(b["bins"] is not None for b in case["by"])
    short = all(d not in gd for d in t) and not anybin
    needs_b = any(not set(gd) <= set(v["dims"]) for v in case["vars"])
    per = {}
    for v in case["vars"]:
        name = v["name"] if case["kind"] == "ds" else "<this>"
        lacks_all_t = not any(d in v["dims"] for d in t)
        lacks_some = any(d not in v["dims"] for d in set(gd) | set(t))
        per[name] = dict(passthrough=lacks_all_t and case["kind"] == "ds", lacks_some=lacks_some)
    uniq_dim = False
    if len(case["by"]) == 1 and b0["src"] in ("dimcoord", "nodimcoord") and b0["bins"] is None:
        vals = [v for v in b0["vals"]]
        uniq_dim = len(set(vals)) == len(vals)
    return dict(gd=gd, t=t, shortcut=short, needs_broadcast=needs_b, per=per, unique_dim=uniq_dim, anybin=anybin,
                nan_labels=any(v is None for b in case["by"] for v in b["vals"]))


# ------------------------------------------------------------------------------------------------
# driver lines


def _nm(n):
    return "_" if n is None else str(n)


def meta_line(op, case, obj, by_args):
    import xarray as xr

    isds = isinstance(obj, xr.Dataset)
    if isds:
        vs = [(str(k), list(v.dims)) for k, v in obj.data_vars.items()]
    else:
        vs = [(_nm(obj.name), list(obj.dims))]
    coords = {str(k): list(c.dims) for k, c in obj.coords.items()}
    bys, unindexed = [], []
    for b, g in zip(case["by"], by_args):
        isbin = b["bins"] is not None
        if isinstance(g, str):
            da = obj[g]
            if not isbin and g in obj.dims and g not in obj.indexes:
                unindexed.append(g)
        else:
            da = g
            for k, c in g.coords.items():
                coords.setdefault(str(k), list(c.dims))
        bys.append(f"{da.name}:{'.'.join(da.dims)}:{int(isbin)}")
    dim = case["dim"]
    ds = "none" if dim is None else "ellipsis" if dim == "..." else "e:" + ".".join(dim)
    return (f"{op} ds={int(isds)} objdims={','.join(map(str, obj.dims))} vars={';'.join(n + ':' + '.'.join(d) for n, d in vs)} "
            f"coords={';'.join(n + ':' + '.'.join(d) for n, d in coords.items())} unindexed={','.join(unindexed)} "
            f"by={';'.join(bys)} dim={ds}")


def parse_model(line):
    """-> dict(err=…) | dict(short, t, vars=[(name, dims)], coords=set)"""
    if line.startswith("err "):
        return dict(err=line[4:])
    if not line.startswith("ok"):
        return dict(bad=line)
    out = {}
    for tok in line.split(" ")[1:]:
        k, _, v = tok.partition("=")
        out[k] = v
    res = dict(short=out.get("short"), t=[d for d in out.get("t", "").split(".") if d])
    res["vars"] = [(s.split(":")[0], [d for d in s.split(":")[1].split(".") if d]) for s in out["vars"].split(";") if s]
    res["coords"] = {c for c in out.get("coords", "").split(",") if c}
    return res


def result_meta(res):
    import xarray as xr

    if isinstance(res, xr.Dataset):
        vs = [(str(k), list(v.dims)) for k, v in res.data_vars.items()]
    else:
        vs = [(_nm(res.name), list(res.dims))]
    return vs, {str(k) for k in res.coords}


# ------------------------------------------------------------------------------------------------
# execution of one case


class Recorder:
    """records the reduction name (and dtype kind) that reaches groupby_reduce inside the wrapper"""

    def __init__(self):
        self.calls = []

    def __enter__(self):
        import flox.xarray as fx

        self.fx = fx
        self.orig = fx.groupby_reduce

        def rec(array, *by, func, **kw):
            self.calls.append((func if isinstance(func, str) else "<agg>", np.dtype(array.dtype).kind))
            return self.orig(array, *by, func=func, **kw)

        fx.groupby_reduce = rec
        return self

    def __exit__(self, *a):
        self.fx.groupby_reduce = self.orig


def _exc(e):
    return f"{type(e).__name__}: {str(e).splitlines()[0][:160] if str(e) else ''}"


def is_refusal(exc_text):
    typ, _, msg = exc_text.partition(": ")
    return any(typ == t and m in msg for t, m in REFUSALS)


def native_case(case):
    if not case["dask_by"]:
        return case
    c = copy.deepcopy(case)
    c["dask_by"] = False
    return c


def run_native_full(case):
    """native result with the expected_groups emulation (groupby over present labels, then reindex)"""
    c = native_case(case)
    exp = {b["name"]: b["expected"] for b in c["by"] if b["expected"] is not None}
    if exp:
        c = copy.deepcopy(c)
        for b in c["by"]:
            b["expected"] = None
    obj, by_args = X.build(c)
    res = X.run_native(c, obj, by_args)
    for name, e in exp.items():
        if name in res.dims:
            res = res.reindex({name: np.array(e)})
    for b in c["by"]:
        # external groupers are attached as coordinates only to be able to call native groupby with several groupers
        if b["src"] == "ext" and b["name"] in res.coords and b["name"] not in res.dims:
            res = res.drop_vars(b["name"])
    return res


def native_count_ones(case):
    """number of members of every cell, natively (to locate groups without members)"""
    c = copy.deepcopy(native_case(case))
    c["func"] = "count"
    c["skipna"] = None
    c["min_count"] = None
    c["ddof"] = None
    c["keep_attrs"] = False
    for v in c["vars"]:
        v["dtype"] = "int64"
        v["vals"] = [1] * len(v["vals"])
    return run_native_full(c)


def groupby_reduce_reference(case, obj, by_args, var, t, func_resolved):
    """values of one DataArray variable via flox.groupby_reduce on the transposed underlying arrays
    -> (dims, ndarray)"""
    import flox
    import xarray as xr

    da = obj if var is None else obj[var]
    gd = []
    bys = [obj[g] if isinstance(g, str) else g for g in by_args]
    for b in bys:
        for d in b.dims:
            if d not in gd:
                gd.append(d)
    tail = [d for d in gd if d not in t] + list(t)
    rest = [d for d in da.dims if d not in tail]
    arr = da.transpose(*rest, *tail).data
    labels = []
    for b in bys:
        bb = b.variable.to_base_variable()
        bb = bb.set_dims({d: da.sizes[d] for d in tail}).transpose(*tail)
        labels.append(bb.data)
    exp = [b["bins"] if b["bins"] is not None else b["expected"] for b in case["by"]]
    kw = {}
    if any(e is not None for e in exp):
        kw["expected_groups"] = tuple(None if e is None else np.array(e) for e in exp)
        kw["isbin"] = tuple(b["bins"] is not None for b in case["by"])
    if case["ddof"] is not None:
        kw["finalize_kwargs"] = {"ddof": case["ddof"]}
    if case["min_count"] is not None:
        kw["min_count"] = case["min_count"]
    res, *groups = flox.groupby_reduce(arr, *labels, func=func_resolved, axis=tuple(range(-len(t), 0)), method=case["method"],
                                       engine=case["engine"], **kw)
    if hasattr(res, "compute"):
        res = res.compute()
    dims = rest + [d for d in gd if d not in t] + [(b["name"] + "_bins") if b["bins"] is not None else b["name"] for b in case["by"]]
    return dims, np.asarray(res)


def _mask_absent(cf, cn, ccount, notes):
    """remove from both canonical results the cells whose native member count is 0/NaN; returns set of vars masked"""
    masked = set()
    for k, vc in ccount["data"].items():
        if k not in cf["data"] or k not in cn["data"]:
            continue
        a, b = cf["data"][k], cn["data"][k]
        if sorted(vc["dims"]) != sorted(b["dims"]):
            continue
        if vc["dims"] != b["dims"]:
            perm = [vc["dims"].index(d) for d in b["dims"]]
            vc = dict(vc, dims=b["dims"], shape=[vc["shape"][i] for i in perm],
                      vals=np.array(vc["vals"], dtype=object).reshape(vc["shape"]).transpose(perm).reshape(-1).tolist())
        if vc["shape"] != b["shape"]:
            continue
        empty = [i for i, x in enumerate(vc["vals"]) if x == "nan" or x == 0]
        if not empty:
            continue
        masked.add(k)
        # positions in flox's layout
        if a["dims"] != b["dims"] and sorted(a["dims"]) == sorted(b["dims"]) and len(a["vals"]) == len(b["vals"]):
            perm = [b["dims"].index(d) for d in a["dims"]]
            idx = np.arange(len(b["vals"])).reshape(b["shape"]).transpose(perm).reshape(-1).tolist()
            pos = {j: i for i, j in enumerate(idx)}
            for i in empty:
                a["vals"][pos[i]] = "<absent>"
        elif a["dims"] == b["dims"] and a["shape"] == b["shape"]:
            for i in empty:
                a["vals"][i] = "<absent>"
        for i in empty:
            b["vals"][i] = "<absent>"
    return masked


def evaluate(case, drv_lines=None):
    """run one case everywhere; returns dict(lines=[driver lines], post=callable(outputs) -> (tie1, tie2, direct, info))"""
    import xarray as xr

    cls = classify(case)
    obj, by_args = X.build(case)
    info = dict(grouper=case["grouper"], kind=case["kind"])
    # real flox, with the recorder
    fres = ferr = None
    with Recorder() as rec:
        try:
            fres = X.run_flox(case, obj, by_args)
        except Exception as e:  # noqa
            ferr = _exc(e)
    calls = list(rec.calls)
    # native
    nres = nerr = None
    try:
        nres = run_native_full(case)
    except Exception as e:  # noqa
        nerr = _exc(e)
    lines = [meta_line("xdims", case, obj, by_args), meta_line("xdims-spec", case, obj, by_args)]
    sk = "n" if case["skipna"] is None else str(int(case["skipna"]))
    kinds = sorted({k for _, k in calls})
    for k in kinds:
        lines.append(f"xskipna func={case['func']} kind={k} skipna={sk}")

    def post(outs):
        tie1, tie2, direct = [], [], []
        model = parse_model(outs[0])
        spec = parse_model(outs[1])
        # ---- tie 1: implementation vs model -------------------------------------------------------
        if "bad" in model:
            info["outside_model"] = True
        elif ferr is not None:
            want = None
            if "Multiple by are not allowed when dim is Ellipsis" in ferr:
                want = "multi-ellipsis"
            elif "Cannot reduce over absent dimensions" in ferr:
                want = "absent-dims"
            elif "Missing core dims" in ferr:
                want = "missing-core-dims"
            if want is not None:
                if not model.get("err", "").startswith(want):
                    tie1.append(f"flox raised {ferr!r} but the model says {outs[0]!r}")
            elif "err" in model:
                # flox failed earlier, on another variable / inside groupby_reduce: the model only says "raises"
                info["error_before_modelled_refusal"] = True
        else:
            if "err" in model:
                tie1.append(f"model predicts refusal {model['err']!r} but flox returned a result")
            else:
                vs, cs = result_meta(fres)
                if vs != model["vars"]:
                    tie1.append(f"variable dims/order: flox {vs} != model {model['vars']}")
                if cs != model["coords"]:
                    tie1.append(f"coordinate names: flox {sorted(cs)} != model {sorted(model['coords'])}")
                info["shortcut"] = model["short"] == "1"
                if (model["short"] == "1") != cls["shortcut"]:
                    tie1.append(f"shortcut flag: model {model['short']} vs harness classification {cls['shortcut']}")
            for k, out in zip(kinds, outs[2:]):
                got = sorted({f for f, kk in calls if kk == k})
                if out.startswith("ok "):
                    if got != [out[3:]]:
                        tie1.append(f"reduction reaching groupby_reduce for kind {k}: flox {got} != model {out[3:]}")
                else:
                    tie1.append(f"model refuses skipna ({out}) but groupby_reduce was reached with {got}")
        # ---- tie 2: native vs spec -----------------------------------------------------------------
        if nres is not None and "bad" not in spec and not cls["unique_dim"]:
            vs, cs = result_meta(nres)
            if dict(vs) != dict(spec["vars"]):
                tie2.append(f"native dims {vs} != spec {spec['vars']}")
            if cs != spec["coords"] and case["by"][0]["src"] != "dimcoord":
                tie2.append(f"native coordinate names {sorted(cs)} != spec {sorted(spec['coords'])}")
        # ---- direct: the property -------------------------------------------------------------------
        if cls["anybin"] and all(d not in cls["gd"] for d in cls["t"]):
            # convention (j): flox deliberately does not take the plain-reduction path when binning, native does
            info["outcome"] = "excluded:bins-and-no-grouper-dim-reduced" + (":flox-raised" if ferr else "")
            return tie1, tie2, direct, info
        tol = 1e-9 if case["func"] in TOL_FUNCS else 0.0
        if ferr is not None:
            if is_refusal(ferr):
                info["outcome"] = "refused:" + ferr.split(":")[0] + ":" + ferr.split(": ", 1)[1][:40]
            elif nres is not None:
                info["outcome"] = "flox-raised"
                direct.append("flox-raised " + ferr)
            else:
                info["outcome"] = "both-raised"
            return tie1, tie2, direct, info
        cf = X.canon(fres)
        if nres is not None:
            info["outcome"] = "compared-native"
            nn = nres
            if cls["unique_dim"]:
                gname = case["by"][0]["name"]
                if gname in nn.dims and gname in nn.coords:
                    nn = nn.sortby(gname)
                if gname in fres.dims and gname in fres.coords:
                    cf = X.canon(fres.sortby(gname))
            cn = X.canon(nn)
            masked = set()
            if cls["anybin"] or any(b["expected"] is not None for b in case["by"]) or cls["nan_labels"] or len(case["by"]) > 1:
                try:
                    cc = X.canon(native_count_ones(case))
                    masked = _mask_absent(cf, cn, cc, info)
                except Exception as e:  # noqa
                    info["count_failed"] = _exc(e)
            if masked:
                info["absent_cells"] = True
            if not case["keep_attrs"]:
                for c_ in (cf, cn):
                    for v in c_["coords"].values():
                        v["attrs"] = {}
            for sect in ("coords",):
                for k in set(cf[sect]) & set(cn[sect]):
                    if cf[sect][k]["kind"] == "O" or cn[sect][k]["kind"] == "O":
                        cf[sect][k]["dtype"] = cn[sect][k]["dtype"] = "interval"
            diffs = X.diff(cf, cn, tol=tol)
            out = []
            for d in diffs:
                var = d[5:].split("]")[0] if d.startswith("data[") else None
                if var is not None:
                    p = cls["per"].get(var, {})
                    if "dtype" in d and var in masked:
                        continue
                    if p.get("passthrough") and not cls["shortcut"]:
                        # convention (g): compared with native only for idempotent reductions
                        if case["func"] in NONIDEMPOTENT + ("any", "all", "count") or "dtype" in d:
                            continue
                        if "values differ" in d and cls["nan_labels"]:
                            continue
                    if cls["unique_dim"] and (p.get("passthrough") or "dims" in d):
                        continue
                    if "attrs" in d and ((p.get("passthrough") and not cls["shortcut"]) or cls["unique_dim"]):
                        continue   # (g): pass-through variables keep their attrs; (e)
                    if "dims order" in d and ((cls["shortcut"] and (len(case["by"]) > 1 or len(case["by"][0]["dims"]) > 1))
                                              or (p.get("passthrough") and len(case["by"]) > 1)):
                        continue   # conventions (k), (l)
                if (cls["unique_dim"] or case["by"][0]["src"] == "dimcoord") and (d.startswith("coords") or d.startswith("indexes")):
                    continue
                if cls["unique_dim"] and d.startswith("dataset attrs"):
                    continue
                if d.startswith("coords[") and cls["shortcut"] and (len(case["by"]) > 1 or len(case["by"][0]["dims"]) > 1) and \
                        ("dims" in d or "shape" in d):
                    continue   # (k): native broadcasts coordinates along the unstacked dims
                out.append(d)
            direct.extend(out)
        else:
            info["outcome"] = "native-raised:" + nerr.split(":")[0]
        # second rule: groupby_reduce on the underlying arrays
        if not info.get("shortcut") and "err" not in model and "bad" not in model:
            t = model["t"]
            funcs = {k: f for f, k in calls}
            names = [None] if case["kind"] == "da" else [v["name"] for v in case["vars"]]
            for nm in names:
                v = obj if nm is None else obj[nm]
                if not (set(cls["gd"]) | set(t)) <= set(v.dims):
                    continue
                f = funcs.get(np.dtype(v.dtype).kind)
                if f is None:
                    continue
                try:
                    rdims, rvals = groupby_reduce_reference(case, obj, by_args, nm, t, f)
                except Exception as e:  # noqa
                    direct.append(f"groupby_reduce[{nm}]: reference raised {_exc(e)}")
                    continue
                got = fres if nm is None else fres[nm]
                if sorted(got.dims) != sorted(rdims):
                    direct.append(f"groupby_reduce[{nm}]: dims {list(got.dims)} vs {rdims}")
                    continue
                gv = np.asarray(got.transpose(*rdims).values)
                if tol and gv.shape == rvals.shape and gv.dtype == rvals.dtype and gv.dtype.kind == "f":
                    ok = np.allclose(gv, rvals, rtol=1e-12, atol=0, equal_nan=True)      # summation order differs after the transpose
                else:
                    ok = gv.shape == rvals.shape and gv.dtype == rvals.dtype and np.array_equal(gv, rvals, equal_nan=gv.dtype.kind in "fc")
                if not ok:
                    direct.append(f"groupby_reduce[{nm}]: values/dtype differ: {gv.dtype}{gv.reshape(-1)[:6].tolist()} vs {rvals.dtype}{rvals.reshape(-1)[:6].tolist()}")
                info["gr_checked"] = info.get("gr_checked", 0) + 1
        # third rule: pass-through variables are unchanged
        if case["kind"] == "ds" and not info.get("shortcut"):
            for nm, p in cls["per"].items():
                if not p["passthrough"] or nm not in fres:
                    continue
                src, got = obj[nm], fres[nm]
                extra = [d for d in got.dims if d not in src.dims]
                same = sorted(got.dims) == sorted(list(src.dims) + extra) and got.dtype == src.dtype
                if same:
                    want = np.broadcast_to(np.asarray(src.values), tuple(got.sizes[d] for d in extra) + src.shape)
                    same = np.array_equal(np.asarray(got.transpose(*extra, *src.dims).values), want, equal_nan=src.dtype.kind == "f")
                if not same:
                    direct.append(f"passthrough[{nm}]: variable without any reduced dim was changed: {np.asarray(got.values).reshape(-1)[:6].tolist()} from {np.asarray(src.values).reshape(-1)[:6].tolist()}")
                info["passthrough_checked"] = info.get("passthrough_checked", 0) + 1
        return tie1, tie2, direct, info

    return lines, post


# ------------------------------------------------------------------------------------------------
# streams


def enumerate_small():
    """every DataArray of 1-3 dims in every dim order x every single grouper x binned or not x every dim choice"""
    rng = random.Random(12345)
    for ndim in (1, 2, 3):
        names = ["x", "y", "z"][:ndim]
        for order in itertools.permutations(names):
            sizes = {"x": 2, "y": 3, "z": 2}
            groupers = [("coord1d", [d]) for d in names] + [("dimcoord", [d]) for d in names] + \
                       [("coord2d", list(p)) for p in itertools.permutations(names, 2)]
            dimsel = [None, "..."] + [list(c) for k in range(1, ndim + 1) for c in itertools.combinations(names, k)]
            for (g, gd), bins, dim in itertools.product(groupers, (False, True), dimsel):
                if bins and g == "dimcoord":
                    continue
                n = math.prod(sizes[d] for d in gd)
                labs = [[0, 1, 0], [1, 0], [0, 1, 1, 0, 1, 0], [0, 0, 1, 1]][{3: 0, 2: 1, 6: 2, 4: 3}[n]]
                b = dict(name="lab" if g != "dimcoord" else gd[0], src="coord" if g != "dimcoord" else "dimcoord", dims=gd,
                         vals=list(labs), bins=[-0.5, 0.5, 1.5] if bins else None, expected=None)
                tot = math.prod(sizes[d] for d in order)
                vals = [float(rng.randint(-4, 9)) if rng.random() > 0.15 else None for _ in range(tot)]
                icoords = [d for d in order if d != "y"] + ([gd[0]] if g == "dimcoord" and gd[0] == "y" else [])
                icv = {d: [10 * (i + 1) for i in range(sizes[d])] for d in icoords}
                if g == "dimcoord":
                    icv[gd[0]] = list(labs)
                yield dict(kind="da", sizes={d: sizes[d] for d in order}, dimorder=list(order),
                           vars=[dict(name="v", dims=list(order), dtype="float64", vals=vals)], icoords=icoords, icoord_vals=icv,
                           ndcoord=order[-1], scalar=True, attrs=True, by=[b], dim=dim, func="sum", skipna=None, min_count=None,
                           keep_attrs=True, ddof=None, chunks=None, dask_by=False, method=None, engine=None,
                           grouper=("bins" + g[-2:]) if bins else g, dimmode="enum")


WITNESSES = {}


class C15(Prop):
    id = "C15"
    lean_module = "FloxProps.C15"
    level = "proof"
    rule = RULE
    assumptions = [
        "xarray's apply_ufunc / broadcast / Dataset.reduce / concat are third-party: their dimension bookkeeping is written "
        "into the Lean model as contracts and validated by execution on every run (tie1), not proved",
        "native xarray groupby (use_flox=False) is the oracle for values, coordinates, names and attrs; the Lean spec covers "
        "names and dimension order only (tie2 validates it against native xarray on every generated case)",
        "values: equality with groupby_reduce on the underlying arrays is observed (exact), the reduction itself is C01/C08's model",
    ]

    def _run_cases(self, cases, rep: Report):
        pend = []
        lines = []
        for case in cases:
            try:
                with warnings.catch_warnings():
                    warnings.simplefilter("ignore")
                    ls, post = evaluate(case)
            except Exception as e:  # noqa
                rep.dist["harness-error:" + type(e).__name__] += 1
                rep.notes.append(f"harness error on a case: {_exc(e)}")
                raise
            pend.append((case, len(lines), len(ls), post))
            lines.extend(ls)
        outs = core.Driver().run(lines)
        for case, off, n, post in pend:
            with warnings.catch_warnings():
                warnings.simplefilter("ignore")
                tie1, tie2, direct, info = post(outs[off:off + n])
            rep.evaluations += 1
            rep.keys.add(core.case_hash({k: v for k, v in case.items()}))
            rep.dist["kind:" + case["kind"]] += 1
            rep.dist["grouper:" + case["grouper"]] += 1
            rep.dist["ndim:" + str(len(case["dimorder"]))] += 1
            rep.dist["dim:" + ("none" if case["dim"] is None else "ellipsis" if case["dim"] == "..." else "subset")] += 1
            rep.dist["func:" + case["func"]] += 1
            rep.dist["skipna:" + str(case["skipna"])] += 1
            rep.dist["chunked:" + str(case["chunks"] is not None)] += 1
            rep.dist["outcome:" + info.get("outcome", "?")] += 1
            if info.get("shortcut"):
                rep.dist["path:shortcut"] += 1
            if info.get("absent_cells"):
                rep.dist["with-absent-cells"] += 1
            rep.dist["groupby_reduce-checked-vars"] += info.get("gr_checked", 0)
            rep.dist["passthrough-checked-vars"] += info.get("passthrough_checked", 0)
            if info.get("error_before_modelled_refusal"):
                rep.dist["raised-before-the-modelled-refusal"] += 1
            if info.get("outside_model"):
                rep.dist["outside-lean-model-domain"] += 1
            cc = dict(case)
            cc["_cls"] = classify(case)
            for d in tie1:
                rep.tie1.append((cc, d))
            for d in tie2:
                rep.tie2.append((cc, d))
            for d in direct:
                rep.direct.append((cc, d))
            if len(rep.samples) < 6 and info.get("outcome") == "compared-native" and rep.evaluations % 7 == 0:
                rep.add_sample({"case": {k: case[k] for k in ("kind", "dimorder", "dim", "func", "skipna", "grouper", "chunks")},
                                "by": [(b["name"], b["dims"], b["bins"] is not None) for b in case["by"]],
                                "vars": [(v["name"], v["dims"]) for v in case["vars"]], "outcome": info.get("outcome")})

    def run(self, rng: random.Random, tier: str, rep: Report, search: bool = False):
        n = {"quick": 700, "thorough": 4000}[tier]
        if search:
            n *= 2
        cases = [X.gen_case(rng) for _ in range(n)]
        # stratified streams: every grouper kind x dim mode x container
        for g in ["coord1d", "dimcoord", "nodimcoord", "coord2d", "ext1d", "ext2d", "two", "bins1d", "bins2d"]:
            for dm in ["none", "ellipsis", "subset", "groupdims"]:
                for kind in ["da", "ds"]:
                    for _ in range(2 if tier == "quick" else 8):
                        cases.append(X.gen_case(rng, kind=kind, grouper=g, dimmode=dm))
        if tier == "thorough" or search:
            cases.extend(enumerate_small())
        B = 400
        for i in range(0, len(cases), B):
            self._run_cases(cases[i:i + B], rep)
        rep.extra["streams"] = {"random": n, "stratified": len(cases) - n - (sum(1 for _ in enumerate_small()) if (tier == "thorough" or search) else 0),
                                "exhaustive-small": sum(1 for _ in enumerate_small()) if (tier == "thorough" or search) else 0}

    def replay(self, payload: dict, rep: Report):
        case = payload["case"]
        case = {k: v for k, v in case.items() if k != "_cls"}
        self._run_cases([case], rep)

    def match_finding(self, finding: dict, case, detail: str) -> bool:
        pred = findings.PREDICATES.get(finding["id"])
        return bool(pred and pred(case, detail))

    def check_finding_still_fails(self, finding: dict):
        w = finding.get("witness", {}).get("case")
        if not w:
            return None
        rep = Report()
        self._run_cases([w], rep)
        return any(self.match_finding(finding, c, d) for c, d in rep.direct)
