"""Task-by-task execution of real dask graphs produced by flox.

* `execute(collection, rng, ...)` runs the materialised graph in a seeded random topological order,
  optionally with every ndarray input made read-only and hashed before/after (purity), each task executed
  twice (re-execution) and once more after a cloudpickle round trip (serialisability).
* `closure(collection)` returns, per output key, the set of input-array block keys it depends on.
"""
from __future__ import annotations

import hashlib
import random

import numpy as np


def materialize(collection):
    from dask._task_spec import convert_legacy_graph

    dsk = dict(collection.__dask_graph__())
    return convert_legacy_graph(dsk)


def flat_keys(keys):
    out = []
    for k in keys:
        if isinstance(k, list):
            out.extend(flat_keys(k))
        else:
            out.append(k)
    return out


def _arrays_in(obj, acc, depth=0):
    if depth > 6:
        return
    if isinstance(obj, np.ndarray):
        acc.append(obj)
    elif isinstance(obj, dict):
        for v in obj.values():
            _arrays_in(v, acc, depth + 1)
    elif isinstance(obj, (list, tuple)):
        for v in obj:
            _arrays_in(v, acc, depth + 1)
    elif hasattr(obj, "__dict__") and type(obj).__module__.startswith("flox"):
        for v in vars(obj).values():
            _arrays_in(v, acc, depth + 1)


def digest(obj) -> str:
    arrs = []
    _arrays_in(obj, arrs)
    h = hashlib.sha1()
    for a in arrs:
        if a.dtype == object:
            h.update(repr(a.tolist()).encode())
        else:
            h.update(str(a.dtype).encode() + str(a.shape).encode() + np.ascontiguousarray(a).tobytes())
    return h.hexdigest()


def freeze(obj):
    arrs = []
    _arrays_in(obj, arrs)
    for a in arrs:
        try:
            a.setflags(write=False)
        except Exception:  # noqa
            pass


def same(a, b) -> bool:
    if isinstance(a, np.ndarray) or isinstance(b, np.ndarray):
        try:
            return np.array_equal(np.asarray(a), np.asarray(b), equal_nan=True) and np.asarray(a).dtype == np.asarray(b).dtype
        except TypeError:
            return np.array_equal(np.asarray(a), np.asarray(b))
    if isinstance(a, dict) and isinstance(b, dict):
        return a.keys() == b.keys() and all(same(a[k], b[k]) for k in a)
    if isinstance(a, (list, tuple)) and isinstance(b, (list, tuple)):
        return len(a) == len(b) and all(same(x, y) for x, y in zip(a, b))
    if (type(a).__module__ or "").startswith("pandas") or (type(b).__module__ or "").startswith("pandas"):
        # pandas objects carry per-instance caches / identity objects in __dict__: compare structurally
        return canon(a) == canon(b)
    if hasattr(a, "__dict__") and hasattr(b, "__dict__") and type(a) is type(b):
        return same(vars(a), vars(b))
    try:
        return bool(a == b) or (a != a and b != b)
    except Exception:  # noqa
        return False


class PurityError(Exception):
    pass


def execute(collection, rng: random.Random, *, check_purity=False, rerun=False, pickle_roundtrip=False, stats=None):
    """returns the computed values of collection.__dask_keys__() (nested like the keys)"""
    graph = materialize(collection)
    deps = {k: set(getattr(t, "dependencies", ())) for k, t in graph.items()}
    done: dict = {}
    remaining = set(graph)
    ready = [k for k in remaining if not deps[k]]
    order = []
    while remaining:
        if not ready:
            raise RuntimeError("cycle or missing dependency in graph")
        i = rng.randrange(len(ready))
        k = ready.pop(i)
        remaining.discard(k)
        task = graph[k]
        inputs = {d: done[d] for d in deps[k]}
        if check_purity:
            freeze(inputs)
            before = digest(inputs)
        try:
            val = task(inputs)
        except ValueError as e:
            if check_purity and "read-only" in str(e):
                raise PurityError(f"task {k!r} writes into one of its inputs: {e}")
            raise
        if check_purity:
            if digest(inputs) != before:
                raise PurityError(f"task {k!r} modified its inputs")
        if rerun:
            val2 = task(inputs)
            if not same(val, val2):
                raise PurityError(f"task {k!r} returned a different value when executed again")
        if pickle_roundtrip:
            import cloudpickle

            t2 = cloudpickle.loads(cloudpickle.dumps(task))
            val3 = t2(cloudpickle.loads(cloudpickle.dumps(inputs)))
            if not same(val, val3):
                raise PurityError(f"task {k!r} behaves differently after a cloudpickle round trip")
        done[k] = val
        order.append(k)
        if stats is not None:
            stats["tasks"] = stats.get("tasks", 0) + 1
        for k2 in list(remaining):
            if k2 not in ready and deps[k2] <= done.keys():
                ready.append(k2)

    def collect(keys):
        if isinstance(keys, list):
            return [collect(k) for k in keys]
        return done[keys]

    return collect(collection.__dask_keys__())


def assemble_1d(blocks):
    """concatenate the nested list of computed blocks of a 1-D result"""
    flat = flat_keys(blocks) if isinstance(blocks, list) else [blocks]
    return np.concatenate([np.atleast_1d(np.asarray(b)) for b in flat])


def closure(collection):
    """per output key: the set of leaf (DataNode / no-dependency) keys reachable"""
    graph = materialize(collection)
    deps = {k: set(getattr(t, "dependencies", ())) for k, t in graph.items()}
    memo = {}

    def leaves(k):
        if k in memo:
            return memo[k]
        if not deps[k]:
            memo[k] = {k}
        else:
            s = set()
            for d in deps[k]:
                s |= leaves(d)
            memo[k] = s
        return memo[k]

    return {k: leaves(k) for k in flat_keys(collection.__dask_keys__())}


# ------------------------------------------------------------------------------------------------
# C13: canonical structural digests, schedules with re-executions and lost results, instrumented execution
# ------------------------------------------------------------------------------------------------

import re as _re

_ADDR = _re.compile(r" at 0x[0-9a-f]+")
_TOKEN = _re.compile(r"-[0-9a-f]{32}$")


def canon(obj, depth=0):
    """a nested tuple that describes `obj` structurally and bitwise: container types, dict keys, scalars with their
    type, ndarray dtype/shape/bytes, pandas indexes, callables by qualified name (functools.partial and dask's
    Compose unwrapped), flox / dask task-spec objects through their attributes.  Two values with equal `canon`
    are indistinguishable for a consumer; memory addresses never enter."""
    import functools

    if depth > 12:
        return ("deep", type(obj).__name__)
    if obj is None or isinstance(obj, (bool, int, str, bytes)):
        return (type(obj).__name__, obj)
    if isinstance(obj, float):
        return ("float", np.float64(obj).tobytes())
    if isinstance(obj, complex):
        return ("complex", np.complex128(obj).tobytes())
    if isinstance(obj, np.ndarray):
        if obj.dtype == object:
            return ("ndarray", "object", obj.shape, tuple(canon(x, depth + 1) for x in obj.reshape(-1).tolist()))
        return ("ndarray", str(obj.dtype), obj.shape, np.ascontiguousarray(obj).tobytes())
    if isinstance(obj, np.generic):
        return ("npscalar", str(obj.dtype), obj.tobytes())
    if isinstance(obj, np.dtype):
        return ("dtype", str(obj))
    mod = type(obj).__module__ or ""
    if mod.startswith("pandas"):
        import pandas as pd

        if isinstance(obj, pd.RangeIndex):
            return ("RangeIndex", obj.start, obj.stop, obj.step, canon(obj.name, depth + 1))
        if isinstance(obj, pd.MultiIndex):
            return ("MultiIndex", tuple(canon(l, depth + 1) for l in obj.levels), tuple(canon(np.asarray(c), depth + 1) for c in obj.codes))
        if isinstance(obj, pd.IntervalIndex):
            return ("IntervalIndex", obj.closed, canon(np.asarray(obj.left), depth + 1), canon(np.asarray(obj.right), depth + 1))
        if isinstance(obj, pd.Index):
            return ("Index", type(obj).__name__, str(obj.dtype), canon(obj.to_numpy(), depth + 1), canon(obj.name, depth + 1))
        if isinstance(obj, pd.Interval):
            return ("Interval", obj.closed, canon(obj.left, depth + 1), canon(obj.right, depth + 1))
        return ("pandas", type(obj).__name__, _ADDR.sub("", repr(obj)))
    if isinstance(obj, dict):
        items = [(canon(k, depth + 1), canon(v, depth + 1)) for k, v in obj.items()]
        return ("dict", type(obj).__name__, tuple(sorted(items, key=lambda kv: repr(kv[0]))))
    if isinstance(obj, (list, tuple)):
        return (type(obj).__name__, tuple(canon(x, depth + 1) for x in obj))
    if isinstance(obj, (set, frozenset)):
        return (type(obj).__name__, tuple(sorted((canon(x, depth + 1) for x in obj), key=repr)))
    if isinstance(obj, functools.partial):
        return ("partial", canon(obj.func, depth + 1), canon(obj.args, depth + 1), canon(obj.keywords, depth + 1))
    if type(obj).__name__ == "Compose" and hasattr(obj, "first") and hasattr(obj, "funcs"):
        return ("Compose", canon(obj.first, depth + 1), canon(tuple(obj.funcs), depth + 1))
    if mod == "dask._task_spec":
        fields = []
        for cls in type(obj).__mro__:
            for s in getattr(cls, "__slots__", ()):
                if s in ("_token", "_repr", "_is_coro", "_dependencies", "_data_producer"):
                    continue
                if hasattr(obj, s):
                    fields.append((s, canon(getattr(obj, s), depth + 1)))
        return ("taskspec", type(obj).__name__, tuple(fields))
    if callable(obj) and hasattr(obj, "__qualname__"):
        clo = getattr(obj, "__closure__", None)
        cells = ()
        if clo:
            try:
                cells = tuple(canon(c.cell_contents, depth + 1) for c in clo)
            except ValueError:
                cells = ("empty-cell",)
        return ("callable", getattr(obj, "__module__", None), obj.__qualname__, cells)
    if isinstance(obj, type):
        return ("type", obj.__module__, obj.__qualname__)
    if mod.startswith("flox") or mod.startswith("dask") or hasattr(obj, "__dataclass_fields__"):
        try:
            d = vars(obj)
        except TypeError:
            d = {s: getattr(obj, s) for s in getattr(type(obj), "__slots__", ()) if hasattr(obj, s)}
        # functools.cached_property stores its (pure, idempotent) result in the instance __dict__ on first use: a lazily
        # filled cache is not a state change (flox.aggregations.Aggregation.simple_combine / num_new_vector_dims)
        cached = {n for cls in type(obj).__mro__ for n, v in vars(cls).items() if isinstance(v, functools.cached_property)}
        return ("obj", mod, type(obj).__qualname__, canon({k: v for k, v in dict(d).items() if k not in cached}, depth + 1))
    import enum

    if isinstance(obj, enum.Enum):
        return ("enum", type(obj).__qualname__, obj.name)
    return ("repr", type(obj).__name__, _ADDR.sub("", repr(obj)))


def digest2(obj) -> str:
    return hashlib.sha1(repr(canon(obj)).encode()).hexdigest()


def all_arrays(obj, acc=None, depth=0, seen=None):
    """every ndarray reachable from a value (containers, flox / dataclass objects, pandas index buffers)"""
    if acc is None:
        acc, seen = [], set()
    if depth > 8 or id(obj) in seen:
        return acc
    seen.add(id(obj))
    if isinstance(obj, np.ndarray):
        acc.append(obj)
        if obj.dtype == object:
            for x in obj.reshape(-1).tolist():
                all_arrays(x, acc, depth + 1, seen)
    elif isinstance(obj, dict):
        for v in obj.values():
            all_arrays(v, acc, depth + 1, seen)
    elif isinstance(obj, (list, tuple)):
        for v in obj:
            all_arrays(v, acc, depth + 1, seen)
    elif (type(obj).__module__ or "").startswith("flox") or hasattr(obj, "__dataclass_fields__"):
        try:
            for v in vars(obj).values():
                all_arrays(v, acc, depth + 1, seen)
        except TypeError:
            pass
    return acc


def freeze2(obj):
    n = 0
    for a in all_arrays(obj):
        if a.flags.writeable:
            try:
                a.setflags(write=False)
                n += 1
            except ValueError:
                pass
    return n


def thaw_copy(obj):
    """deep copy in which every array is writeable (for the writable-buffers leg)"""
    import copy

    out = copy.deepcopy(obj)
    for a in all_arrays(out):
        try:
            a.setflags(write=True)
        except ValueError:
            pass
    return out


def layer_kind(key) -> str:
    name = key[0] if isinstance(key, tuple) else key
    name = str(name)
    name = _TOKEN.sub("", name)
    name = _re.sub(r"-[0-9a-f]{8,}", "", name)
    name = _re.sub(r"groupby_[a-z]+", "groupby_F", name)
    name = _re.sub(r"-\d+", "", name)
    if name.count("groupby") >= 2 or len(name) > 48:
        return "fused:" + name.split("-")[0]
    return name


def describe_func(task) -> str:
    import functools

    f = getattr(task, "func", None)
    if f is None:
        return type(task).__name__
    names = []

    def walk(g, depth=0):
        if depth > 6:
            return
        if isinstance(g, functools.partial):
            walk(g.func, depth + 1)
        elif type(g).__name__ == "Compose" and hasattr(g, "funcs"):
            for h in (g.first,) + tuple(g.funcs):
                walk(h, depth + 1)
        else:
            names.append(getattr(g, "__qualname__", type(g).__name__))

    walk(f)
    return "∘".join(names)


class Multi:
    """several dask collections seen as one graph (result and lazily computed group labels)"""

    def __init__(self, *collections):
        self.collections = [c for c in collections if hasattr(c, "__dask_graph__")]

    def __dask_graph__(self):
        g = {}
        for c in self.collections:
            g.update(dict(c.__dask_graph__()))
        return g

    def __dask_keys__(self):
        return [c.__dask_keys__() for c in self.collections]


class Impurity(PurityError):
    def __init__(self, kind, key, func, detail):
        super().__init__(f"{kind}: task {key!r} [{func}] {detail}")
        self.kind, self.key, self.func, self.detail = kind, key, func, detail


class Instrumented:
    """a materialised graph + schedules over it.

    ops are ('e', key) = execute / ('l', key) = lose the stored result.  `run` executes a list of ops on the REAL task
    objects and checks, per execution:
      * (frozen mode) every array reachable from the inputs and from every stored result is read-only: a write raises;
      * the structural digest of every input is the same after the call as before (names the input that changed);
      * the task's own embedded state (callable, partial arguments, Aggregation objects …) is unchanged by the call;
      * an immediate second call returns an equal value; a call of the cloudpickle round-tripped task on
        cloudpickle round-tripped inputs returns an equal value;
      * every execution of a key during the schedule gives the value of its first execution.
    """

    def __init__(self, collection):
        self.graph = materialize(collection)
        self.keys = sorted(self.graph, key=repr)
        self.index = {k: i for i, k in enumerate(self.keys)}
        self.deps = {k: sorted(getattr(self.graph[k], "dependencies", ()), key=lambda d: self.index[d]) for k in self.keys}
        self.out_keys = collection.__dask_keys__()
        self.leaves = [k for k in self.keys if not self.deps[k]]
        import cloudpickle

        self.pickle_error = None
        try:
            self.pristine = cloudpickle.dumps(self.graph)
        except Exception as e:  # noqa
            self.pristine, self.pickle_error = None, e

    # -- schedules --------------------------------------------------------------------------------
    def topo(self, rng: random.Random):
        remaining = set(self.keys)
        done = set()
        order = []
        ready = [k for k in self.keys if not self.deps[k]]
        while remaining:
            k = ready.pop(rng.randrange(len(ready)))
            remaining.discard(k)
            done.add(k)
            order.append(k)
            for k2 in self.keys:
                if k2 in remaining and k2 not in ready and all(d in done for d in self.deps[k2]):
                    ready.append(k2)
        return order

    def schedule(self, rng: random.Random, p_rerun=0.3, p_lose=0.2):
        """random topological order with extra executions of present keys and lost results; everything lost is
        recomputed (with whatever it needs) so that all keys are present at the end"""
        ops, present = [], set()

        def ensure(k):
            for d in self.deps[k]:
                if d not in present:
                    ensure(d)
            ops.append(("e", k))
            present.add(k)

        for k in self.topo(rng):
            if k not in present:
                ensure(k)
            else:
                ops.append(("e", k))
            r = rng.random()
            if r < p_rerun and present:
                k2 = rng.choice(sorted(present, key=self.index.get))
                if all(d in present for d in self.deps[k2]):
                    ops.append(("e", k2))
            elif r < p_rerun + p_lose and present:
                k2 = rng.choice(sorted(present, key=self.index.get))
                ops.append(("l", k2))
                present.discard(k2)
        for k in self.keys:
            if k not in present:
                ensure(k)
        return ops

    def ops_token(self, ops) -> str:
        return " ".join(("e" if o == "e" else "l") + str(self.index[k]) for o, k in ops)

    def deps_token(self) -> str:
        return ";".join(".".join(str(self.index[d]) for d in self.deps[k]) or "-" for k in self.keys)

    def linear_extensions(self, fixed_prefix, cap):
        """all dependency-respecting orders of the keys not in fixed_prefix (executed first, in that order); None if
        there are more than cap"""
        rest = [k for k in self.keys if k not in set(fixed_prefix)]
        out = []

        def rec(done, order, remaining):
            if len(out) > cap:
                return
            if not remaining:
                out.append(list(order))
                return
            for k in remaining:
                if all(d in done for d in self.deps[k]):
                    done.add(k)
                    order.append(k)
                    rec(done, order, [x for x in remaining if x != k])
                    order.pop()
                    done.discard(k)

        rec(set(fixed_prefix), [], rest)
        return None if len(out) > cap else [list(fixed_prefix) + o for o in out]

    # -- execution ---------------------------------------------------------------------------------
    def run(self, ops, *, mode="frozen", rerun=True, pickle=True, stats=None, fresh=False):
        """returns (memo, digests) where digests[key] = digest of the key's value.

        fresh=True executes a cloudpickle copy of the whole graph taken before anything ran (tasks in their pristine
        state; objects shared between tasks stay shared inside the copy)"""
        import cloudpickle

        graph = cloudpickle.loads(self.pristine) if fresh else self.graph
        memo, first = {}, {}

        def count(name, n=1):
            if stats is not None:
                stats[name] = stats.get(name, 0) + n

        for pos, (o, k) in enumerate(ops):
            if o == "l":
                del memo[k]
                continue
            task = graph[k]
            fn = describe_func(task)
            inputs = {d: memo[d] for d in self.deps[k]}
            if mode == "frozen":
                freeze2(inputs)
            before = {d: digest2(v) for d, v in inputs.items()}
            state0 = digest2(task)
            pristine_task = None
            if pickle:
                try:
                    pristine_task = cloudpickle.dumps(task)       # shipped BEFORE its first execution here
                except Exception as e:  # noqa
                    raise Impurity("not-picklable", k, fn, f"cloudpickle failed: {e!r}")
            try:
                val = task(inputs)
            except (ValueError, TypeError) as e:
                msg = str(e)
                if not ("read-only" in msg or "readonly" in msg or "not writeable" in msg or "WRITEABLE" in msg):
                    raise
                # a write into a read-only input, or a compiled kernel that merely refuses const buffers?  decide by
                # running the task on writable deep copies of the inputs and hashing them before / after
                win = thaw_copy(inputs)
                wbefore = {d: digest2(v) for d, v in win.items()}
                val = task(win)
                wchanged = [d for d, v in win.items() if digest2(v) != wbefore[d]]
                if wchanged:
                    raise Impurity("writes-into-input", k, fn, f"raised {e!r} on read-only inputs and, on writable copies, "
                                   f"changed the value stored under {wchanged!r} (op #{pos})")
                count("readonly-refused-but-pure")
                inputs = win
            changed = [d for d, v in inputs.items() if digest2(v) != before[d]]
            if changed:
                raise Impurity("modified-input", k, fn, f"changed the value stored under {changed!r} (op #{pos})")
            state1 = digest2(task)
            if state1 != state0:
                # the task wrote into the state embedded in its own task object (e.g. the per-call Aggregation copy).  This is
                # tolerated only if it is idempotent and invisible: the state must not move again on a second execution, and
                # the copy shipped in its pristine state, this object, and a copy shipped now must all return the same value
                count("self-state-write:" + fn)
            dv = digest2(val)
            count("executions")
            if rerun or state1 != state0:
                try:
                    val2 = task(inputs)
                except Exception as e:  # noqa
                    raise Impurity("rerun-raises", k, fn, f"succeeded once but raised {e!r} when executed again on the same inputs")
                if digest2(val2) != dv:
                    raise Impurity("rerun-differs", k, fn, "returned a different value when executed again on the same inputs")
                if digest2(task) != state1:
                    raise Impurity("state-not-idempotent", k, fn, "the state embedded in the task object changes with every execution")
                count("reruns")
            if pickle:
                try:
                    t2 = cloudpickle.loads(cloudpickle.dumps(task))
                    t0 = cloudpickle.loads(pristine_task)
                    in2 = cloudpickle.loads(cloudpickle.dumps(inputs))
                    in0 = cloudpickle.loads(cloudpickle.dumps(inputs))
                except Exception as e:  # noqa
                    raise Impurity("not-picklable", k, fn, f"cloudpickle failed: {e!r}")
                for which, tt, ii in (("after its first execution", t2, in2), ("before its first execution", t0, in0)):
                    try:
                        val3 = tt(ii)
                    except Exception as e:  # noqa
                        raise Impurity("pickle-raises", k, fn, f"the task shipped {which} raised {e!r}")
                    if digest2(val3) != dv:
                        raise Impurity("pickle-differs", k, fn, f"the task shipped {which} (cloudpickle round trip of the task and its "
                                       f"inputs) returns a different value")
                count("pickled", 2)
            if k in first and first[k] != dv:
                raise Impurity("later-execution-differs", k, fn, f"op #{pos}: value differs from the first execution of this key")
            first.setdefault(k, dv)
            if mode == "frozen":
                freeze2(val)
            elif not self.deps[k]:
                val = thaw_copy(val)     # leaves are views of the user's (read-only) arrays: this leg wants writable buffers
            memo[k] = val
        return memo, first

    def collect(self, memo, keys=None):
        keys = self.out_keys if keys is None else keys
        if isinstance(keys, list):
            return [self.collect(memo, k) for k in keys]
        return memo[keys]


def assemble(blocks):
    """nested list of blocks (as __dask_keys__) -> ndarray"""
    from dask.array.core import concatenate3

    if not isinstance(blocks, list):
        return np.asarray(blocks)
    return concatenate3(blocks)
