"""Task-by-task execution of real dask graphs produced by flox.

* `execute(collection, rng, ...)` runs the materialised graph in a seeded random topological order,
  optionally with every ndarray input made read-only and hashed before/after (purity), each task executed
  twice (re-execution) and once more after a cloudpickle round trip (serialisability).
* `closure(collection)` returns, per output key, the set of input-array block keys it depends on.
"""
from __future__ import annotations

import hashlib
import random

import numpy as np


def materialize(collection):
    from dask._task_spec import convert_legacy_graph

    dsk = dict(collection.__dask_graph__())
    return convert_legacy_graph(dsk)


def flat_keys(keys):
    out = []
    for k in keys:
        if isinstance(k, list):
            out.extend(flat_keys(k))
        else:
            out.append(k)
    return out


def _arrays_in(obj, acc, depth=0):
    if depth > 6:
        return
    if isinstance(obj, np.ndarray):
        acc.append(obj)
    elif isinstance(obj, dict):
        for v in obj.values():
            _arrays_in(v, acc, depth + 1)
    elif isinstance(obj, (list, tuple)):
        for v in obj:
            _arrays_in(v, acc, depth + 1)
    elif hasattr(obj, "__dict__") and type(obj).__module__.startswith("flox"):
        for v in vars(obj).values():
            _arrays_in(v, acc, depth + 1)


def digest(obj) -> str:
    arrs = []
    _arrays_in(obj, arrs)
    h = hashlib.sha1()
    for a in arrs:
        if a.dtype == object:
            h.update(repr(a.tolist()).encode())
        else:
            h.update(str(a.dtype).encode() + str(a.shape).encode() + np.ascontiguousarray(a).tobytes())
    return h.hexdigest()


def freeze(obj):
    arrs = []
    _arrays_in(obj, arrs)
    for a in arrs:
        try:
            a.setflags(write=False)
        except Exception:  # noqa
            pass


def same(a, b) -> bool:
    if isinstance(a, np.ndarray) or isinstance(b, np.ndarray):
        try:
            return np.array_equal(np.asarray(a), np.asarray(b), equal_nan=True) and np.asarray(a).dtype == np.asarray(b).dtype
        except TypeError:
            return np.array_equal(np.asarray(a), np.asarray(b))
    if isinstance(a, dict) and isinstance(b, dict):
        return a.keys() == b.keys() and all(same(a[k], b[k]) for k in a)
    if isinstance(a, (list, tuple)) and isinstance(b, (list, tuple)):
        return len(a) == len(b) and all(same(x, y) for x, y in zip(a, b))
    if hasattr(a, "__dict__") and hasattr(b, "__dict__") and type(a) is type(b):
        return same(vars(a), vars(b))
    try:
        return bool(a == b) or (a != a and b != b)
    except Exception:  # noqa
        return False


class PurityError(Exception):
    pass


def execute(collection, rng: random.Random, *, check_purity=False, rerun=False, pickle_roundtrip=False, stats=None):
    """returns the computed values of collection.__dask_keys__() (nested like the keys)"""
    graph = materialize(collection)
    deps = {k: set(getattr(t, "dependencies", ())) for k, t in graph.items()}
    done: dict = {}
    remaining = set(graph)
    ready = [k for k in remaining if not deps[k]]
    order = []
    while remaining:
        if not ready:
            raise RuntimeError("cycle or missing dependency in graph")
        i = rng.randrange(len(ready))
        k = ready.pop(i)
        remaining.discard(k)
        task = graph[k]
        inputs = {d: done[d] for d in deps[k]}
        if check_purity:
            freeze(inputs)
            before = digest(inputs)
        try:
            val = task(inputs)
        except ValueError as e:
            if check_purity and "read-only" in str(e):
                raise PurityError(f"task {k!r} writes into one of its inputs: {e}")
            raise
        if check_purity:
            if digest(inputs) != before:
                raise PurityError(f"task {k!r} modified its inputs")
        if rerun:
            val2 = task(inputs)
            if not same(val, val2):
                raise PurityError(f"task {k!r} returned a different value when executed again")
        if pickle_roundtrip:
            import cloudpickle

            t2 = cloudpickle.loads(cloudpickle.dumps(task))
            val3 = t2(cloudpickle.loads(cloudpickle.dumps(inputs)))
            if not same(val, val3):
                raise PurityError(f"task {k!r} behaves differently after a cloudpickle round trip")
        done[k] = val
        order.append(k)
        if stats is not None:
            stats["tasks"] = stats.get("tasks", 0) + 1
        for k2 in list(remaining):
            if k2 not in ready and deps[k2] <= done.keys():
                ready.append(k2)

    def collect(keys):
        if isinstance(keys, list):
            return [collect(k) for k in keys]
        return done[keys]

    return collect(collection.__dask_keys__())


def assemble_1d(blocks):
    """concatenate the nested list of computed blocks of a 1-D result"""
    flat = flat_keys(blocks) if isinstance(blocks, list) else [blocks]
    return np.concatenate([np.atleast_1d(np.asarray(b)) for b in flat])


def closure(collection):
    """per output key: the set of leaf (DataNode / no-dependency) keys reachable"""
    graph = materialize(collection)
    deps = {k: set(getattr(t, "dependencies", ())) for k, t in graph.items()}
    memo = {}

    def leaves(k):
        if k in memo:
            return memo[k]
        if not deps[k]:
            memo[k] = {k}
        else:
            s = set()
            for d in deps[k]:
                s |= leaves(d)
            memo[k] = s
        return memo[k]

    return {k: leaves(k) for k in flat_keys(collection.__dask_keys__())}
