/-
  Parsing / printing helpers shared by all driver operations.
-/
import FloxModel

open Flox

namespace DriverOps

def kv (toks : List String) (key : String) : Option String :=
  toks.findSome? fun t =>
    match t.splitOn "=" with
    | k :: rest => if k = key then some ("=".intercalate rest) else none
    | _ => none

def parseList {α} (f : String → Option α) (s : String) : Option (List α) :=
  if s = "" then some [] else (s.splitOn ",").mapM f

def parseKey (s : String) : Option Key :=
  if s = "n" then some none else (Val.parseRat? s).map some

def parseOptVal (s : String) : Option (Option Val) :=
  if s = "-" then some none else (Val.parse? s).map some

def parseEng : String → Option Eng
  | "npg" => some .npg | "flox" => some .flox | "numbagg" => some .numbagg | _ => none

def showVals (vs : List Val) : String := ",".intercalate (vs.map Val.toStr)
def showKey : Key → String
  | none => "n"
  | some r => Val.ratToString r
def showKeys (ks : List Key) : String := ",".intercalate (ks.map showKey)


def sections (line : String) : List (List String) :=
  (line.splitOn "|").map fun s => (s.splitOn " ").filter (· ≠ "")

end DriverOps
