/-
  Driver operation of the `partial` family (property C08): `groupby_reduce` on an N-D value array with labels on the
  trailing dims, reducing a subset of the label dims.

    partial func= dk= fill= minc= ddof= eng= expected= float= shape= byndim= axis= chunks= method= | labels | vals

  `axis`: `-` (None), `i<k>` (an int) or a comma list; `chunks`: `-` = eager input; `method`: the method the real code
  resolved (`-` for eager).  Answer: `model <eager outcome> ; chunked <outcome> ; spec <outcome>`.
-/
import DriverOps.Common

open Flox Flox.PartialAxis

namespace DriverOps

private def parseAxis (s : String) : Option (Option (List Int)) :=
  if s = "-" then some none
  else if s.startsWith "i" then (s.drop 1).toInt?.map fun i => some [i]
  else (parseList String.toInt? s).map some

private def parseMethod : String → Option (Option Method)
  | "-" => some none
  | "map-reduce" => some (some .mapreduce)
  | "cohorts" => some (some .cohorts)
  | "blockwise" => some (some .blockwise)
  | _ => none

private def showNats (xs : List Nat) : String := ",".intercalate (xs.map toString)

private def showPOutcome : POutcome → String
  | .ok sh vs => "ok " ++ showNats sh ++ "|" ++ showVals vs
  | .err e => "err " ++ e
  | .unsupported w => "unsupported " ++ w

def mkPRequest (hd : List String) : Option (PRequest × Bool × Option Method) := do
  let func ← kv hd "func"
  let dk ← kv hd "dk"
  let fill ← parseOptVal (← kv hd "fill")
  let mincS ← kv hd "minc"
  let minc ← if mincS = "-" then some none else mincS.toNat?.map some
  let ddof ← (← kv hd "ddof").toNat?
  let eng ← parseEng (← kv hd "eng")
  let expected ← parseList Val.parseRat? (← kv hd "expected")
  let shape ← parseList String.toNat? (← kv hd "shape")
  let byNdim ← (← kv hd "byndim").toNat?
  let axis ← parseAxis (← kv hd "axis")
  let chunked := (← kv hd "chunks") ≠ "-"
  let method ← parseMethod (← kv hd "method")
  some ({ func := func, dkind := dk, fill := fill, minCount := minc, ddof := ddof, eng := eng, expected := expected,
          shape := shape, byNdim := byNdim, axis := axis }, chunked, method)

def handlePartial (secs : List (List String)) : String :=
  match secs with
  | ("partial" :: hd) :: labels :: vals :: _ =>
    match mkPRequest hd, parseList parseKey (String.join labels), parseList Val.parse? (String.join vals) with
    | some (rq, chunked, method), some ls, some vs =>
      if ls.length ≠ prod (rq.shape.drop (rq.shape.length - rq.byNdim)) ∨ vs.length ≠ prod rq.shape then "bad-op sizes" else
      let ch := match chunked, method with
        | true, some m => showPOutcome (runChunked Generated.initRows rq m ls vs)
        | true, none => "unsupported no-method"
        | false, _ => "unsupported eager"
      "model " ++ showPOutcome (run Generated.initRows rq ls vs) ++ " ; chunked " ++ ch ++ " ; spec " ++ showPOutcome (specRun rq ls vs)
    | none, _, _ => "bad-op call"
    | _, none, _ => "bad-op labels"
    | _, _, none => "bad-op vals"
  | _ => "bad-op"

end DriverOps
