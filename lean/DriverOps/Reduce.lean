/-
  Driver operations of the `reduce` family: `reduce` (API-level groupby_reduce through the pipeline model and the
  specification), `spec` (specification only), `kernel` (one generic_aggregate call).
-/
import DriverOps.Common

open Flox

namespace DriverOps

def parseCohorts (s : String) : Option (List (List Nat × List Rat)) :=
  if s = "" then some [] else
  (s.splitOn ";").mapM fun c =>
    match c.splitOn "~" with
    | [b, l] => do
      let bs ← (b.splitOn ".").mapM String.toNat?
      let ls ← (l.splitOn ".").mapM Val.parseRat?
      some (bs, ls)
    | _ => none

def parsePlan (s : String) : Option Plan :=
  match s.splitOn ":" with
  | ["eager"] => some .eager
  | ["mapreduce", "1"] => some (.mapreduce true)
  | ["mapreduce", "0"] => some (.mapreduce false)
  | ["blockwise", "1"] => some (.blockwise true)
  | ["blockwise", "0"] => some (.blockwise false)
  | ["cohorts", cs] => (parseCohorts cs).map .cohorts
  | _ => none

def resultLine (r : Except String (List Val)) : String :=
  match r with
  | .ok vs => "ok " ++ showVals vs
  | .error e => "err " ++ e

def parseOptNat (s : String) : Option (Option Nat) :=
  if s = "-" then some none else s.toNat?.map some

def parseOptRats (s : String) : Option (Option (List Rat)) :=
  if s = "-" then some none else if s = "[]" then some (some []) else (parseList Val.parseRat? s).map some

def mkRequest (hd : List String) : Option (Request × Plan × List Nat) := do
  let func ← kv hd "func"
  let dk ← kv hd "dk"
  let fill ← parseOptVal (← kv hd "fill")
  let minc ← parseOptNat (← kv hd "minc")
  let ddof ← (← kv hd "ddof").toNat?
  let eng ← parseEng (← kv hd "eng")
  let sort := (← kv hd "sort") = "1"
  let expected ← parseOptRats (← kv hd "expected")
  let known := (← kv hd "known") = "1"
  let se ← (← kv hd "se").toNat?
  let isFloat := (← kv hd "float") = "1"
  let plan ← parsePlan (← kv hd "plan")
  let chunks ← parseList String.toNat? (← kv hd "chunks")
  some ({ func := func, dkind := dk, fill := fill, minCount := minc, ddof := ddof, eng := eng, sort := sort,
          expected := expected, known := known, splitEvery := se, floatData := isFloat }, plan, chunks)

def showOutcome : Outcome → String
  | .ok gs vs => "ok " ++ showKeys gs ++ "|" ++ showVals vs
  | .err e => "err " ++ e
  | .unsupported w => "unsupported " ++ w

def handleReduce (secs : List (List String)) : String :=
  match secs with
  | ("reduce" :: hd) :: labels :: vals :: _ =>
    match mkRequest hd, parseList parseKey (String.join labels), parseList Val.parse? (String.join vals) with
    | some (rq, plan, chunks), some ls, some vs =>
      "model " ++ showOutcome (run Generated.initRows rq plan chunks ls vs) ++ " ; spec " ++ showOutcome (specRun rq ls vs)
    | none, _, _ => "bad-op call"
    | _, none, _ => "bad-op labels"
    | _, _, none => "bad-op vals"
  | ("spec" :: hd) :: codes :: vals :: _ =>
    -- spec k=<kernel> ddof= mc= fill= ng= | codes | vals
    match (do
        let k ← kernelWithDdof ((← kv hd "ddof").toNat?.getD 0) (← kv hd "k")
        let mc ← (← kv hd "mc").toNat?
        let fill ← parseOptVal (← kv hd "fill")
        let ng ← (← kv hd "ng").toNat?
        let cs ← parseList String.toInt? (String.join codes)
        let vs ← parseList Val.parse? (String.join vals)
        some (k, mc, fill, ng, cs, vs)) with
    | some (k, mc, fill, ng, cs, vs) =>
      match Spec.reduce k mc fill cs vs ng with
      | some r => "ok " ++ showVals r
      | none => "err ValueError"
    | none => "bad-op spec"
  | ("kernel" :: hd) :: codes :: vals :: _ =>
    -- kernel eng= k= ddof= size= fill= | codes | vals
    match (do
        let eng ← parseEng (← kv hd "eng")
        let k ← kernelWithDdof ((← kv hd "ddof").toNat?.getD 0) (← kv hd "k")
        let size ← (← kv hd "size").toNat?
        let fill ← Val.parse? (← kv hd "fill")
        let cs ← parseList String.toInt? (String.join codes)
        let vs ← parseList Val.parse? (String.join vals)
        some (eng, k, size, fill, cs, vs)) with
    | some (eng, k, size, fill, cs, vs) =>
      "ok " ++ showVals (engineCall eng k cs vs size fill) ++ " | " ++ showVals (grouped k cs vs size fill)
    | none => "bad-op kernel"
  | _ => "bad-op"


end DriverOps
