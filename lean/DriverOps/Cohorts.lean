/-
  Driver operations of the cohort planner (C09):

    cohorts merge=<0|1> nlabels=<-|N> chunks=<c.c.c;c.c> | <codes csv, row-major, -1 = missing>
        → `ok <method> <cohorts> br=<exit taken>`  |  `ierr <assert text>`          (model of find_group_cohorts, exact thresholds)
    cohortspec nlabels=<-|N> chunks=<…> cand=<cohorts> | <codes>
        → `sound=<0|1> confined=<0|1>`                              (the specification, decided on a candidate structure)

  <cohorts> = `-` (empty dict) or `b.b.b~l.l;b~l.l` in dict order (blocks ascending).
-/
import DriverOps.Common

open Flox Flox.Cohorts

namespace DriverOps

def cohParseDots (s : String) : Option (List Nat) :=
  if s = "" then some [] else (s.splitOn ".").mapM String.toNat?

def cohParseChunks (s : String) : Option (List (List Nat)) :=
  (s.splitOn ";").mapM cohParseDots

def cohParseCohortList (s : String) : Option (List Cohort) :=
  if s = "-" then some [] else
  (s.splitOn ";").mapM fun c =>
    match c.splitOn "~" with
    | [b, l] => do some ((← cohParseDots b), (← cohParseDots l))
    | _ => none

def cohShowDots (l : List Nat) : String := ".".intercalate (l.map toString)

def cohShowCohorts (cs : List Cohort) : String :=
  if cs.isEmpty then "-" else ";".intercalate (cs.map fun c => cohShowDots c.1 ++ "~" ++ cohShowDots c.2)

def cohShowMethod : Method → String
  | .blockwise => "blockwise" | .cohorts => "cohorts" | .mapreduce => "map-reduce"

def cohParseOptNat (s : String) : Option (Option Nat) :=
  if s = "-" then some none else s.toNat?.map some

/-- the call is inside the modelled domain: non-empty array, positive chunk sizes summing to the shape, codes in -1..nlabels-1 -/
def cohDomain (codes : List Int) (chunks : List (List Nat)) (expected : Option Nat) : Bool :=
  let n := (chunks.map fun c => c.sum).foldl (· * ·) 1
  !codes.isEmpty && !chunks.isEmpty && chunks.all (fun c => !c.isEmpty && c.all (· > 0)) && codes.length == n &&
  codes.all (fun c => decide (-1 ≤ c)) &&
  (match expected with
   | some k => codes.all fun c => decide (c < (k : Int))
   | none => true)

/-- which exit of `find_group_cohorts` the model takes (informational: branch counters in the evidence) -/
def cohBranchOf (T : Thresholds) (codes : List Int) (chunks : List (List Nat)) (expected : Option Nat) (merge : Bool) : String :=
  let nlabels := match expected with
    | some n => n
    | none => maxPlusOne codes
  let nchunks := nChunks chunks
  let tbl := tblOf (codes.zip (blockIds chunks)) nchunks nlabels
  if nchunks == 1 then "1-single-chunk"
  else if tbl.all (fun e => e.2.length == 1) then "2-confined"
  else if (exactCohorts tbl).length == 1 then "3-single-cohort"
  else if singleChunks chunks then "4-size1-chunks"
  else if oneGroupPerChunk tbl nchunks then "5-one-group-per-chunk"
  else if noOverlappingCohorts tbl then "6-no-overlap"
  else
    let isDense := T.dense (tbl.map (·.2.length)).sum (nchunks * tbl.length)
    if isDense && !merge then "7-dense-nomerge"
    else if isDense then "8-merge-loop-dense" else "8-merge-loop-sparse"

def cohB2s (b : Bool) : String := if b then "1" else "0"

def handleCohorts (secs : List (List String)) : String :=
  match secs with
  | ("cohorts" :: hd) :: codes :: _ =>
    match (do
        let merge ← kv hd "merge"
        let nl ← cohParseOptNat (← kv hd "nlabels")
        let chunks ← cohParseChunks (← kv hd "chunks")
        let cs ← parseList String.toInt? (String.join codes)
        if merge ≠ "0" ∧ merge ≠ "1" then none
        some (decide (merge = "1"), nl, chunks, cs)) with
    | some (merge, nl, chunks, cs) =>
      if !cohDomain cs chunks nl then "bad-op domain" else
      match findFromArray exactThresholds cs chunks nl merge with
      | .ok m cohorts => "ok " ++ cohShowMethod m ++ " " ++ cohShowCohorts cohorts ++ " br=" ++ cohBranchOf exactThresholds cs chunks nl merge
      | .internalError w => "ierr " ++ w
    | none => "bad-op cohorts"
  | ("cohortspec" :: hd) :: codes :: _ =>
    match (do
        let nl ← cohParseOptNat (← kv hd "nlabels")
        let chunks ← cohParseChunks (← kv hd "chunks")
        let cand ← cohParseCohortList (← kv hd "cand")
        let cs ← parseList String.toInt? (String.join codes)
        some (nl, chunks, cand, cs)) with
    | some (nl, chunks, cand, cs) =>
      if !cohDomain cs chunks nl then "bad-op domain" else
      let nlabels := match nl with
        | some n => n
        | none => maxPlusOne cs
      let elems := cs.zip (blockIds chunks)
      "sound=" ++ cohB2s (decide (CohortsSound elems nlabels cand)) ++ " confined=" ++ cohB2s (decide (Confined elems nlabels))
    | none => "bad-op cohortspec"
  | _ => "bad-op"

end DriverOps
