/-
  Driver operations of the grouped-quantile family (C18):

    quantile func=<median|nanmedian|quantile|nanquantile> eng=<flox|npg> q=<-|s:<rat>|v:<rat,...>|v:>
             batch=<1d|2d> method=<eager|none|blockwise|mapreduce|cohorts> uchunks=<nat,...> chunks=<nat,...>
             | labels | row | row ...
        -> "model <outcome> ; spec <outcome>"   outcome = "ok g=<keys> s=<shape> v=<vals>" | "err <kind>"

    qkernel eng=<flox|npg> skipna=<0|1> q=<rat> size=<nat> fill=<val> | codes | vals
        -> "ok <engine slots> | <spec slots>"
-/
import DriverOps.Common

open Flox Flox.Quantile

namespace DriverOps

def parseQArg (s : String) : Option (Option QArg) :=
  if s = "-" then some none
  else if s.startsWith "s:" then (Val.parseRat? (s.drop 2).toString).map fun q => some (.scalar q)
  else if s.startsWith "v:" then (parseList Val.parseRat? (s.drop 2).toString).map fun qs => some (.vector qs)
  else none

private def parseMethod (s : String) : Option (Option (Option Method)) :=
  match s with
  | "eager" => some none
  | "none" => some (some none)
  | "blockwise" => some (some (some .blockwise))
  | "mapreduce" => some (some (some .mapreduce))
  | "cohorts" => some (some (some .cohorts))
  | _ => none

def showQOutcome : QOutcome → String
  | .ok r => "ok g=" ++ showKeys r.groups ++ " s=" ++ ",".intercalate (r.shape.map toString) ++ " v=" ++ showVals r.vals
  | .err e => "err " ++ e

def handleQuantile (secs : List (List String)) : String :=
  match secs with
  | ("quantile" :: hd) :: labels :: rows =>
    match (do
        let func ← QFunc.ofString? (← kv hd "func")
        let eng ← parseEng (← kv hd "eng")
        let q ← parseQArg (← kv hd "q")
        let batch ← kv hd "batch"
        let b1d ← if batch = "1d" then some true else if batch = "2d" then some false else none
        let method ← parseMethod (← kv hd "method")
        let uchunks ← parseList String.toNat? (← kv hd "uchunks")
        let chunks ← parseList String.toNat? (← kv hd "chunks")
        let ls ← parseList parseKey (String.join labels)
        let rs ← rows.mapM fun r => parseList Val.parse? (String.join r)
        if b1d && rs.length ≠ 1 then none
        else if rs.any (fun r => r.length ≠ ls.length) then none
        else some (({ func := func, eng := eng, q := q } : QRequest), b1d, method, uchunks, chunks, ls, rs)) with
    | some (rq, b1d, method, uchunks, chunks, ls, rs) =>
      let model :=
        match method with
        | none => runEager rq ls rs b1d
        | some m => runChunked rq m uchunks chunks ls rs b1d
      "model " ++ showQOutcome model ++ " ; spec " ++ showQOutcome (specRun rq ls rs b1d)
    | none => "bad-op quantile"
  | ("qkernel" :: hd) :: codes :: vals :: _ =>
    match (do
        let eng ← parseEng (← kv hd "eng")
        let skipna ← (match (← kv hd "skipna") with | "1" => some true | "0" => some false | _ => none)
        let q ← Val.parseRat? (← kv hd "q")
        let size ← (← kv hd "size").toNat?
        let fill ← Val.parse? (← kv hd "fill")
        let cs ← parseList String.toInt? (String.join codes)
        let vs ← parseList Val.parse? (String.join vals)
        if cs.length ≠ vs.length then none else some (eng, skipna, q, size, fill, cs, vs)) with
    | some (eng, skipna, q, size, fill, cs, vs) =>
      "ok " ++ showVals (engine eng skipna q cs vs size fill) ++ " | " ++ showVals (Spec.grouped skipna q cs vs size fill)
    | none => "bad-op qkernel"
  | _ => "bad-op"

end DriverOps
