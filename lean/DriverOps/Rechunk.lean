/-
  Driver operations of the `rechunk` family (property C17):
    rechunk-optimal   chunks=2,2 labels=0,0,1,1            -> ok <newchunks>
    rechunk-blockwise chunks=2,2 raw=5,5,n,7               -> ok <newchunks>        (n = missing label / NaN)
    rechunk-cohorts   chunks=2,2 labels=1,2,1,2 forced=1 cs=-|<k> ignore=0|1 -> ok <newchunks> | err <kind>
    rechunk-spec      labels=5,5,n,7 old=2,2 new=3,1 forced=5 -> valid=. nostraddle=. oneblock=. contiguous=. forced=. keepold=.
  Inputs outside the modelled domain are answered `bad-op …` (never defaulted).
-/
import DriverOps.Common

open Flox Flox.Rechunk

namespace DriverOps

def parseOptInt (s : String) : Option (Option Int) :=
  if s = "n" then some none else s.toInt?.map some

private def showNats (xs : List Nat) : String := ",".intercalate (xs.map toString)

def bit (b : Bool) : String := if b then "1" else "0"

def handleRechunk (secs : List (List String)) : String :=
  match secs with
  | (op :: hd) :: _ =>
    let r : Option String := do
      match op with
      | "rechunk-optimal" =>
        let chunks ← parseList String.toNat? (← kv hd "chunks")
        let labels ← parseList String.toNat? (← kv hd "labels")
        if decide (ValidChunks labels.length chunks) && !chunks.isEmpty then
          some ("ok " ++ showNats (optimal chunks labels))
        else some "bad-op rechunk-optimal outside domain (chunks must be positive and sum to len(labels) >= 1)"
      | "rechunk-blockwise" =>
        let chunks ← parseList String.toNat? (← kv hd "chunks")
        let raw ← parseList parseOptInt (← kv hd "raw")
        if decide (ValidChunks raw.length chunks) && !chunks.isEmpty then
          some ("ok " ++ showNats (blockwise chunks raw))
        else some "bad-op rechunk-blockwise outside domain (chunks must be positive and sum to len(labels) >= 1)"
      | "rechunk-cohorts" =>
        let chunks ← parseList String.toNat? (← kv hd "chunks")
        let labels ← parseList String.toInt? (← kv hd "labels")
        let forced ← parseList String.toInt? (← kv hd "forced")
        let cs ← parseOptNat' (← kv hd "cs")
        let ign ← kv hd "ignore"
        if ign ≠ "0" ∧ ign ≠ "1" then none
        else if chunks.isEmpty || chunks.any (· = 0) then
          some "bad-op rechunk-cohorts outside domain (old chunks must be positive)"
        else
          match cohorts chunks labels forced cs (ign = "1") with
          | .ok new => some ("ok " ++ showNats new)
          | .error e => some ("err " ++ e)
      | "rechunk-spec" =>
        let labels ← parseList parseOptInt (← kv hd "labels")
        let old ← parseList String.toNat? (← kv hd "old")
        let new ← parseList String.toNat? (← kv hd "new")
        let forced ← parseList parseOptInt (← kv hd "forced")
        some (" ".intercalate
          [ "valid=" ++ bit (decide (ValidChunks labels.length new)),
            "nostraddle=" ++ bit (decide (NoStraddle labels new)),
            "oneblock=" ++ bit (oneBlockB labels new),
            "contiguous=" ++ bit (contiguousB labels),
            "forced=" ++ bit (decide (ForcedStart labels forced new)),
            "keepold=" ++ bit (decide (KeepsOld old new)) ])
      | _ => none
    match r with
    | some s => s
    | none => "bad-op malformed " ++ op
  | _ => "bad-op empty"
where
  parseOptNat' (s : String) : Option (Option Nat) :=
    if s = "-" then some none else s.toNat?.map some

end DriverOps
