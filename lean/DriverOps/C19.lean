/-
  Driver operations of property C19:
    c19validate key=value …      -> the model's `Decisions.validate` on one abstract configuration cell
    c19judge | ref | mr | auto | cohorts | blockwise   -> `Spec19.violations` of one group of outcomes
        (an outcome is `ok v1,v2,…` / `ok` (no values) / `raised Cls,Base,…` / `notrun`)
-/
import DriverOps.Common

open Flox Flox.Decisions

namespace DriverOps

def parseB (s : String) : Option Bool :=
  if s = "1" then some true else if s = "0" then some false else none

def parseMethodOpt : String → Option (Option Method)
  | "none" => some none
  | "map-reduce" => some (some .mapReduce)
  | "blockwise" => some (some .blockwise)
  | "cohorts" => some (some .cohorts)
  | _ => none

private def parseMethod : String → Option Method
  | "map-reduce" => some .mapReduce
  | "blockwise" => some .blockwise
  | "cohorts" => some .cohorts
  | _ => none

def parseOptBool : String → Option (Option Bool)
  | "none" => some none
  | "true" => some (some true)
  | "false" => some (some false)
  | _ => none

def parseEngineOpt : String → Option (Option Engine)
  | "none" => some none
  | "numpy" => some (some .numpy)
  | "flox" => some (some .flox)
  | "numbagg" => some (some .numbagg)
  | "numba" => some (some .numba)
  | _ => none

def parseFuncKind : String → Option FuncKind
  | "arg" => some .arg | "nanarg" => some .nanarg | "first" => some .first | "nanfirst" => some .nanfirst
  | "median" => some .median | "nanmedian" => some .nanmedian | "quantile" => some .quantile
  | "nanquantile" => some .nanquantile | "mode" => some .mode | "nanmode" => some .nanmode
  | "anyall" => some .anyall | "nanskip" => some .nanskip | "plain" => some .plain
  | _ => none

def showMethod : Method → String
  | .mapReduce => "map-reduce" | .blockwise => "blockwise" | .cohorts => "cohorts"
def showEngine : Engine → String
  | .numpy => "numpy" | .flox => "flox" | .numbagg => "numbagg" | .numba => "numba"
private def showErr : ErrKind → String
  | .valueError => "ValueError" | .notImplemented => "NotImplementedError" | .importError => "ImportError"
  | .assertion => "internal:AssertionError" | .other => "internal:other"
def showOptBool : Option Bool → String
  | none => "none" | some true => "true" | some false => "false"

def parseCell (t : List String) : Option Cell := do
  let fk ← (kv t "fk") >>= parseFuncKind
  let qGiven ← (kv t "qgiven") >>= parseB
  let engine ← (kv t "eng") >>= parseEngineOpt
  let dtypeGiven ← (kv t "dtypegiven") >>= parseB
  let dtypeInt ← (kv t "dtypeint") >>= parseB
  let method ← (kv t "method") >>= parseMethodOpt
  let reindex ← (kv t "reindex") >>= parseOptBool
  let byDask ← (kv t "bydask") >>= parseB
  let arrDask ← (kv t "arrdask") >>= parseB
  let nax ← (kv t "nax") >>= String.toNat?
  let ndim ← (kv t "ndim") >>= String.toNat?
  let expected ← (kv t "expected") >>= parseB
  let isFloat ← (kv t "float") >>= parseB
  let preferred ← (kv t "preferred") >>= parseMethod
  let cohortsEmpty ← (kv t "cohortsempty") >>= parseB
  let singleBlock ← (kv t "single") >>= parseB
  let countMask ← (kv t "countmask") >>= parseB
  let sorted ← (kv t "sorted") >>= parseB
  let hasNumbagg ← (kv t "numbagg") >>= parseB
  let aligned ← (kv t "aligned") >>= parseB
  some { kind := fk.cls, method, reindex, byDask, arrDask, ax := axisRel nax ndim, expected, isFloat, preferred,
         cohortsEmpty, singleBlock, aligned, fk, qGiven, engine, dtypeGiven, dtypeInt, countMask, sorted, hasNumbagg }

def handleC19Validate (secs : List (List String)) : String :=
  match secs with
  | t :: _ =>
    match parseCell t with
    | none => "bad-op c19validate: malformed cell"
    | some c =>
      match validate c with
      | .err e => "err " ++ showErr e
      | .ok p =>
        "ok method=" ++ (match p.method with | none => "eager" | some m => showMethod m) ++
          " reindex=" ++ showOptBool p.blockwise ++ " engine=" ++ showEngine p.engine
  | _ => "bad-op c19validate: empty"

def parseOutcome (sec : List String) : Option Spec19.Outcome :=
  match sec with
  | ["notrun"] => some .notRun
  | ["ok"] => some (.ok [])
  | ["ok", vs] => some (.ok (vs.splitOn ","))
  | ["raised", mro] => some (.raised (mro.splitOn ","))
  | _ => none

def handleC19Judge (secs : List (List String)) : String :=
  match secs with
  | [_, r, mr, au, co, bl] =>
    match parseOutcome r, parseOutcome mr, parseOutcome au, parseOutcome co, parseOutcome bl with
    | some r, some mr, some au, some co, some bl =>
      let v := Spec19.violations { reference := r, mapReduce := mr, auto := au, cohorts := co, blockwise := bl }
      if v.isEmpty then "holds" else "violated " ++ ",".intercalate v
    | _, _, _, _, _ => "bad-op c19judge: malformed outcome"
  | _ => "bad-op c19judge: expected 5 outcome sections"

end DriverOps
