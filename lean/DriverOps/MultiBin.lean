/-
  Driver operations of the `multibin` family (property C07):

    bincode right=0|1 edges=e0,e1,… | labels
        -> `ok <binCode per label> | <cutCode per label>`       (model of `_factorize_single` / `pandas.cut`)
    ravel shape=d0,d1,… | c0,c1,… ; c0,c1,… ; …   (one code tuple per `;` group)
        -> `ok <ravelCode per tuple> | <unravel of each non-negative flat code, tuples joined by ;>`
    factor sort= mode=eager|lazy chunks= nby= | <grouper> | labels | <grouper> | labels …
        -> `model <factor outcome> ; spec <spec outcome>`
    multi func= dk= fill= provided= minc= eng= sort= se= float= plan= chunks= mode= lchunks= ashape= nby=
          | <grouper> | labels | … | vals
        -> `model <outcome> ; spec <outcome>`

  <grouper> is `kind=cat expected=-|[]|r,r,… shape=…`, `kind=edges breaks=r,r,… shape=…` or
  `kind=ivs closed=left|right|both|neither ivs=l~r;l~r;… shape=…`.
-/
import DriverOps.Reduce

open Flox

namespace DriverOps

private def parseIv (s : String) : Option (Rat × Rat) :=
  match s.splitOn "~" with
  | [l, r] => do some (← Val.parseRat? l, ← Val.parseRat? r)
  | _ => none

private def parseIvs (s : String) : Option (List (Rat × Rat)) :=
  if s = "" || s = "[]" then some [] else (s.splitOn ";").mapM parseIv

private def parseGrouper (toks : List String) : Option (Grouper × List Nat) := do
  let shape ← parseList String.toNat? (← kv toks "shape")
  match ← kv toks "kind" with
  | "cat" => some (.cat (← parseOptRats (← kv toks "expected")), shape)
  | "edges" =>
    let b ← kv toks "breaks"
    some (.edges (← if b = "[]" then some [] else parseList Val.parseRat? b), shape)
  | "ivs" => some (.intervals (← parseIvs (← kv toks "ivs")) (← Closed.ofString? (← kv toks "closed")), shape)
  | _ => none

/-- the `2·nby` sections after the header: (grouper, shape, labels) -/
private def parseGroupers : Nat → List (List String) → Option (List (Grouper × List Nat × List Val) × List (List String))
  | 0, rest => some ([], rest)
  | n + 1, g :: l :: rest => do
    let (gr, shape) ← parseGrouper g
    let labels ← parseList Val.parse? (String.join l)
    if labels.length ≠ shapeProd shape then none
    let (more, rest') ← parseGroupers n rest
    some ((gr, shape, labels) :: more, rest')
  | _, _ => none

private def closedStr : Closed → String
  | .left => "left" | .right => "right" | .both => "both" | .neither => "neither"

private def showIvs (ivs : List (Rat × Rat)) : String :=
  ";".intercalate (ivs.map fun iv => Val.ratToString iv.1 ++ "~" ++ Val.ratToString iv.2)

private def showGroupLabels : GroupLabels → String
  | .cats gs => "c:" ++ showKeys gs
  | .ivs ivs c => "i:" ++ closedStr c ++ ":" ++ showIvs ivs

private def showInts (xs : List Int) : String := ",".intercalate (xs.map toString)
private def showNats (xs : List Nat) : String := ",".intercalate (xs.map toString)

private def showGroups (gs : List GroupLabels) : String := "&".intercalate (gs.map showGroupLabels)

/-- model side of `factor`: `_convert_expected_groups_to_index` then `factorize_` / the lazy path -/
private def modelFactor (gs : List (Grouper × List Nat × List Val)) (sort : Bool) (lazy : Bool) (lchunks : List Nat) :
    Except String Factorized := do
  let ixs ← gs.mapM fun (g, _, _) => convertExpected g sort
  if lazy then
    if gs.any (fun (_, shape, _) => shape.length ≠ 1) then .error "unsupported lazy-nd"
    else factorizeLazy lchunks (gs.map fun (_, _, l) => l) ixs sort
  else factorizeEager (gs.map fun (_, shape, l) => (shape, l)) ixs sort

private def showFactor : Except String Factorized → String
  | .ok f => "ok shape=" ++ showNats f.shape ++ " groups=" ++ showGroups f.groups ++ " codes=" ++ showInts f.codes
  | .error e => if e.startsWith "unsupported" then e else "err " ++ e

/-- specification side: labels per grouper, and per grouper the codes of the broadcast labels -/
private def specFactor (gs : List (Grouper × List Nat × List Val)) (sort : Bool) : List GroupLabels × List (List Val) :=
  let target := bcastShape (gs.map fun (_, shape, _) => shape)
  let groups := gs.map fun (g, _, l) => specGroupLabels g l sort
  let cols := gs.map fun (_, shape, l) => bcast shape target l
  (groups, cols)

def handleMultiBin (secs : List (List String)) : String :=
  match secs with
  | ("bincode" :: hd) :: labels :: _ =>
    match (do
        let right : Bool := (← kv hd "right") == "1"
        let edges ← parseList Val.parseRat? (← kv hd "edges")
        let xs ← parseList Val.parse? (String.join labels)
        some (right, edges, xs)) with
    | some (right, edges, xs) =>
      "ok " ++ showInts (xs.map (binCode edges right)) ++ " | " ++
        showInts (xs.map (cutCode (intervalsOfBreaks edges) right))
    | none => "bad-op bincode"
  | ("ravel" :: hd) :: tuples :: _ =>
    match (do
        let shape ← parseList String.toNat? (← kv hd "shape")
        let ts ← ((String.join tuples).splitOn ";").mapM (parseList String.toInt?)
        if ts.any (·.length ≠ shape.length) then none
        some (shape, ts)) with
    | some (shape, ts) =>
      let flat := ts.map (ravelCode · shape)
      "ok " ++ showInts flat ++ " | " ++
        ";".intercalate (flat.map fun i => if i < 0 then "-" else showInts (unravel i shape))
    | none => "bad-op ravel"
  | ("factor" :: hd) :: rest =>
    match (do
        let sort : Bool := (← kv hd "sort") == "1"
        let lazy ← match ← kv hd "mode" with | "eager" => some false | "lazy" => some true | _ => none
        let lchunks ← parseList String.toNat? (← kv hd "chunks")
        let nby ← (← kv hd "nby").toNat?
        let (gs, _) ← parseGroupers nby rest
        some (sort, lazy, lchunks, gs)) with
    | some (sort, lazy, lchunks, gs) =>
      let (sg, cols) := specFactor gs sort
      let scodes := (sg.zip cols).map fun (g, col) => showInts (col.map (specCode g))
      "model " ++ showFactor (modelFactor gs sort lazy lchunks) ++ " ; spec ok shape=" ++
        showNats (sg.map GroupLabels.size) ++ " groups=" ++ showGroups sg ++ " cols=" ++ "&".intercalate scodes
    | none => "bad-op factor"
  | ("multi" :: hd) :: rest =>
    match (do
        let (rq, plan, chunks) ← mkRequest (hd ++ ["expected=-", "known=1", "ddof=0"])
        let provided : Bool := (← kv hd "provided") == "1"
        let lazy ← match ← kv hd "mode" with | "eager" => some false | "lazy" => some true | _ => none
        let lchunks ← parseList String.toNat? (← kv hd "lchunks")
        let nby ← (← kv hd "nby").toNat?
        let (gs, rest') ← parseGroupers nby rest
        let vals ← match rest' with
          | v :: _ => parseList Val.parse? (String.join v)
          | [] => none
        -- shape of the value array (the labels broadcast against it: `np.broadcast_to(by, array.shape)`)
        let ashape ← parseList String.toNat? (← kv hd "ashape")
        if vals.length ≠ shapeProd ashape then none
        some (rq, plan, chunks, provided, lazy, lchunks, gs, vals, ashape)) with
    | some (rq, plan, chunks, provided, lazy, lchunks, gs, vals, ashape) =>
      let target := bcastShape (gs.map fun (_, shape, _) => shape)
      let model : String :=
        match modelFactor gs rq.sort lazy lchunks with
        | .error e => if e.startsWith "unsupported" then e else "err " ++ e
        | .ok fz0 =>
          let fz := { fz0 with codes := bcast target ashape fz0.codes }
          match runMulti Generated.initRows rq provided plan chunks fz vals with
          | .ok _ vs => "ok shape=" ++ showNats fz.shape ++ " groups=" ++ showGroups fz.groups ++ " vals=" ++ showVals vs
          | .err e => "err " ++ e
          | .unsupported w => "unsupported " ++ w
      let (sg, cols) := specFactor gs rq.sort
      let mc : Nat := match rq.minCount with
        | some m => m
        | none => if rq.fill.isSome && provided then 1 else 0
      let fill := if mc > 0 && (rq.func = "nansum" || rq.func = "nanprod") && rq.fill.isNone then some Val.nan else rq.fill
      let spec : String :=
        match specSlotFor rq.func mc fill with
        | none => "unsupported no-kernel"
        | some slot =>
          let cols := cols.map (bcast target ashape)
          -- an entry whose label tuple never occurs is specified (= the fill) only when expected groups were given
          let slot := fun (ms : List Val) => if ms.isEmpty && !provided then none else slot ms
          let res := specMulti slot sg (labelRowsOf vals.length cols) vals
          "ok shape=" ++ showNats (sg.map GroupLabels.size) ++ " groups=" ++ showGroups sg ++ " vals=" ++
            ",".intercalate (res.map fun o => match o with | some v => v.toStr | none => "u")
      "model " ++ model ++ " ; spec " ++ spec
    | none => "bad-op multi"
  | _ => "bad-op"

end DriverOps
