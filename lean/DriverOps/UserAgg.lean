/-
  Driver operation `reduceR`: groupby_reduce with a user-defined `Aggregation` whose *resolved* fields are given on
  the line (what the real `_initialize_aggregation(custom_agg, …)` returned), instead of a registry name.

    reduceR name= numpy=k,.. chunk=k,..|None combine=k,..|None ifills=v,.. nfills=v,.. ffill=v|None ufill=v|None
            minc=N fin=none|mean|second|var|std ddof=N isarg=0|1 fill=v|- spec=k|- specmc=N
            eng= sort= expected= known= se= float= plan= chunks=   | labels | vals

  Answer: `model <outcome> ; spec <outcome>` like `reduce` (`spec=-`: the aggregation claims no NumPy reference).
-/
import DriverOps.Reduce

open Flox

namespace DriverOps

def parseStrs (s : String) : List String := if s = "" then [] else s.splitOn ","

def mkRawAgg (hd : List String) : Option RawAgg := do
  let name ← kv hd "name"
  let numpy := parseStrs (← kv hd "numpy")
  let chunk := parseStrs (← kv hd "chunk")
  let combine := parseStrs (← kv hd "combine")
  let ifills := parseStrs (← kv hd "ifills")
  let nfills := parseStrs (← kv hd "nfills")
  let ffill ← kv hd "ffill"
  let ufill ← kv hd "ufill"
  let minc ← (← kv hd "minc").toNat?
  let fin ← kv hd "fin"
  let ddof ← (← kv hd "ddof").toNat?
  let isarg ← kv hd "isarg"
  if isarg ≠ "0" ∧ isarg ≠ "1" then none
  some { name := name, numpy := numpy, chunk := chunk, combine := combine, interFills := ifills, numpyFills := nfills,
         finalFill := ffill, userFill := ufill, minCount := minc, finalize := fin, ddof := ddof, isArg := isarg = "1" }

def mkUserRequest (hd : List String) (name : String) (ddof : Nat) : Option (Request × Option Val × Plan × List Nat) := do
  let fill ← parseOptVal (← kv hd "fill")
  let eng ← parseEng (← kv hd "eng")
  let sort := (← kv hd "sort") = "1"
  let expected ← parseOptRats (← kv hd "expected")
  let known := (← kv hd "known") = "1"
  let se ← (← kv hd "se").toNat?
  let isFloat := (← kv hd "float") = "1"
  let plan ← parsePlan (← kv hd "plan")
  let chunks ← parseList String.toNat? (← kv hd "chunks")
  some ({ func := name, dkind := "-", fill := fill, minCount := none, ddof := ddof, eng := eng, sort := sort,
          expected := expected, known := known, splitEvery := se, floatData := isFloat }, fill, plan, chunks)

def handleUserAgg (secs : List (List String)) : String :=
  match secs with
  | ("reduceR" :: hd) :: labels :: vals :: _ =>
    match mkRawAgg hd with
    | none => "bad-op aggregation"
    | some a =>
      match mkUserRequest hd a.name a.ddof, parseList parseKey (String.join labels),
            parseList Val.parse? (String.join vals), kv hd "spec", (kv hd "specmc").bind String.toNat? with
      | some (rq, fill, plan, chunks), some ls, some vs, some sp, some smc =>
        let spec : Outcome :=
          if sp = "-" then .unsupported "no-reference"
          else match kernelWithDdof a.ddof sp with
            | some k => specResolved k smc fill rq.expected ls vs
            | none => .unsupported "no-kernel"
        "model " ++ showOutcome (runUser a rq fill plan chunks ls vs) ++ " ; spec " ++ showOutcome spec
      | none, _, _, _, _ => "bad-op call"
      | _, none, _, _, _ => "bad-op labels"
      | _, _, none, _, _ => "bad-op vals"
      | _, _, _, _, _ => "bad-op spec"
  | _ => "bad-op"

end DriverOps
