/-
  Driver operation `graph` (C13, also usable for C03): run schedules of a task graph through the generic scheduler model.

    graph n=<N> cand=<c0,c1,…|-> | <deps of key 0>;<deps of key 1>;… | <schedule 1> | <schedule 2> | …

  * keys are 0..N-1; the deps of a key are `-` (none) or `a.b.c` (key indices, in argument order)
  * the task of key k is the uninterpreted function symbol `mix k` (an arithmetic hash of k and its argument values),
    so equal values in the model mean "same function applied to the same inputs"
  * a schedule is a list of tokens `e<k>` (execute k) / `l<k>` (lose the result of k), run by `Flox.Graph.runOps`
  * `cand` is a candidate table (one value per key, `-` = no value) computed by the harness's independent evaluation;
    the driver answers whether it satisfies the specification `Flox.Graph.Solution` (checked on keys 0..N+1)

  answer:  `ok sol=<1|0|-> | <table 1> | <table 2> | …`   each table = values of keys 0..N-1 (`-` = absent) or `rejected`
-/
import DriverOps.Common

open Flox Flox.Graph

namespace DriverOps

def mixP : Nat := 2305843009213693951

/-- the function symbol of key `k` applied to argument values `xs` -/
def mix (k : Nat) (xs : List Nat) : Nat :=
  xs.foldl (fun h x => (h * 1000003 + x + 7) % mixP) (((k + 1) * 1000003) % mixP)

def parseDeps (s : String) : Option (List Nat) :=
  if s = "-" then some [] else (s.splitOn ".").mapM String.toNat?

def parseOp (s : String) : Option (Op Nat) :=
  if s.startsWith "e" then (s.drop 1).toNat?.map Op.exec
  else if s.startsWith "l" then (s.drop 1).toNat?.map Op.lose
  else none

def parseCand (s : String) : Option (List (Option Nat)) :=
  (s.splitOn ",").mapM fun t => if t = "-" then some none else t.toNat?.map some

def showTable (t : List (Option Nat)) : String :=
  ",".intercalate (t.map fun | none => "-" | some v => toString v)

def mkGraph (deps : List (List Nat)) : Graph Nat Nat :=
  (List.range deps.length).zip deps |>.map fun (k, ds) => (k, { deps := ds, fn := mix k })

def handleGraph (secs : List (List String)) : String :=
  match secs with
  | hd :: [depsTok] :: scheds =>
    let r : Option String := do
      let n ← (← kv hd "n").toNat?
      let deps ← (depsTok.splitOn ";").mapM parseDeps
      if deps.length ≠ n then none
      else
        let g := mkGraph deps
        let keys := List.range n
        let candS ← kv hd "cand"
        let sol ← if candS = "-" then some "-" else do
          let cand ← parseCand candS
          if cand.length ≠ n then none
          else
            let den : Memo Nat Nat := fun k => (cand[k]?).join
            some (if isSolutionOn g den (List.range (n + 2)) then "1" else "0")
        let tables ← scheds.mapM fun sch => do
          let ops ← sch.mapM parseOp
          some (match runOps g ops Memo.empty with
            | none => "rejected"
            | some m => showTable (table m keys))
        some ("ok sol=" ++ sol ++ " | " ++ " | ".intercalate tables)
    r.getD "bad-op graph: malformed"
  | _ => "bad-op graph: expected header | deps | schedules…"

end DriverOps
