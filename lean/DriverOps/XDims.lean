/-
  Driver operations of the `xarray` family (property C15):
    xdims      ds=0|1 objdims=x,y vars=v:x.y;w:x coords=nd:x;sc: unindexed=y by=lab:x.y:0;lab2:y:1 dim=none|ellipsis|e:x.y
                 -> ok short=0|1 t=x.y vars=v:a.b;w:c coords=a,b | err <kind>
    xdims-spec (same input) -> ok vars=v:a.b;w:c coords=a,b          (native rule; variables in input order)
    xskipna    func=sum kind=f skipna=n|0|1 -> ok nansum | err <message>
  Lists: `,` between names, `.` between the dims of one variable, `;` between variables.  Malformed input -> bad-op.
-/
import DriverOps.Common

open Flox Flox.XDims

namespace DriverOps

def splitNE (sep : String) (s : String) : List String := if s = "" then [] else s.splitOn sep

def parseVar (s : String) : Option (String × List Dim) :=
  match s.splitOn ":" with
  | [n, ds] => if n = "" then none else some (n, splitNE "." ds)
  | _ => none

def parseGrouper (s : String) : Option Flox.XDims.Grouper :=
  match s.splitOn ":" with
  | [n, ds, b] =>
    if n = "" then none
    else if b = "0" then some ⟨n, splitNE "." ds, false, n ++ "_bins"⟩
    else if b = "1" then some ⟨n, splitNE "." ds, true, n ++ "_bins"⟩
    else none
  | _ => none

def parseDimArg (s : String) : Option DimArg :=
  if s = "none" then some .none
  else if s = "ellipsis" then some .ellipsis
  else match s.splitOn ":" with
    | ["e", ds] => some (.explicit (splitNE "." ds))
    | _ => none

def parseCall (hd : List String) : Option XDims.Call := do
  let ds ← kv hd "ds"
  let isDs ← if ds = "1" then some true else if ds = "0" then some false else none
  let objDims := splitNE "," (← kv hd "objdims")
  let vars ← (splitNE ";" (← kv hd "vars")).mapM parseVar
  let coords ← (splitNE ";" (← kv hd "coords")).mapM parseVar
  let unindexed := splitNE "," (← kv hd "unindexed")
  let by_ ← (splitNE ";" (← kv hd "by")).mapM parseGrouper
  let dim ← parseDimArg (← kv hd "dim")
  if by_.isEmpty || vars.isEmpty then none
  else some { isDataset := isDs, objDims := objDims, vars := vars, coords := coords.map (fun c => ⟨c.1, c.2⟩),
              unindexed := unindexed, groupers := by_, dim := dim }

def showVarDims (vs : List (String × List Dim)) : String :=
  ";".intercalate (vs.map fun v => v.1 ++ ":" ++ ".".intercalate v.2)

private def showErr : Err → String
  | .multiEllipsis => "multi-ellipsis"
  | .absentDims => "absent-dims"
  | .missingCoreDims v => "missing-core-dims " ++ v

/-- outside the modelled domain: a group name that is a dim of the object without being the grouper's own dim,
    two groupers with the same group name, a DataArray call with several variables -/
def outsideDomain (c : XDims.Call) : Bool :=
  c.groupers.any (fun g => groupName g ∈ c.objDims && g.dims != [groupName g]) ||
  !(decide (groupNames c.groupers).Nodup) || (!c.isDataset && c.vars.length != 1)

def handleXDims (secs : List (List String)) : String :=
  match secs with
  | (op :: hd) :: _ =>
    let r : Option String := do
      match op with
      | "xdims" =>
        let c ← parseCall hd
        if outsideDomain c then some "bad-op xdims outside domain"
        else
          match dimTuple c with
          | .error e => some ("err " ++ showErr e)
          | .ok t =>
            match allDims c with
            | .error e => some ("err " ++ showErr e)
            | .ok vs =>
              some ("ok short=" ++ (if shortcut c t then "1" else "0") ++ " t=" ++ ".".intercalate t ++
                    " vars=" ++ showVarDims vs ++ " coords=" ++ ",".intercalate (coordsOut c t))
      | "xdims-spec" =>
        let c ← parseCall hd
        if outsideDomain c then some "bad-op xdims-spec outside domain"
        else some ("ok vars=" ++ showVarDims (c.vars.map fun v => (v.1, nativeVarDims c v.2)) ++
                   " coords=" ++ ",".intercalate (nativeCoords c))
      | "xskipna" =>
        let func ← kv hd "func"
        let kind ← kv hd "kind"
        let sk ← kv hd "skipna"
        let skipna ← if sk = "n" then some none else if sk = "1" then some (some true) else if sk = "0" then some (some false) else none
        let fn : FName := if func.startsWith "nan" then ⟨true, (func.drop 3).toString⟩ else ⟨false, func⟩
        match kind.toList with
        | [k] =>
          match resolveFunc fn k skipna with
          | some f => some ("ok " ++ (if f.nan then "nan" else "") ++ f.base)
          | none => some "err skipna cannot be truthy"
        | _ => none
      | _ => none
    match r with
    | some s => s
    | none => "bad-op malformed " ++ op
  | _ => "bad-op empty"

end DriverOps
