/-
  Driver operation `scan` (C10): `scan func=<nancumsum|ffill|bfill> float=<0|1> chunks=<-|c1,c2,..>|<codes>|<vals>`
  answers `<model>|<spec>` where each part is `ok v1,v2,…` or `refused`.
  The model part is `Scan.groupbyScan` with dask's Blelloch bracketings; the spec part is `Scan.spec`
  (nancumsum must refuse missing labels).
-/
import DriverOps.Common

open Flox Flox.Scan

namespace DriverOps

def parseScanFunc : String → Option Flox.Scan.Func
  | "nancumsum" => some .nancumsum | "ffill" => some .ffill | "bfill" => some .bfill | _ => none

def showResult : Result → String
  | .ok vs => "ok " ++ showVals vs
  | .refused => "refused"

def handleScan (secs : List (List String)) : String :=
  match secs with
  | [hd, [cs], [vs]] =>
    let r : Option String := do
      let f ← parseScanFunc (← kv hd "func")
      let fl ← kv hd "float"
      let isFloat ← if fl = "1" then some true else if fl = "0" then some false else none
      let ch ← kv hd "chunks"
      let chunks ← if ch = "-" then some none else (parseList String.toNat? ch).map some
      let codes ← parseList String.toInt? cs
      let vals ← parseList Val.parse? vs
      if codes.length ≠ vals.length then none
      else
        let l : AA := codes.zip vals
        match chunks with
        | some c => if c.foldl (· + ·) 0 ≠ l.length ∨ c.any (· = 0) then none else pure ()
        | none => pure ()
        let trees := match chunks with
          | some c => blellochTrees (c.length - 1)
          | none => []
        if !validTrees trees then some "bad-op invalid-trees"
        else
          let m := groupbyScan f isFloat chunks trees l
          let s : Result := if f = .nancumsum ∧ codes.any (· < 0) then .refused else .ok (spec f l)
          some (showResult m ++ "|" ++ showResult s)
    r.getD "bad-op scan: malformed"
  | _ => "bad-op scan: expected 3 sections"

end DriverOps
