/-
  Driver operations of the `state` family (property C14):

    history | <call> | <call> | …          one section per stateful call, executed in order from a fresh process state
        init func=sum fill=None rf=0 mc=2 fk=-                       (fk: `-` = None, `.` = {}, else k:v;k:v)
        init user=mine numpy=sum chunk=sum combine=sum fills=0 ff=NA arg=0 fill=-7 rf=-7 mc=1 fk=ddof:1
        scan func=ffill dtype=float32
        chunks chunks=2,2 labels=0,0,1,1
        parts se=0:2 chunks=1,1,1/2,2
        evictc n=3        evictp n=1
      -> ok regsame=1 || <model result of each call, `;`-separated> || <specification result of each call>
    names ing=<ingredient> kinds=a,b,c      -> ok a:indep b:dep c:must      (not hashed / hashed / hashed and depended on)
    merge | 0=7: 1=1:0 | 0=7: 2=2:0 | 1 | 2 -> ok compat=1 safe=1          (graphs as key=op:dep,dep ; outputs of each)
  Malformed input is answered `bad-op …`.
-/
import DriverOps.Common
import FloxModel.Generated.TokenFields
import FloxModel.Generated.Registry

open Flox Flox.State

namespace DriverOps

def splitNonEmpty (s : String) (sep : String) : List String := (s.splitOn sep).filter (· ≠ "")

def parseNats (s : String) : Option (List Nat) := (splitNonEmpty s ",").mapM String.toNat?

def parseKw (s : String) : Option (Option (List (String × String))) :=
  if s = "-" then some none
  else if s = "." then some (some [])
  else do
    let kvs ← (splitNonEmpty s ";").mapM fun p =>
      match p.splitOn ":" with
      | [k, v] => some (k, v)
      | _ => none
    some (some kvs)

def parseStateCall (toks : List String) : Option ApiCall :=
  match toks with
  | "init" :: rest => do
    let fill ← kv rest "fill"
    let rf ← kv rest "rf"
    let mc ← (← kv rest "mc").toNat?
    let fk ← parseKw (← kv rest "fk")
    match kv rest "func", kv rest "user" with
    | some f, none => some (.init { func := .named f, fill := fill, resolvedFinal := rf, minCount := mc, fk := fk })
    | none, some nm => do
      let numpy := splitNonEmpty (← kv rest "numpy") ","
      let chunk := splitNonEmpty (← kv rest "chunk") ","
      let combine := splitNonEmpty (← kv rest "combine") ","
      let fills := splitNonEmpty (← kv rest "fills") ","
      let ff ← kv rest "ff"
      let arg ← kv rest "arg"
      if arg ≠ "0" ∧ arg ≠ "1" then none
      else
        let bp : Blueprint := { name := nm, numpy := numpy, chunk := chunk, combine := combine, interFills := fills,
                                numpyFills := [], userFill := "unset", finalFill := ff, minCount := 0, finalizeKwargs := [],
                                isArg := arg = "1" }
        some (.init { func := .user bp, fill := fill, resolvedFinal := rf, minCount := mc, fk := fk })
    | _, _ => none
  | "scan" :: rest => do some (.scanInit (← kv rest "func") (← kv rest "dtype"))
  | "chunks" :: rest => do
    let c ← parseNats (← kv rest "chunks")
    let l ← parseNats (← kv rest "labels")
    if decide (Rechunk.ValidChunks l.length c) && !c.isEmpty then some (.optimalChunks c l) else none
  | "parts" :: rest => do
    let se ← (splitNonEmpty (← kv rest "se") ";").mapM fun p =>
      match p.splitOn ":" with
      | [a, b] => do some ((← a.toNat?), (← b.toNat?))
      | _ => none
    let chunks ← (splitNonEmpty (← kv rest "chunks") "/").mapM parseNats
    some (.getParts se chunks)
  | "evictc" :: rest => do some (.evictChunks (← (← kv rest "n").toNat?))
  | "evictp" :: rest => do some (.evictParts (← (← kv rest "n").toNat?))
  | _ => none

def showStrs (xs : List String) : String := if xs.isEmpty then "-" else ",".intercalate xs
def showNatList (xs : List Nat) : String := if xs.isEmpty then "-" else ",".intercalate (xs.map toString)

def showKw (kw : List (String × String)) : String :=
  if kw.isEmpty then "." else ";".intercalate (kw.map fun (k, v) => k ++ ":" ++ v)

def showBlueprint (b : Blueprint) : String :=
  " ".intercalate [ "name=" ++ b.name, "numpy=" ++ showStrs b.numpy, "chunk=" ++ showStrs b.chunk,
    "combine=" ++ showStrs b.combine, "nfills=" ++ toString b.interFills.length, "nnumpy=" ++ toString b.numpyFills.length,
    "user=" ++ b.userFill, "mc=" ++ toString b.minCount, "fk=" ++ showKw b.finalizeKwargs ]

def showStateResult (arg : ApiCall) : ApiResult → String
  | .init ⟨none, _⟩ => "agg none"
  | .init ⟨some b, ua⟩ =>
    let after := match ua, arg with
      | none, _ => "-"
      | some b', .init a => (match a.func with
          | .user bp => if b' = bp then "same" else "changed"
          | _ => "?")
      | _, _ => "?"
    "agg " ++ showBlueprint b ++ " userafter=" ++ after
  | .scan none => "scan none"
  | .scan (some b) => "scan name=" ++ b.name ++ " dtype=" ++ b.dtype ++ " identity=" ++ b.identity
  | .chunks c => "chunks " ++ showNatList c
  | .parts (p, out) =>
    "parts " ++ "/".intercalate (p.map fun ax => ";".intercalate (ax.map showNatList)) ++ " out=" ++ "/".intercalate (out.map showNatList)
  | .unit => "unit"

def registry₀ : Registry := Registry.ofRows Generated.registry Generated.scans

def parseTask (s : String) : Option (Nat × Task Nat Nat) :=
  match s.splitOn "=" with
  | [k, rhs] =>
    match rhs.splitOn ":" with
    | [op, deps] => do some ((← k.toNat?), { op := (← op.toNat?), deps := (← parseNats deps) })
    | _ => none
  | _ => none

/-- the driver's semantics of a task: a code of the whole expression below it (mod a large prime) -/
def modSem (op : Nat) (args : List Nat) : Nat :=
  args.foldl (fun acc a => (acc * 1000003 + a + 1) % 2305843009213693951) (op + 1)

def handleState (secs : List (List String)) : String :=
  match secs with
  | ("history" :: _) :: callSecs =>
    match callSecs.mapM parseStateCall with
    | none => "bad-op malformed history"
    | some calls =>
      let copy := Generated.deepCopies
      let s0 := fresh registry₀
      let tr := traceWith copy s0 calls
      let final := runWith copy s0 calls
      let model := (calls.zip tr).map fun (c, r) => showStateResult c r
      let spec := calls.map fun c => showStateResult c (pureResult registry₀ c)
      "ok regsame=" ++ (if final.registry = registry₀ then "1" else "0") ++ " || " ++ " ; ".intercalate model ++ " || "
        ++ " ; ".intercalate spec
  | ("names" :: hd) :: _ =>
    match (kv hd "ing").bind Ingredient.ofString?, (kv hd "kinds").map (splitNonEmpty · ",") with
    | some i, some ks =>
      match ks.mapM Kind.ofString? with
      | none => "bad-op names: unknown kind in " ++ ",".intercalate ks
      | some kinds =>
        "ok " ++ " ".intercalate ((ks.zip kinds).map fun (s, k) =>
          s ++ ":" ++ (if (meaningOfKind k).contains i then "must" else if (fieldsOfKind k).contains i then "dep" else "indep"))
    | _, _ => "bad-op malformed names"
  | ("merge" :: _) :: g1s :: g2s :: o1s :: o2s :: _ =>
    match g1s.mapM parseTask, g2s.mapM parseTask, o1s.mapM String.toNat?, o2s.mapM String.toNat? with
    | some g₁, some g₂, some o₁, some o₂ =>
      let fuel := g₁.length + g₂.length + 1
      let ok (alone : Graph Nat Nat) (k : Nat) : Bool :=
        let v := eval modSem alone fuel k
        v.isSome && eval modSem (merge g₁ g₂) fuel k == v && eval modSem (merge g₂ g₁) fuel k == v
      let safe := o₁.all (ok g₁) && o₂.all (ok g₂)
      let defined := o₁.all (fun k => (eval modSem g₁ fuel k).isSome) && o₂.all (fun k => (eval modSem g₂ fuel k).isSome)
      if !defined then "bad-op merge: an output does not evaluate in its own graph"
      else "ok compat=" ++ (if compatibleB g₁ g₂ && compatibleB g₂ g₁ then "1" else "0") ++ " safe=" ++ (if safe then "1" else "0")
    | _, _, _, _ => "bad-op malformed merge"
  | _ => "bad-op malformed state op"

end DriverOps
