/-
  Driver operations of the `dtype` family (property C11).

    dtype func=<name> in=<numpy dtype> user=<-|float32|float64|int64> fill=<-|0|-7|1000000|nan> (mc=<0|1> | minc=<-|n> exp=<0|1>) eng=<0|1>
      → model=<dtype | err:<Exception>> final=<dtype> numpy=<dtypes> inter=<kernel:dtype,…> spec=<dtype | none>
        dom=<0|1> dev=<0|1>
      (`model` = the dtype model of groupby_reduce on the regenerated `_initialize_aggregation` table, `spec` = NumPy's
       convention applied to the effective fill, `dom` = inside NumPy's domain, `dev` = recorded deviation cell)

    dchunks plan=mapreduce ngroups=<n>
    dchunks plan=cohorts cohorts=<l.l.l;l.l>
    dchunks plan=blockwise sort=<0|1> chunks=<n,n,…> keys=<code,code,…>
      → announced=<sizes> computed=<sizes>      (group-axis chunk sizes; computed only for blockwise)
-/
import DriverOps.Common

open Flox Flox.Generated

namespace DriverOps

def promoteNp (a b : DType) : Option DType := lookup2 npPromote a b

def showDTypes (ds : List DType) : String := ",".intercalate (ds.map DType.toStr)

private def showNats (ns : List Nat) : String := ",".intercalate (ns.map toString)

def parseBit : String → Option Bool
  | "0" => some false | "1" => some true | _ => none

def dtypeOp (hd : List String) : Option String := do
  let f ← Func.ofString? (← kv hd "func")
  let d ← DType.ofString? (← kv hd "in")
  let u ← UserD.ofString? (← kv hd "user")
  let k ← FillK.ofString? (← kv hd "fill")
  -- either the resolved flag `mc=<0|1>` or the arguments `minc=<-|n> exp=<0|1>` (resolved by `resolveMinCount`)
  let mc ← match kv hd "mc" with
    | some s => parseBit s
    | none => do
      let m ← (← kv hd "minc") |> fun s => if s = "-" then some none else s.toNat?.map some
      let ex ← parseBit (← kv hd "exp")
      some (decide (resolveMinCount m k ex > 0))
  let e ← parseBit (← kv hd "eng")
  if d = .obj then none
  let m := match apiDtype dtypeRowsOf f d u k mc e with
    | .ok r => r.toStr
    | .error s => "err:" ++ s
  let (fin, np, inter) := match apiInit dtypeRowsOf f d u k mc e with
    | some i => (i.final.toStr, showDTypes i.numpy, ",".intercalate (i.inter.map fun (p : String × DType) => p.1 ++ ":" ++ p.2.toStr))
    | none => ("-", "-", "-")
  let s := match npConvention promoteNp f d u (effFill f k mc) with
    | some r => r.toStr
    | none => "none"
  some s!"model={m} final={fin} numpy={np} inter={inter} spec={s} dom={if inDomain f d u k then 1 else 0} dev={if knownDeviation f d u k then 1 else 0}"

def dchunksOp (hd : List String) : Option String := do
  match ← kv hd "plan" with
  | "mapreduce" =>
    let n ← (← kv hd "ngroups").toNat?
    some s!"announced={showNats (announcedMapReduce n)} computed=-"
  | "cohorts" =>
    let cs ← ((← kv hd "cohorts").splitOn ";").mapM fun c => (c.splitOn ".").mapM Val.parseRat?
    some s!"announced={showNats (announcedCohorts (cs.map fun l => ([], l)))} computed=-"
  | "blockwise" =>
    let sort ← parseBit (← kv hd "sort")
    let chunks ← parseList String.toNat? (← kv hd "chunks")
    let keys ← parseList parseKey (← kv hd "keys")
    if chunks.foldl (· + ·) 0 ≠ keys.length then none
    let vals := keys.map fun _ => Val.fin 0
    some s!"announced={showNats (announcedBlockwise sort chunks keys)} computed={showNats (computedBlockwise .npg [.sum] [Val.fin 0] sort chunks keys vals)}"
  | _ => none

def handleDtype (secs : List (List String)) : String :=
  match secs with
  | (op :: hd) :: _ =>
    let r := if op = "dtype" then dtypeOp hd else if op = "dchunks" then dchunksOp hd else none
    match r with
    | some s => s
    | none => "bad-op " ++ op ++ " " ++ " ".intercalate hd
  | _ => "bad-op empty"

end DriverOps
