/-
  Driver operation of the width-aware accumulation model (property C20, second sentence; `FloxModel/IntWidth.lean`):

    intwidth op=sum|prod castfirst=0|1 win=8 signed=0|1 wacc=64 [sacc=0|1] chunks=-|3,2 [se=K] | 100 100 27 ...
        -> ok <integer>

  The data section holds the members of ONE group in storage order.  `win` / `signed` describe the input dtype, `wacc`
  (and `sacc`, the signedness of the accumulator; the input's when absent) the accumulation dtype.  `chunks=-` runs the
  eager engine (`engineAcc`), `chunks=n1,n2,…` (member counts of the group inside the blocks, zeros allowed, must add up
  to the number of members) the chunked pipeline (`chunkedAcc`) on dask's tree with `se` (= `split_every`, ≥ 2) children
  per node; without `se` all blocks are combined by one node.  Anything else is answered `bad-op …`.
-/
import DriverOps.Common
import FloxModel.IntWidth

open Flox Flox.IntWidth

namespace DriverOps

private def parseBit : String → Option Bool
  | "0" => some false | "1" => some true | _ => none

def handleIntWidth (secs : List (List String)) : String :=
  match secs with
  | [_ :: hd, dat] =>
    let r : Option String := do
      let opS ← kv hd "op"
      let (op, init) ← (match opS with
        | "sum" => some ((fun (a b : Int) => a + b), (0 : Int))
        | "prod" => some ((fun (a b : Int) => a * b), (1 : Int))
        | _ => none)
      let castFirst ← parseBit (← kv hd "castfirst")
      let wIn ← (← kv hd "win").toNat?
      let wAcc ← (← kv hd "wacc").toNat?
      let sIn ← parseBit (← kv hd "signed")
      let sAcc ← (match kv hd "sacc" with
        | none => some sIn
        | some s => parseBit s)
      let xs ← dat.mapM String.toInt?
      let chunksS ← kv hd "chunks"
      if wIn = 0 || wAcc = 0 then some "bad-op intwidth widths must be positive"
      else
      let wrapIn := wrapOf sIn wIn
      let wrapAcc := wrapOf sAcc wAcc
      if chunksS = "-" then
        if (kv hd "se").isSome then some "bad-op intwidth se= without chunks"
        else some ("ok " ++ toString (engineAcc op init castFirst wrapIn wrapAcc xs))
      else
        let sizes ← parseList String.toNat? chunksS
        match splitSizes sizes xs with
        | none => some "bad-op intwidth chunks do not add up to the number of members"
        | some [] => some "bad-op intwidth no blocks"
        | some (b :: bs) =>
          let leaves := (b :: bs).map WTree.leaf
          let tree? : Option (Option WTree) :=
            match kv hd "se" with
            | none => some (some (.node (WForest.ofList (.leaf b) (bs.map WTree.leaf))))
            | some s =>
              match s.toNat? with
              | some k => if k < 2 then none else some (treeReduce k leaves (leaves.length + 1))
              | none => none
          match tree? with
          | none => none
          | some none => some "bad-op intwidth tree"
          | some (some t) => some ("ok " ++ toString (chunkedAcc op init castFirst wrapIn wrapAcc t))
    r.getD "bad-op intwidth malformed"
  | _ => "bad-op intwidth expects: header | members"

end DriverOps
