/-
  Property C16 (order of the returned group labels) on `factorizeLabels` (`FloxModel/Entry.lean`), and the remark that
  `sort` is irrelevant for the eager path once labels are factorised.

    factorizeLabels_sorted_expected     sort=True, duplicate-free `expected`: labels strictly ascending, a permutation
    factorizeLabels_sorted_found        sort=True, no `expected`: labels strictly ascending = the distinct labels
    factorizeLabels_unsorted_expected   sort=False, `expected` given: labels are `expected` as given
    factorizeLabels_unsorted_found      sort=False, no `expected`: the distinct labels in order of first appearance
                                        (`uniqFirst_nil`, `uniqFirst_cons`)
    factorizeLabels_codes / _decode     in all cases `codes[i]` is the index of `labels[i]` in the returned list, or -1
    factorizeLabels_sort_mem            `sort` only rearranges the returned labels
-/
import FloxProofs.BlockwiseLemmas
import FloxModel.Entry

namespace Flox
namespace C16

open BW

/-! ### `indexOf?` without duplicate-freeness -/

theorem indexOf?_some_getElem? (x : Rat) (l : List Rat) (i : Nat) (h : indexOf? x l = some i) : l[i]? = some x := by
  induction l generalizing i with
  | nil => simp [indexOf?] at h
  | cons y ys ih =>
    simp only [indexOf?] at h
    by_cases hxy : x = y
    · simp only [hxy, if_true, Option.some.injEq] at h
      subst h
      simp [hxy]
    · simp only [hxy, if_false] at h
      cases hi : indexOf? x ys with
      | none => simp [hi] at h
      | some j =>
        simp only [hi, Option.map_some, Option.some.injEq] at h
        subst h
        simpa using ih j hi

theorem indexOf?_eq_none_iff (x : Rat) (l : List Rat) : indexOf? x l = none ↔ x ∉ l := by
  induction l with
  | nil => simp [indexOf?]
  | cons y ys ih =>
    simp only [indexOf?]
    by_cases hxy : x = y
    · simp [hxy]
    · simp only [hxy, if_false, Option.map_eq_none_iff, ih, List.mem_cons, false_or]

/-- the first index at which `x` occurs: nothing before it equals `x` -/
theorem indexOf?_first (x : Rat) (l : List Rat) (i : Nat) (h : indexOf? x l = some i) :
    ∀ j, j < i → l[j]? ≠ some x := by
  induction l generalizing i with
  | nil => simp [indexOf?] at h
  | cons y ys ih =>
    simp only [indexOf?] at h
    by_cases hxy : x = y
    · simp only [hxy, if_true, Option.some.injEq] at h
      subst h
      intro j hj; omega
    · simp only [hxy, if_false] at h
      cases hi : indexOf? x ys with
      | none => simp [hi] at h
      | some k =>
        simp only [hi, Option.map_some, Option.some.injEq] at h
        subst h
        intro j hj
        cases j with
        | zero => simp only [List.getElem?_cons_zero, ne_eq, Option.some.injEq]; exact fun e => hxy e.symm
        | succ j' => simpa using ih k hi j' (by omega)

/-! ### order of first appearance -/

abbrev go (acc xs : List Rat) : List Rat :=
  xs.foldl (fun acc x => if acc.contains x then acc else acc ++ [x]) acc

theorem go_eq (n : Nat) : ∀ (xs acc : List Rat), xs.length ≤ n →
    go acc xs = acc ++ go [] (xs.filter fun y => !acc.contains y) := by
  induction n with
  | zero =>
    intro xs acc h
    have : xs = [] := List.length_eq_zero_iff.mp (by omega)
    subst this
    simp [go]
  | succ n ih =>
    intro xs acc h
    cases xs with
    | nil => simp [go]
    | cons x xs =>
      have hlen : xs.length ≤ n := by simpa using h
      by_cases hx : acc.contains x = true
      · have hm : x ∈ acc := List.contains_iff_mem.mp hx
        have h1 : go acc (x :: xs) = go acc xs := by simp [go, hm]
        have h2 : ((x :: xs).filter fun y => !acc.contains y) = xs.filter fun y => !acc.contains y := by
          simp [hm]
        rw [h1, h2]
        exact ih xs acc hlen
      · have hm : x ∉ acc := fun h' => hx (List.contains_iff_mem.mpr h')
        have h1 : go acc (x :: xs) = go (acc ++ [x]) xs := by simp [go, hm]
        have h2 : ((x :: xs).filter fun y => !acc.contains y) = x :: xs.filter fun y => !acc.contains y := by
          simp [hm]
        have h3 : go [] (x :: xs.filter fun y => !acc.contains y) = go [x] (xs.filter fun y => !acc.contains y) := by
          simp [go]
        rw [h1, h2, h3, ih xs (acc ++ [x]) hlen,
          ih (xs.filter fun y => !acc.contains y) [x]
            (Nat.le_trans (List.length_filter_le _ _) hlen)]
        simp only [List.append_assoc, List.filter_filter]
        congr 2
        congr 1
        apply List.filter_congr
        intro y _
        simp only [List.contains_append, List.contains_cons, List.contains_nil, Bool.or_false, Bool.not_or]
        rw [Bool.and_comm]

/-- `pd.factorize(sort=False)` / `pd.unique`: ORDER OF FIRST APPEARANCE.  Together with `uniqFirst_nil` this
    recursion equation determines `uniqFirst`: the head comes first, then the distinct elements of the rest that
    differ from it, again in order of first appearance. -/
theorem uniqFirst_cons (x : Rat) (xs : List Rat) : uniqFirst (x :: xs) = x :: uniqFirst (xs.filter (· ≠ x)) := by
  have h := go_eq xs.length xs [x] (Nat.le_refl _)
  have h0 : uniqFirst (x :: xs) = go [x] xs := by simp [uniqFirst, go]
  rw [h0, h]
  simp only [List.singleton_append, uniqFirst, go, List.cons.injEq, true_and]
  congr 1
  apply List.filter_congr
  intro y _
  simp only [List.contains_cons, List.contains_nil, Bool.or_false]
  by_cases e : y = x <;> simp [e]

theorem uniqFirst_nil : uniqFirst [] = [] := rfl

/-! ### sorting a duplicate-free list of expected labels -/

theorem sorted_expected_strictAsc (ex : List Rat) (hnd : ex.Nodup) :
    StrictAsc (ex.mergeSort fun a b => decide (a ≤ b)) := by
  have hs : (ex.mergeSort fun a b => decide (a ≤ b)).Pairwise (fun a b => decide (a ≤ b) = true) := by
    apply List.pairwise_mergeSort
    · intro a b c h1 h2
      simp only [decide_eq_true_eq] at *
      exact Rat.le_trans h1 h2
    · intro a b
      simp only [Bool.or_eq_true, decide_eq_true_eq]
      exact Rat.le_total
  have hnd' : (ex.mergeSort fun a b => decide (a ≤ b)).Nodup := (List.mergeSort_perm ex _).nodup_iff.mpr hnd
  unfold StrictAsc
  rw [List.pairwise_iff_getElem] at hs ⊢
  intro i j hi hj hij
  have h1 := hs i j hi hj hij
  simp only [decide_eq_true_eq] at h1
  have h2 : (ex.mergeSort fun a b => decide (a ≤ b))[i] ≠ (ex.mergeSort fun a b => decide (a ≤ b))[j] := by
    intro e
    have := (List.getElem_inj hnd').mp e
    omega
  grind

/-! ### C16 on `factorizeLabels` -/

/-- `sort=True` with a duplicate-free `expected`: the returned labels are strictly ascending (hence duplicate-free)
    and a rearrangement of `expected` -/
theorem factorizeLabels_sorted_expected (labels : List Key) (ex : List Rat) (hnd : ex.Nodup) :
    StrictAsc (factorizeLabels labels (some ex) true).1 ∧ (factorizeLabels labels (some ex) true).1.Perm ex := by
  simp only [factorizeLabels, if_true]
  exact ⟨sorted_expected_strictAsc ex hnd, List.mergeSort_perm ex _⟩

/-- `sort=True` without `expected`: the returned labels are the distinct non-NaN labels, strictly ascending -/
theorem factorizeLabels_sorted_found (labels : List Key) :
    StrictAsc (factorizeLabels labels none true).1
    ∧ ∀ r, r ∈ (factorizeLabels labels none true).1 ↔ some r ∈ labels := by
  simp only [factorizeLabels, factorizeKeys, if_true]
  refine ⟨uniqSorted_strictAsc _, ?_⟩
  intro r
  rw [mem_uniqSorted]
  simp [presentKeys, List.mem_filterMap]

/-- `sort=False` with `expected`: the returned labels are `expected` as given -/
theorem factorizeLabels_unsorted_expected (labels : List Key) (ex : List Rat) :
    (factorizeLabels labels (some ex) false).1 = ex := by
  simp [factorizeLabels]

/-- `sort=False` without `expected`: the distinct non-NaN labels in order of first appearance
    (`uniqFirst`, characterised by `uniqFirst_nil` / `uniqFirst_cons`) -/
theorem factorizeLabels_unsorted_found (labels : List Key) :
    (factorizeLabels labels none false).1 = uniqFirst (presentKeys labels)
    ∧ (factorizeLabels labels none false).1.Nodup
    ∧ ∀ r, r ∈ (factorizeLabels labels none false).1 ↔ some r ∈ labels := by
  simp only [factorizeLabels, factorizeKeys, Bool.false_eq_true, if_false]
  refine ⟨trivial, uniqFirst_nodup _, ?_⟩
  intro r
  rw [mem_uniqFirst]
  simp [presentKeys, List.mem_filterMap]

/-- the code of a label with respect to a list of group labels -/
def codeOf (groups : List Rat) (l : Key) : Int :=
  match l with
  | none => -1
  | some r => match indexOf? r groups with
    | some i => (i : Int)
    | none => -1

/-- in all four cases the codes are the indices of the labels in the returned list (-1: NaN / not requested) -/
theorem factorizeLabels_codes (labels : List Key) (expected : Option (List Rat)) (sort : Bool) :
    (factorizeLabels labels expected sort).2 = labels.map (codeOf (factorizeLabels labels expected sort).1) := by
  cases expected with
  | none => rfl
  | some ex => rfl

/-- decoding: a code `≥ 0` points at the element's own label (its first occurrence in the returned list); the code is
    `-1` exactly for NaN labels and labels that are not in the returned list -/
theorem codeOf_decode (groups : List Rat) (l : Key) :
    (∀ j : Nat, codeOf groups l = (j : Int) → groups[j]? = l ∧ l ≠ none)
    ∧ (codeOf groups l = -1 ↔ (l = none ∨ ∃ r, l = some r ∧ r ∉ groups))
    ∧ (-1 ≤ codeOf groups l ∧ codeOf groups l < groups.length) := by
  cases l with
  | none =>
    simp only [codeOf]
    refine ⟨fun j hj => by omega, by simp, by omega⟩
  | some r =>
    cases hi : indexOf? r groups with
    | none =>
      have := (indexOf?_eq_none_iff r groups).mp hi
      simp only [codeOf, hi]
      refine ⟨fun j hj => by omega, by simp [this], by omega⟩
    | some i =>
      have hget := indexOf?_some_getElem? r groups i hi
      have hlt : i < groups.length := by
        rcases Nat.lt_or_ge i groups.length with h | h
        · exact h
        · rw [List.getElem?_eq_none h] at hget; cases hget
      have hmem : r ∈ groups := List.mem_of_getElem? hget
      simp only [codeOf, hi]
      refine ⟨?_, ?_, by omega⟩
      · intro j hj
        have : i = j := by omega
        subst this
        exact ⟨hget, by simp⟩
      · constructor
        · intro h; omega
        · rintro (h | ⟨r', h1, h2⟩)
          · cases h
          · simp only [Option.some.injEq] at h1
            subst h1
            exact absurd hmem h2

theorem factorizeLabels_decode (labels : List Key) (expected : Option (List Rat)) (sort : Bool) (i : Nat)
    (hi : i < labels.length) :
    ∃ hc : i < (factorizeLabels labels expected sort).2.length,
      (∀ j : Nat, (factorizeLabels labels expected sort).2[i] = (j : Int) →
        (factorizeLabels labels expected sort).1[j]? = labels[i] ∧ labels[i] ≠ none)
      ∧ ((factorizeLabels labels expected sort).2[i] = -1 ↔
          (labels[i] = none ∨ ∃ r, labels[i] = some r ∧ r ∉ (factorizeLabels labels expected sort).1)) := by
  have hcodes := factorizeLabels_codes labels expected sort
  have hc : i < (factorizeLabels labels expected sort).2.length := by rw [hcodes]; simpa using hi
  refine ⟨hc, ?_⟩
  have he : (factorizeLabels labels expected sort).2[i]
      = codeOf (factorizeLabels labels expected sort).1 labels[i] := by
    simp only [hcodes, List.getElem_map]
  rw [he]
  have := codeOf_decode (factorizeLabels labels expected sort).1 labels[i]
  exact ⟨this.1, this.2.1⟩

/-- without `expected`, every non-NaN label gets a code `≥ 0` -/
theorem factorizeLabels_found_complete (labels : List Key) (sort : Bool) (r : Rat) (h : some r ∈ labels) :
    r ∈ (factorizeLabels labels none sort).1 := by
  simp only [factorizeLabels, factorizeKeys]
  have hp : r ∈ presentKeys labels := by simp [presentKeys, List.mem_filterMap, h]
  split
  · exact (mem_uniqSorted r _).mpr hp
  · exact (mem_uniqFirst r _).mpr hp

/-- `sort` only rearranges the returned labels: same members (and, with `codeOf_decode`, every element decodes to its
    own label under either order, so the label → value mapping is the same) -/
theorem factorizeLabels_sort_mem (labels : List Key) (expected : Option (List Rat)) (r : Rat) :
    r ∈ (factorizeLabels labels expected true).1 ↔ r ∈ (factorizeLabels labels expected false).1 := by
  cases expected with
  | some ex =>
    simp only [factorizeLabels, if_true, Bool.false_eq_true, if_false]
    exact (List.mergeSort_perm ex _).mem_iff
  | none =>
    simp only [factorizeLabels, factorizeKeys, if_true, Bool.false_eq_true, if_false]
    rw [mem_uniqSorted, mem_uniqFirst]

/-- without `expected` (or with a duplicate-free one) the two orders are permutations of each other -/
theorem factorizeLabels_sort_perm (labels : List Key) (expected : Option (List Rat)) :
    (factorizeLabels labels expected true).1.Perm (factorizeLabels labels expected false).1 := by
  cases expected with
  | some ex =>
    simp only [factorizeLabels, if_true, Bool.false_eq_true, if_false]
    exact List.mergeSort_perm ex _
  | none =>
    have h1 : (factorizeLabels labels none true).1.Nodup := (factorizeLabels_sorted_found labels).1.nodup
    have h2 : (factorizeLabels labels none false).1.Nodup := (factorizeLabels_unsorted_found labels).2.1
    exact (List.perm_ext_iff_of_nodup h1 h2).mpr (fun r => factorizeLabels_sort_mem labels none r)

/-! ### examples and a counterexample -/

-- labels 3, NaN, 1, 3, 2
def exLabels : List Key := [some 3, none, some 1, some 3, some 2]

example : factorizeLabels exLabels none false = ([3, 1, 2], [0, -1, 1, 0, 2]) := by decide +kernel
example : factorizeLabels exLabels none true = ([1, 2, 3], [2, -1, 0, 2, 1]) := by decide +kernel
example : factorizeLabels exLabels (some [2, 7, 3]) false = ([2, 7, 3], [2, -1, -1, 2, 0]) := by decide +kernel
example : uniqFirst (presentKeys exLabels) = [3, 1, 2] := by decide +kernel

/-- **duplicate-freeness of `expected` is necessary** for the strictly-ascending claim -/
theorem sorted_expected_counterexample :
    ¬ ([2, 1, 2] : List Rat).Nodup ∧ ¬ StrictAsc [1, 2, 2]
    ∧ (([2, 1, 2] : List Rat).mergeSort fun a b => decide (a ≤ b)).Perm [1, 2, 2] := by
  refine ⟨by decide +kernel, by decide +kernel, ?_⟩
  exact (List.mergeSort_perm _ _).trans (by decide +kernel)

end C16
end Flox
