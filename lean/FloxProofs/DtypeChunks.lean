/-
  C11 — announced vs computed groups along the group axis, for all labels / chunkings (structural proofs on the
  pipeline model `FloxModel/Pipeline.lean`).
-/
import FloxModel

namespace Flox.DtypeProofs
open Flox

/-- whatever the intermediates, when the final step reindexes (`reindex.blockwise = False` and expected groups are given:
    map-reduce with combine-time reindexing, every cohort with the grouped combine) the returned groups ARE the announced
    expected groups -/
theorem finalize_groups_reindexed (R : Resolved) (x : Inter) (ex gs : List Key) (vs : List Val)
    (h : finalizeResults R x (some ex) false = .ok (gs, vs)) : gs = ex := by
  unfold finalizeResults at h
  simp only at h
  split at h
  · cases h
  · split at h
    · cases h; rfl
    · cases h

/-- when blocks were reindexed up front (`reindex.blockwise = True`) or nothing is expected, the returned groups are the
    groups carried by the intermediate -/
theorem finalize_groups_kept (R : Resolved) (x : Inter) (ex : Option (List Key)) (rb : Bool) (gs : List Key)
    (vs : List Val) (hrb : rb = true ∨ ex = none) (h : finalizeResults R x ex rb = .ok (gs, vs)) : gs = x.groups := by
  unfold finalizeResults at h
  simp only at h
  split at h
  · cases h
  · rcases hrb with hrb | hrb
    · subst hrb
      cases ex <;> simp only [Except.ok.injEq, Prod.mk.injEq] at h <;> exact h.1.symm
    · subst hrb
      simp only [Except.ok.injEq, Prod.mk.injEq] at h
      exact h.1.symm

/-- the model's own notion of "this block holds no labelled element" (`empty = np.all(props.nanmask)`) -/
def blockEmpty (keys : List Key) (sort : Bool) : Bool := (factorizeKeys keys none sort).2.all (· == -1)

/-- what `chunk_reduce` returns as groups for one block when it is not reindexed: the block's distinct labels
    (sorted / first appearance), or the single NaN group when nothing is labelled -/
theorem chunkReduce_groups_none (eng : Eng) (ks : List Kernel) (fills : List Val) (keys : List Key) (vals : List Val)
    (sort : Bool) :
    (chunkReduce eng ks fills keys vals none sort).groups =
      if blockEmpty keys sort then [none]
      else ((if sort then uniqSorted (presentKeys keys) else uniqFirst (presentKeys keys))).map some := by
  unfold chunkReduce blockEmpty factorizeKeys
  simp only

theorem splitBy_length {α} (ns : List Nat) (xs : List α) : (splitBy ns xs).length = ns.length := by
  induction ns generalizing xs with
  | nil => rfl
  | cons n ns ih => simp [splitBy, ih]

/-- `method="blockwise"` without reindexing: for every chunking and every label list, the chunk sizes announced along the
    group axis (distinct labels per input block) are the numbers of groups the blocks really return, provided every
    block holds at least one labelled element (a block without any makes `chunk_reduce` return one NaN group) -/
theorem blockwise_announced_eq_computed (eng : Eng) (ks : List Kernel) (fills : List Val) (sort : Bool)
    (chunks : List Nat) (keys : List Key) (vals : List Val)
    (hne : ∀ kb ∈ splitBy chunks keys, blockEmpty kb sort = false) :
    computedBlockwise eng ks fills sort chunks keys vals = announcedBlockwise sort chunks keys := by
  unfold computedBlockwise announcedBlockwise
  have hl : (splitBy chunks keys).length ≤ (splitBy chunks vals).length := by simp [splitBy_length]
  calc ((splitBy chunks keys).zip (splitBy chunks vals)).map (fun x => (chunkReduce eng ks fills x.1 x.2 none sort).groups.length)
      = ((splitBy chunks keys).zip (splitBy chunks vals)).map
          ((fun kb => (if sort then uniqSorted (presentKeys kb) else uniqFirst (presentKeys kb)).length) ∘ Prod.fst) := by
        apply List.map_congr_left
        intro p hp
        have hmem : p.1 ∈ splitBy chunks keys := (List.of_mem_zip hp).1
        rw [chunkReduce_groups_none, hne p.1 hmem]
        simp
    _ = (((splitBy chunks keys).zip (splitBy chunks vals)).map Prod.fst).map
          (fun kb => (if sort then uniqSorted (presentKeys kb) else uniqFirst (presentKeys kb)).length) := by
        rw [List.map_map]
    _ = _ := by rw [List.map_fst_zip hl]

end Flox.DtypeProofs
