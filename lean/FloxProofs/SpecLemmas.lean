/-
  Direct facts about the specification `Spec.reduce` / `Spec.slot` (`FloxModel/Spec.lean`) and about the entry point
  `run` (`FloxModel/Entry.lean`), used by the property file `FloxProps/C05.lean`.
-/
import FloxModel.Spec
import FloxModel.Entry
import FloxProofs.Members

namespace Flox
namespace SpecL

/-! ### `List.mapM` in `Option` -/

theorem mapM_cons {α β} (f : α → Option β) (a : α) (l : List α) :
    (a :: l).mapM f = (match f a with
      | none => none
      | some b => match l.mapM f with
        | none => none
        | some bs => some (b :: bs)) := by
  rw [List.mapM_cons]
  cases f a <;> simp
  cases l.mapM f <;> rfl

theorem mapM_eq_some_iff {α β} (f : α → Option β) (l : List α) (bs : List β) :
    l.mapM f = some bs ↔ l.map f = bs.map some := by
  induction l generalizing bs with
  | nil => cases bs <;> simp
  | cons a l ih =>
    rw [mapM_cons]
    cases hfa : f a with
    | none =>
      cases bs <;> simp [hfa]
    | some b =>
      cases hm : l.mapM f with
      | none =>
        simp only [List.map_cons, hfa]
        constructor
        · intro h; cases h
        · intro h
          cases bs with
          | nil => simp at h
          | cons b' bs' =>
            simp only [List.map_cons, List.cons.injEq] at h
            have := (ih bs').mpr h.2
            rw [hm] at this; cases this
      | some bs0 =>
        have h0 := (ih bs0).mp hm
        simp only [List.map_cons, hfa, Option.some.injEq]
        constructor
        · intro h; subst h; simp [h0]
        · intro h
          cases bs with
          | nil => simp at h
          | cons b' bs' =>
            simp only [List.map_cons, List.cons.injEq, Option.some.injEq] at h
            obtain ⟨rfl, h2⟩ := h
            have := (ih bs').mpr h2
            rw [hm] at this
            cases this
            rfl

theorem mapM_eq_none_iff {α β} (f : α → Option β) (l : List α) :
    l.mapM f = none ↔ ∃ a ∈ l, f a = none := by
  induction l with
  | nil => simp
  | cons a l ih =>
    rw [mapM_cons]
    cases hfa : f a with
    | none => simp [hfa]
    | some b =>
      cases hm : l.mapM f with
      | none =>
        have := ih.mp hm
        obtain ⟨x, hx, hfx⟩ := this
        simp only [true_iff]
        exact ⟨x, by simp [hx], hfx⟩
      | some bs =>
        simp only [reduceCtorEq, false_iff]
        rintro ⟨x, hx, hfx⟩
        rcases List.mem_cons.mp hx with rfl | hx
        · rw [hfa] at hfx; cases hfx
        · have := ih.mpr ⟨x, hx, hfx⟩
          rw [hm] at this; cases this

theorem mapM_length {α β} (f : α → Option β) (l : List α) (bs : List β) (h : l.mapM f = some bs) :
    bs.length = l.length := by
  have := congrArg List.length ((mapM_eq_some_iff f l bs).mp h)
  simpa using this.symm

theorem mapM_getElem? {α β} (f : α → Option β) (l : List α) (bs : List β) (h : l.mapM f = some bs)
    (i : Nat) (hi : i < l.length) : bs[i]? = f l[i] := by
  have h1 := (mapM_eq_some_iff f l bs).mp h
  have h2 : (l.map f)[i]? = (bs.map some)[i]? := by rw [h1]
  simp only [List.getElem?_map, List.getElem?_eq_getElem hi, Option.map_some] at h2
  cases hb : bs[i]? with
  | none => rw [hb] at h2; cases h2
  | some b => rw [hb] at h2; simpa using h2.symm

/-! ### the slot function of `Spec.reduce` -/

/-- the function `Spec.reduce` maps over `0..n-1` -/
def slotAt (k : Kernel) (minCount : Nat) (userFill : Option Val) (codes : List Int) (vals : List Val) (g : Nat) :
    Option Val :=
  if Spec.isArg k then
    Spec.argSlot k minCount userFill (Spec.positions (Int.ofNat g) codes) (members (Int.ofNat g) codes vals)
  else Spec.slot k minCount userFill (members (Int.ofNat g) codes vals)

theorem reduce_eq (k : Kernel) (mc : Nat) (uf : Option Val) (codes : List Int) (vals : List Val) (n : Nat) :
    Spec.reduce k mc uf codes vals n = (List.range n).mapM (slotAt k mc uf codes vals) := rfl

/-- a slot needs the fill: the label has no member, or fewer than `min_count` valid ones -/
def NeedsFill (mc : Nat) (ms : List Val) : Prop := ms = [] ∨ Spec.validCount ms < mc

theorem slot_needsFill (k : Kernel) (mc : Nat) (uf : Option Val) (ms : List Val) (h : NeedsFill mc ms) :
    Spec.slot k mc uf ms = uf := by
  unfold Spec.slot
  rcases h with h | h
  · simp [h]
  · by_cases he : ms.isEmpty = true <;> simp [he, h]

theorem argSlot_needsFill (k : Kernel) (mc : Nat) (uf : Option Val) (pos : List Nat) (ms : List Val)
    (h : NeedsFill mc ms) : Spec.argSlot k mc uf pos ms = uf := by
  unfold Spec.argSlot
  rcases h with h | h
  · simp [h]
  · by_cases he : ms.isEmpty = true <;> simp [he, h]

theorem slot_value (k : Kernel) (mc : Nat) (uf : Option Val) (ms : List Val) (h : ¬ NeedsFill mc ms) :
    Spec.slot k mc uf ms = some (kEval k ms) := by
  unfold NeedsFill at h
  have h1 : ms.isEmpty = false := by
    cases ms with
    | nil => exact absurd (Or.inl rfl) h
    | cons _ _ => rfl
  have h2 : ¬ Spec.validCount ms < mc := fun h' => h (Or.inr h')
  simp [Spec.slot, h1, h2]

theorem argSlot_isSome (k : Kernel) (mc : Nat) (uf : Option Val) (pos : List Nat) (ms : List Val)
    (h : ¬ NeedsFill mc ms) : (Spec.argSlot k mc uf pos ms).isSome = true := by
  unfold NeedsFill at h
  have h1 : ms.isEmpty = false := by
    cases ms with
    | nil => exact absurd (Or.inl rfl) h
    | cons _ _ => rfl
  have h2 : ¬ Spec.validCount ms < mc := fun h' => h (Or.inr h')
  unfold Spec.argSlot
  simp only [h1, Bool.false_eq_true, if_false, h2]
  split <;> rfl

theorem slotAt_needsFill (k : Kernel) (mc : Nat) (uf : Option Val) (codes : List Int) (vals : List Val) (g : Nat)
    (h : NeedsFill mc (members (Int.ofNat g) codes vals)) : slotAt k mc uf codes vals g = uf := by
  unfold slotAt
  split
  · exact argSlot_needsFill k mc uf _ _ h
  · exact slot_needsFill k mc uf _ h

theorem slotAt_value (k : Kernel) (mc : Nat) (uf : Option Val) (codes : List Int) (vals : List Val) (g : Nat)
    (hk : Spec.isArg k = false) (h : ¬ NeedsFill mc (members (Int.ofNat g) codes vals)) :
    slotAt k mc uf codes vals g = some (kEval k (members (Int.ofNat g) codes vals)) := by
  unfold slotAt
  rw [if_neg (by simp [hk])]
  exact slot_value k mc uf _ h

theorem slotAt_isSome_of_not_needsFill (k : Kernel) (mc : Nat) (uf : Option Val) (codes : List Int) (vals : List Val)
    (g : Nat) (h : ¬ NeedsFill mc (members (Int.ofNat g) codes vals)) :
    (slotAt k mc uf codes vals g).isSome = true := by
  unfold slotAt
  split
  · exact argSlot_isSome k mc uf _ _ h
  · rw [slot_value k mc uf _ h]; rfl

/-! ### `Spec.reduce` -/

theorem reduce_length (k : Kernel) (mc : Nat) (uf : Option Val) (codes : List Int) (vals : List Val) (n : Nat)
    (vs : List Val) (h : Spec.reduce k mc uf codes vals n = some vs) : vs.length = n := by
  rw [reduce_eq] at h
  simpa using mapM_length _ _ _ h

theorem reduce_getElem? (k : Kernel) (mc : Nat) (uf : Option Val) (codes : List Int) (vals : List Val) (n : Nat)
    (vs : List Val) (h : Spec.reduce k mc uf codes vals n = some vs) (g : Nat) (hg : g < n) :
    vs[g]? = slotAt k mc uf codes vals g := by
  rw [reduce_eq] at h
  have := mapM_getElem? _ _ _ h g (by simpa using hg)
  simpa using this

theorem reduce_eq_none_iff (k : Kernel) (mc : Nat) (uf : Option Val) (codes : List Int) (vals : List Val) (n : Nat) :
    Spec.reduce k mc uf codes vals n = none
      ↔ uf = none ∧ ∃ g, g < n ∧ NeedsFill mc (members (Int.ofNat g) codes vals) := by
  rw [reduce_eq, mapM_eq_none_iff]
  constructor
  · rintro ⟨g, hg, hs⟩
    have hg' : g < n := by simpa using hg
    by_cases hn : NeedsFill mc (members (Int.ofNat g) codes vals)
    · rw [slotAt_needsFill k mc uf codes vals g hn] at hs
      exact ⟨hs, g, hg', hn⟩
    · have := slotAt_isSome_of_not_needsFill k mc uf codes vals g hn
      rw [hs] at this; cases this
  · rintro ⟨hu, g, hg, hn⟩
    exact ⟨g, by simpa using hg, by rw [slotAt_needsFill k mc uf codes vals g hn, hu]⟩

/-! ### dropped elements -/

theorem members_filter (P : Int → Bool) (g : Int) (hg : P g = true) (codes : List Int) (vals : List Val) :
    members g (((codes.zip vals).filter fun p => P p.1).map (·.1))
        (((codes.zip vals).filter fun p => P p.1).map (·.2)) = members g codes vals := by
  induction codes generalizing vals with
  | nil => simp
  | cons c cs ih =>
    cases vals with
    | nil => simp
    | cons v vs =>
      simp only [List.zip_cons_cons, List.filter_cons, members_cons]
      by_cases hc : P c = true
      · simp only [hc, if_true, List.map_cons, members_cons, ih vs]
      · have hne : c ≠ g := by
          intro e; subst e; exact hc hg
        simp only [hc, Bool.false_eq_true, if_false, hne, ih vs]

/-- keep only the elements whose code is in `0..n-1` -/
def keepRequested (n : Nat) (codes : List Int) (vals : List Val) : List (Int × Val) :=
  (codes.zip vals).filter fun p => decide (0 ≤ p.1 ∧ p.1 < (n : Int))

theorem mapM_congr {α β} (f g : α → Option β) (l : List α) (h : ∀ a ∈ l, f a = g a) : l.mapM f = l.mapM g := by
  induction l with
  | nil => rfl
  | cons a l ih =>
    rw [mapM_cons, mapM_cons, h a (by simp), ih (fun b hb => h b (by simp [hb]))]

theorem reduce_keepRequested (k : Kernel) (hk : Spec.isArg k = false) (mc : Nat) (uf : Option Val)
    (codes : List Int) (vals : List Val) (n : Nat) :
    Spec.reduce k mc uf ((keepRequested n codes vals).map (·.1)) ((keepRequested n codes vals).map (·.2)) n
      = Spec.reduce k mc uf codes vals n := by
  rw [reduce_eq, reduce_eq]
  apply mapM_congr
  intro g hg
  have hg' : g < n := by simpa using hg
  have hP : (fun c : Int => decide (0 ≤ c ∧ c < (n : Int))) (Int.ofNat g) = true := by
    simp only [Int.ofNat_eq_natCast, decide_eq_true_eq]
    omega
  simp only [slotAt, hk, Bool.false_eq_true, if_false, keepRequested]
  rw [members_filter (fun c : Int => decide (0 ≤ c ∧ c < (n : Int))) (Int.ofNat g) hP codes vals]

/-! ### the entry point returns the requested labels -/

/-- when the labels are known at graph-construction time, the labels `run` returns are exactly those of
    `factorizeLabels` (the requested ones when `expected_groups` is given), whatever the plan and the data -/
theorem run_groups (rows : List InitRow) (rq : Request) (plan : Plan) (chunks : List Nat) (labels : List Key)
    (vals : List Val) (gs : List Key) (vs : List Val) (hk : rq.known = true)
    (h : run rows rq plan chunks labels vals = .ok gs vs) :
    gs = (factorizeLabels labels rq.expected rq.sort).1.map some := by
  unfold run at h
  simp only [hk, if_true] at h
  split at h
  · cases h
  · split at h
    · cases h
    · split at h
      · cases h
      · split at h
        · simp only [Outcome.ok.injEq] at h
          exact h.1.symm
        · cases h

end SpecL
end Flox
