/-
  The registry tie of C04: every built-in blueprint of the live `flox.aggregations.AGGREGATIONS`
  (`Generated.registry`, regenerated on every run) that has a chunk function is one of the proven families, and
  `_initialize_aggregation` (`Generated.initRows`) resolves its sentinel fills to the values the proofs use.

  Families (each with its law):
  * `column k c f`   – one intermediate column, no finalizer; law `combine_parts` (`(k, c, f) ∈ floatColumns`),
  * `mean nan`       – `(sum|nansum, nanlen)` combined with `(sum, sum)`, fills `(0, 0)`, `_mean_finalize`;
                       laws: the two column laws + `mean_finalize` / `nanmean_finalize`,
  * `var nan std`    – `(sum_of_squares, sum, nanlen)` (or the nan-variants) / `(sum, sum, sum)` / `(0,0,0)`,
                       `_var_finalize` | `_std_finalize`; laws: three column laws + `var_finalize` / `nanvar_finalize`,
  * `arg k`          – (value, index) pairs combined by the grouped combine, `_pick_second`; pair law,
  * blueprints without a chunk function (`first`, `last`, `median`, `quantile`, `mode`, …) are blockwise-only:
    no combine, no finalizer – nothing to decompose.

  Everything here is evaluated by the kernel (`decide +kernel`) on the generated tables; an edit of a blueprint in
  /repo (combine "sum" → "max", fill 0 → 1, `_var_finalize` → something else, a new aggregation) changes the tables
  and makes these theorems fail to check.
-/
import FloxModel.Generated.Registry
import FloxModel.Generated.Initialized
import FloxModel.Blueprint

namespace Flox

/-! ### the hand-written table of proven blueprints -/

inductive AggFamily where
  | column (k c : Kernel) (fill : String)
  | mean (nan : Bool)
  | var (nan : Bool) (std : Bool)
  | arg (k : Kernel)
deriving DecidableEq, Repr

/-- registry text of an intermediate fill ↦ what `_get_fill_value` makes of it for a floating dtype -/
def floatFill : String → Option Val
  | "0" => some Val.zero
  | "1" => some Val.one
  | "NINF" => some Val.ninf
  | "INF" => some Val.pinf
  | "NA" => some Val.nan
  | _ => none

/-- the same resolution on the text level (how the resolved fill is printed in `Generated.initRows`) -/
def floatFillText : String → String
  | "NINF" => "-inf"
  | "INF" => "inf"
  | "NA" => "nan"
  | s => s

/-- the Python name of a kernel in the registry -/
def Kernel.pyName : Kernel → String
  | .sum => "sum" | .nansum => "nansum" | .prod => "prod" | .nanprod => "nanprod"
  | .max => "max" | .nanmax => "nanmax" | .min => "min" | .nanmin => "nanmin"
  | .nanlen => "nanlen" | .len => "len" | .sumsq => "sum_of_squares" | .nansumsq => "nansum_of_squares"
  | .all => "all" | .any => "any" | .first => "first" | .last => "last"
  | .nanfirst => "nanfirst" | .nanlast => "nanlast" | .mean => "mean" | .nanmean => "nanmean"
  | .var _ => "var" | .nanvar _ => "nanvar"
  | .argmax => "argmax" | .argmin => "argmin" | .nanargmax => "nanargmax" | .nanargmin => "nanargmin"

/-- the declarative core of a blueprint: (numpy, chunk, combine, intermediate fills, finalize, reduction type) -/
structure Core where
  numpy : List String
  chunk : List String
  combine : List String
  fills : List String
  finalize : String
  reductionType : String
deriving DecidableEq, Repr

def RegistryRow.core (b : RegistryRow) : Core :=
  { numpy := b.numpy, chunk := b.chunk, combine := b.combine, fills := b.fills, finalize := b.finalize,
    reductionType := b.reductionType }

/-- value / index kernels of an arg-reduction blueprint: chunk `(max, argmax)` …, combined with the same pair;
    the NaN-skipping ones are combined with the NaN-skipping kernels and use NaN as the value fill -/
def argValueKernel : Kernel → Kernel
  | .argmax => .max | .argmin => .min | .nanargmax => .nanmax | .nanargmin => .nanmin | k => k

def argValueFill : Kernel → String
  | .argmax => "NINF" | .argmin => "INF" | _ => "NA"

/-- the text a blueprint of the family must have; `numpyName` is the registry key
    (the NumPy-level reduction the family computes) -/
def AggFamily.core (key : String) : AggFamily → Core
  | .column k c f =>
    { numpy := [if key = "count" then "nanlen" else key], chunk := [k.pyName], combine := [c.pyName], fills := [f],
      finalize := "None", reductionType := "reduce" }
  | .mean nan =>
    { numpy := [key], chunk := [if nan then "nansum" else "sum", "nanlen"], combine := ["sum", "sum"],
      fills := ["0", "0"], finalize := "_mean_finalize", reductionType := "reduce" }
  | .var nan std =>
    { numpy := [key],
      chunk := if nan then ["nansum_of_squares", "nansum", "nanlen"] else ["sum_of_squares", "sum", "nanlen"],
      combine := ["sum", "sum", "sum"], fills := ["0", "0", "0"],
      finalize := if std then "_std_finalize" else "_var_finalize", reductionType := "reduce" }
  | .arg k =>
    { numpy := [key], chunk := [(argValueKernel k).pyName, k.pyName],
      combine := [(argValueKernel k).pyName, k.pyName], fills := [argValueFill k, "0"],
      finalize := "_pick_second", reductionType := "argreduce" }

/-- well-formedness = the family's law is available: a column must be one of `floatColumns` and the column's chunk
    kernel must be the NumPy kernel named by the key; an arg family must be one of the four arg kernels -/
def AggFamily.wf (key : String) : AggFamily → Bool
  | .column k c f =>
    (match floatFill f with
      | some v => decide ((k, c, v) ∈ floatColumns)
      | none => false)
    && k.pyName == (if key = "count" then "nanlen" else key)
  | .mean nan => key == (if nan then "nanmean" else "mean")
  | .var nan std => key == (if nan then "nan" else "") ++ (if std then "std" else "var")
  | .arg k => (k == .argmax || k == .argmin || k == .nanargmax || k == .nanargmin) && k.pyName == key

/-- **the proven blueprints** (registry key ↦ family) -/
def provenBlueprints : List (String × AggFamily) :=
  [ ("any", .column .any .any "0"), ("all", .column .all .all "1"), ("count", .column .nanlen .sum "0"),
    ("sum", .column .sum .sum "0"), ("nansum", .column .nansum .sum "0"),
    ("prod", .column .prod .prod "1"), ("nanprod", .column .nanprod .prod "1"),
    ("mean", .mean false), ("nanmean", .mean true),
    ("var", .var false false), ("nanvar", .var true false), ("std", .var false true), ("nanstd", .var true true),
    ("max", .column .max .max "NINF"), ("nanmax", .column .nanmax .nanmax "NINF"),
    ("min", .column .min .min "INF"), ("nanmin", .column .nanmin .nanmin "INF"),
    ("argmax", .arg .argmax), ("nanargmax", .arg .nanargmax), ("argmin", .arg .argmin), ("nanargmin", .arg .nanargmin),
    ("nanfirst", .column .nanfirst .nanfirst "NA"), ("nanlast", .column .nanlast .nanlast "NA") ]

/-- the finalizers that have a proof (`None` = identity on the single intermediate) -/
def provenFinalizers : List String := ["None", "_mean_finalize", "_var_finalize", "_std_finalize", "_pick_second"]

def hasChunk (b : RegistryRow) : Bool := b.chunk != ["None"]

/-- what is checked of one registry entry -/
def blueprintProven (b : RegistryRow) : Bool :=
  if hasChunk b then
    match provenBlueprints.lookup b.key with
    | some fam => fam.wf b.key && decide (b.core = fam.core b.key) && b.name == b.key
        && provenFinalizers.contains b.finalize
    | none => false
  else
    -- blockwise-only blueprints: no combine, no finalizer, no intermediate to decompose
    b.combine == ["None"] && b.finalize == "None" && b.reductionType == "reduce"

/-! ### the resolved fills (`_initialize_aggregation`) -/

/-- count column appended by `_initialize_aggregation` when `min_count > 0` -/
def withCount (l : List String) (x : String) (cnt : Bool) : List String := if cnt then l ++ [x] else l

/-- a float row of the `_initialize_aggregation` table agrees with blueprint `b`: same chunk / combine kernels
    (plus the count column), the sentinel fills resolved to ∓inf / NaN, the same finalizer, and `simple_combine`
    consists of the functions named by `combine` -/
def floatRowMatches (b : RegistryRow) (r : InitRow) : Bool :=
  [false, true].any fun cnt =>
    r.chunk == withCount b.chunk "nanlen" cnt && r.combine == withCount b.combine "sum" cnt
      && r.interFills == withCount (b.fills.map floatFillText) "0" cnt
      && r.simple == r.combine && r.finalize == b.finalize && r.isArg == (b.reductionType == "argreduce")

def floatKinds : List String := ["f8", "f4"]

def floatRowsProven (b : RegistryRow) : Bool :=
  Generated.initRows.all fun r =>
    !(r.func == b.key && floatKinds.contains r.dkind) || (r.ok && floatRowMatches b r)

/-- every float row exists: 2 dtypes × 4 fill kinds × 2 min_count settings per blueprint -/
def floatRowsCount (b : RegistryRow) : Nat :=
  (Generated.initRows.filter fun r => r.func == b.key && floatKinds.contains r.dkind).length

/-! ### integer dtypes: the fills of max / min are bounds of the data -/

/-- value range of an array dtype -/
def dkRange : String → Option (Int × Int)
  | "i8" => some (-9223372036854775808, 9223372036854775807)
  | "i4" => some (-2147483648, 2147483647)
  | "i2" => some (-32768, 32767)
  | "i1" => some (-128, 127)
  | "u1" => some (0, 255)
  | _ => none

/-- the integer fill literals that occur in the table -/
def intLit : String → Option Int
  | "-9223372036854775808" => some (-9223372036854775808)
  | "9223372036854775807" => some 9223372036854775807
  | "-2147483648" => some (-2147483648)
  | "2147483647" => some 2147483647
  | "-32768" => some (-32768)
  | "32767" => some 32767
  | "-128" => some (-128)
  | "127" => some 127
  | "4294967295" => some 4294967295
  | "0" => some 0
  | "255" => some 255
  | _ => none

def maxFamily : List String := ["max", "nanmax"]
def minFamily : List String := ["min", "nanmin"]

/-- the intermediate fill of the value column is −inf or an integer ≤ every value of the array dtype
    (resp. +inf or ≥ every value) -/
def intRowBounded (r : InitRow) : Bool :=
  match dkRange r.dkind, r.interFills.head? with
  | some (lo, hi), some f =>
    if maxFamily.contains r.func then
      f == "-inf" || (match intLit f with | some m => decide (m ≤ lo) | none => false)
    else if minFamily.contains r.func then
      f == "inf" || (match intLit f with | some m => decide (hi ≤ m) | none => false)
    else true
  | none, _ => true
  | _, none => false

def intRowsBounded : Bool :=
  Generated.initRows.all fun r => !(r.ok && (maxFamily.contains r.func || minFamily.contains r.func)) || intRowBounded r

/-! ### the checks, evaluated by the kernel on the generated tables -/

theorem registry_all_proven : Generated.registry.all blueprintProven = true := by decide +kernel

theorem registry_float_rows_proven : (Generated.registry.filter hasChunk).all floatRowsProven = true := by
  decide +kernel

theorem registry_float_rows_exist :
    (Generated.registry.filter hasChunk).all (fun b => floatRowsCount b == 20) = true := by decide +kernel

theorem registry_int_rows_bounded : intRowsBounded = true := by decide +kernel

/-- 23 blueprints have a chunk function, 8 are blockwise-only -/
theorem registry_counts :
    (Generated.registry.filter hasChunk).length = 23 ∧ (Generated.registry.filter (fun b => !hasChunk b)).length = 8 := by
  decide +kernel

end Flox
