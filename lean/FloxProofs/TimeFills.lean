import FloxModel.TimeFills
import FloxModel.Generated.TimeFills
/-!
  Table theorems over the regenerated fills of the time dtypes (C06 first/last family, C05 fills).
-/
namespace Flox.TimeFills
open Flox Flox.Generated

/-- in every row of the regenerated table the missing-value sentinel resolves to NaT -/
theorem all_na_is_nat : timeFillRows.all TimeFillRow.naIsNaT = true := by decide +kernel

theorem all_inf_is_value : timeFillRows.all TimeFillRow.infIsValue = true := by decide +kernel

/-- the table covers both time dtypes of every reduction of the registry it lists, and is not empty -/
theorem table_shape : timeFillRows.length % 2 = 0 ∧ 40 ≤ timeFillRows.length ∧
    (timeFillRows.filter (·.dkind == "m8")).length = (timeFillRows.filter (·.dkind == "M8")).length := by decide +kernel

/-- unpacked: for every accepted row and every position, blueprint "NA" ⇒ resolved "NaT" -/
theorem na_is_nat (r : TimeFillRow) (hr : r ∈ timeFillRows) (hok : r.ok = true) (i : Nat) (b x : String)
    (hb : r.blueprint[i]? = some b) (hx : r.resolved[i]? = some x) (hna : b = "NA") : x = "NaT" := by
  have h := List.all_eq_true.mp all_na_is_nat r hr
  unfold TimeFillRow.naIsNaT at h
  simp only [hok, Bool.not_true, Bool.false_or, Bool.and_eq_true, beq_iff_eq, List.all_eq_true] at h
  have hz : (b, x) ∈ r.blueprint.zip r.resolved := by
    have hi : i < r.blueprint.length := by
      rcases Nat.lt_or_ge i r.blueprint.length with h' | h'
      · exact h'
      · rw [List.getElem?_eq_none_iff.mpr h'] at hb; cases hb
    have hi' : i < r.resolved.length := h.1 ▸ hi
    have : (r.blueprint.zip r.resolved)[i]? = some (b, x) := by
      rw [List.getElem?_zip_eq_some]; exact ⟨hb, hx⟩
    exact List.mem_of_getElem? this
  have := h.2 (b, x) hz
  simp only [hna, bne_self_eq_false, Bool.false_or, beq_iff_eq] at this
  exact this

end Flox.TimeFills
