/-
  List-level lemmas for the `.blockwise` plan of `runKnown`:

  * `uniqSorted` / `uniqFirst` (the label lists `pd.factorize(sort=…)` / `_unique` / `pd.unique` deliver):
    membership, duplicate-freeness, strict ascent of `uniqSorted`;
  * `indexOf?`, `lookupKey` (pandas `get_indexer`) on duplicate-free lists;
  * `reindexCol` as a slot-by-slot `mapM`;
  * `List.mapM` in `Except String` when the only error is `"ValueError"`;
  * `splitBy` pieces.
-/
import FloxProofs.EndToEnd

namespace Flox
namespace BW

/-! ### `insertSorted`, `uniqSorted` -/

theorem mem_insertSorted (x y : Rat) (l : List Rat) : y ∈ insertSorted x l ↔ y = x ∨ y ∈ l := by
  induction l with
  | nil => simp [insertSorted]
  | cons z zs ih =>
    simp only [insertSorted]
    split
    · simp
    · split
      · subst_vars; simp
      · simp only [List.mem_cons, ih]
        constructor
        · rintro (h | h | h) <;> simp [h]
        · rintro (h | h | h) <;> simp [h]

theorem mem_uniqSorted (y : Rat) (xs : List Rat) : y ∈ uniqSorted xs ↔ y ∈ xs := by
  induction xs with
  | nil => simp [uniqSorted]
  | cons x xs ih =>
    have : uniqSorted (x :: xs) = insertSorted x (uniqSorted xs) := rfl
    rw [this, mem_insertSorted, ih]
    simp

/-- strictly ascending -/
abbrev StrictAsc (l : List Rat) : Prop := l.Pairwise (· < ·)

theorem insertSorted_strictAsc (x : Rat) (l : List Rat) (h : StrictAsc l) : StrictAsc (insertSorted x l) := by
  induction l with
  | nil => simp [insertSorted, StrictAsc]
  | cons z zs ih =>
    have hz := List.pairwise_cons.mp h
    simp only [insertSorted]
    split
    · rename_i hxz
      apply List.pairwise_cons.mpr
      refine ⟨?_, h⟩
      intro a ha
      rcases List.mem_cons.mp ha with rfl | ha
      · exact hxz
      · have := hz.1 a ha
        grind
    · split
      · exact h
      · rename_i h1 h2
        apply List.pairwise_cons.mpr
        refine ⟨?_, ih hz.2⟩
        intro a ha
        rcases (mem_insertSorted x a zs).mp ha with rfl | ha
        · grind
        · exact hz.1 a ha

theorem uniqSorted_strictAsc (xs : List Rat) : StrictAsc (uniqSorted xs) := by
  induction xs with
  | nil => simp [uniqSorted, StrictAsc]
  | cons x xs ih => exact insertSorted_strictAsc x _ ih

theorem StrictAsc.nodup {l : List Rat} (h : StrictAsc l) : l.Nodup := by
  apply List.Pairwise.imp _ h
  intro a b hab
  grind

theorem uniqSorted_nodup (xs : List Rat) : (uniqSorted xs).Nodup := (uniqSorted_strictAsc xs).nodup

/-! ### `uniqFirst` -/

theorem uniqFirst_go (xs acc : List Rat) (hacc : acc.Nodup) :
    (xs.foldl (fun acc x => if acc.contains x then acc else acc ++ [x]) acc).Nodup
    ∧ ∀ y, y ∈ xs.foldl (fun acc x => if acc.contains x then acc else acc ++ [x]) acc ↔ y ∈ acc ∨ y ∈ xs := by
  induction xs generalizing acc with
  | nil => simp [hacc]
  | cons x xs ih =>
    simp only [List.foldl_cons]
    by_cases hx : x ∈ acc
    · have hc : acc.contains x = true := List.contains_iff_mem.mpr hx
      simp only [hc, if_true]
      obtain ⟨h1, h2⟩ := ih acc hacc
      refine ⟨h1, ?_⟩
      intro y
      rw [h2 y]
      simp only [List.mem_cons]
      constructor
      · rintro (h | h)
        · exact Or.inl h
        · exact Or.inr (Or.inr h)
      · rintro (h | h | h)
        · exact Or.inl h
        · subst h; exact Or.inl hx
        · exact Or.inr h
    · have hc : acc.contains x = false := by
        cases hcc : acc.contains x with
        | false => rfl
        | true => exact absurd (List.contains_iff_mem.mp hcc) hx
      simp only [hc, Bool.false_eq_true, if_false]
      have hnd : (acc ++ [x]).Nodup := by
        rw [List.nodup_append]
        refine ⟨hacc, by simp, ?_⟩
        intro a ha b hb
        simp only [List.mem_singleton] at hb
        subst hb
        intro e
        subst e
        exact hx ha
      obtain ⟨h1, h2⟩ := ih (acc ++ [x]) hnd
      refine ⟨h1, ?_⟩
      intro y
      rw [h2 y]
      simp only [List.mem_append, List.mem_cons, List.not_mem_nil, or_false]
      constructor
      · rintro ((h | h) | h)
        · exact Or.inl h
        · exact Or.inr (Or.inl h)
        · exact Or.inr (Or.inr h)
      · rintro (h | h | h)
        · exact Or.inl (Or.inl h)
        · exact Or.inl (Or.inr h)
        · exact Or.inr h

theorem uniqFirst_nodup (xs : List Rat) : (uniqFirst xs).Nodup := (uniqFirst_go xs [] List.nodup_nil).1

theorem mem_uniqFirst (y : Rat) (xs : List Rat) : y ∈ uniqFirst xs ↔ y ∈ xs := by
  have := (uniqFirst_go xs [] List.nodup_nil).2 y
  simpa [uniqFirst] using this

/-! ### `indexOf?` -/

theorem indexOf?_eq_some_iff (x : Rat) (l : List Rat) (hnd : l.Nodup) (i : Nat) (hi : i < l.length) :
    indexOf? x l = some i ↔ x = l[i] := by
  induction l generalizing i with
  | nil => simp at hi
  | cons y ys ih =>
    have hy := List.nodup_cons.mp hnd
    simp only [indexOf?]
    by_cases hxy : x = y
    · subst hxy
      simp only [if_true, Option.some.injEq]
      cases i with
      | zero => simp
      | succ j =>
        simp only [List.getElem_cons_succ]
        constructor
        · intro h; omega
        · intro h
          exfalso
          apply hy.1
          rw [h]
          exact List.getElem_mem _
    · simp only [hxy, if_false]
      cases i with
      | zero =>
        simp only [List.getElem_cons_zero, hxy, iff_false]
        cases indexOf? x ys <;> simp
      | succ j =>
        simp only [List.getElem_cons_succ]
        have hj : j < ys.length := by simpa using hi
        rw [← ih hy.2 j hj]
        cases indexOf? x ys <;> simp

theorem indexOf?_isSome_of_mem (x : Rat) (l : List Rat) (h : x ∈ l) : ∃ i, i < l.length ∧ indexOf? x l = some i := by
  induction l with
  | nil => simp at h
  | cons y ys ih =>
    simp only [indexOf?]
    by_cases hxy : x = y
    · exact ⟨0, by simp, by simp [hxy]⟩
    · have : x ∈ ys := by
        rcases List.mem_cons.mp h with h | h
        · exact absurd h hxy
        · exact h
      obtain ⟨i, hi, he⟩ := ih this
      exact ⟨i + 1, by simpa using hi, by simp [hxy, he]⟩

/-! ### `lookupKey` on the keys of a list of (key, value) pairs -/

theorem lookupKey_none (k : Key) (l : List (Key × Val)) (h : ∀ p ∈ l, p.1 ≠ k) :
    lookupKey k (l.map (·.1)) = none := by
  induction l with
  | nil => rfl
  | cons p ps ih =>
    have hp := h p (by simp)
    simp only [List.map_cons, lookupKey, hp, if_false, ih (fun q hq => h q (by simp [hq]))]
    rfl

theorem lookupKey_some (k : Key) (v : Val) (l : List (Key × Val)) (hex : ∃ p ∈ l, p.1 = k)
    (hv : ∀ p ∈ l, p.1 = k → p.2 = v) :
    ∃ i, lookupKey k (l.map (·.1)) = some i ∧ (l.map (·.2)).getD i Val.nan = v := by
  induction l with
  | nil => simp at hex
  | cons p ps ih =>
    by_cases hp : p.1 = k
    · exact ⟨0, by simp [lookupKey, hp], by simpa using hv p (by simp) hp⟩
    · have hex' : ∃ q ∈ ps, q.1 = k := by
        obtain ⟨q, hq, hqk⟩ := hex
        rcases List.mem_cons.mp hq with rfl | hq
        · exact absurd hqk hp
        · exact ⟨q, hq, hqk⟩
      obtain ⟨i, hi, hiv⟩ := ih hex' (fun q hq => hv q (by simp [hq]))
      refine ⟨i + 1, by simp [lookupKey, hp, hi], ?_⟩
      simpa using hiv

/-! ### `List.mapM` in `Option` and in `Except String` -/

theorem mapM_option_cons {α β} (f : α → Option β) (a : α) (l : List α) :
    (a :: l).mapM f = (match f a with
      | none => none
      | some b => match l.mapM f with
        | none => none
        | some bs => some (b :: bs)) := by
  rw [List.mapM_cons]
  cases f a <;> simp
  cases l.mapM f <;> rfl

theorem mapM_option_congr {α β} (f g : α → Option β) (l : List α) (h : ∀ a ∈ l, f a = g a) :
    l.mapM f = l.mapM g := by
  induction l with
  | nil => rfl
  | cons a l ih =>
    rw [mapM_option_cons, mapM_option_cons, h a (by simp), ih (fun b hb => h b (by simp [hb]))]

theorem mapM_option_some {α β} (f : α → β) (l : List α) : l.mapM (fun a => some (f a)) = some (l.map f) := by
  induction l with
  | nil => rfl
  | cons a l ih => rw [mapM_option_cons, ih]; rfl

/-- a computation whose only possible error is flox's `ValueError` -/
def VE {α} (x : Except String α) : Prop := ∀ e, x = .error e → e = "ValueError"

theorem mapM_except_error {α β} (f : α → Except String β) (l : List α) (hve : ∀ a ∈ l, VE (f a))
    (hex : ∃ a ∈ l, ∃ e, f a = .error e) : l.mapM f = .error "ValueError" := by
  induction l with
  | nil => simp at hex
  | cons a l ih =>
    rw [mapM_except_cons]
    cases hfa : f a with
    | error e =>
      have := hve a (by simp) e hfa
      subst this
      rfl
    | ok b =>
      have hex' : ∃ a' ∈ l, ∃ e, f a' = .error e := by
        obtain ⟨a', ha', e, he⟩ := hex
        rcases List.mem_cons.mp ha' with rfl | ha'
        · rw [hfa] at he; cases he
        · exact ⟨a', ha', e, he⟩
      simp only [ih (fun b hb => hve b (by simp [hb])) hex']

theorem mapM_except_all_ok {α β} (f : α → Except String β) (g : α → β) (l : List α)
    (h : ∀ a ∈ l, f a = .ok (g a)) : l.mapM f = .ok (l.map g) := by
  rw [mapM_except_congr f (fun a => .ok (g a)) l h, mapM_except_ok]

/-- either every element succeeds or some element fails -/
theorem all_ok_or_error {α β} (f : α → Except String β) (l : List α) :
    (∀ a ∈ l, ∃ b, f a = .ok b) ∨ (∃ a ∈ l, ∃ e, f a = .error e) := by
  induction l with
  | nil => left; simp
  | cons a l ih =>
    cases hfa : f a with
    | error e => right; exact ⟨a, by simp, e, hfa⟩
    | ok b =>
      rcases ih with h | ⟨a', ha', e, he⟩
      · left
        intro x hx
        rcases List.mem_cons.mp hx with rfl | hx
        · exact ⟨b, hfa⟩
        · exact h x hx
      · right; exact ⟨a', by simp [ha'], e, he⟩

/-! ### `reindexCol`, slot by slot -/

/-- one slot of `reindex_`: the value stored under the label, else the fill, else `ValueError` -/
def reindexSlot (col : List Val) (from_ : List Key) (fill : Option Val) (g : Key) : Option Val :=
  match lookupKey g from_ with
  | some i => some (col.getD i Val.nan)
  | none => fill

theorem reindexCol_self (col : List Val) (to : List Key) (fill : Option Val) (hnd : to.Nodup)
    (hlen : col.length = to.length) : to.mapM (reindexSlot col to fill) = some col := by
  induction to generalizing col with
  | nil =>
    have : col = [] := List.length_eq_zero_iff.mp hlen
    subst this; rfl
  | cons h t ih =>
    cases col with
    | nil => simp at hlen
    | cons c cs =>
      have hh := List.nodup_cons.mp hnd
      rw [mapM_option_cons]
      have h0 : reindexSlot (c :: cs) (h :: t) fill h = some c := by simp [reindexSlot, lookupKey]
      have hrest : t.mapM (reindexSlot (c :: cs) (h :: t) fill) = t.mapM (reindexSlot cs t fill) := by
        apply mapM_option_congr
        intro g hg
        have hne : ¬ h = g := fun e => hh.1 (e ▸ hg)
        simp only [reindexSlot, lookupKey, hne, if_false]
        cases lookupKey g t <;> simp
      rw [h0, hrest, ih cs hh.2 (by simpa using hlen)]

theorem reindexCol_eq_mapM (col : List Val) (from_ to : List Key) (fill : Option Val) (hne : from_ ≠ [])
    (hnd : to.Nodup) (hlen : col.length = from_.length) :
    reindexCol col from_ to fill = to.mapM (reindexSlot col from_ fill) := by
  unfold reindexCol
  have : from_.isEmpty = false := by simpa using hne
  simp only [this, Bool.false_eq_true, if_false]
  split
  · rename_i heq
    subst heq
    exact (reindexCol_self col from_ fill hnd hlen).symm
  · rfl

theorem rangeKeys_nodup (n : Nat) : (rangeKeys n).Nodup := by
  unfold rangeKeys
  rw [List.Nodup, List.pairwise_map]
  refine List.Pairwise.imp ?_ (List.nodup_range (n := n))
  intro a b hab e
  simp only [Option.some.injEq] at e
  exact hab (Rat.natCast_inj.mp e)

/-! ### `splitBy` pieces -/

theorem splitBy_piece_length {α} (chunks : List Nat) (xs : List α) (h : chunks.sum ≤ xs.length) :
    (splitBy chunks xs).map List.length = chunks := by
  induction chunks generalizing xs with
  | nil => rfl
  | cons n ns ih =>
    simp only [List.sum_cons] at h
    simp only [splitBy, List.map_cons, List.length_take]
    rw [ih (xs.drop n) (by simp only [List.length_drop]; omega)]
    congr 1
    omega

theorem splitBy_piece_ne_nil {α} (chunks : List Nat) (xs : List α) (h : chunks.sum ≤ xs.length)
    (hpos : ∀ n ∈ chunks, 0 < n) : ∀ b ∈ splitBy chunks xs, b ≠ [] := by
  intro b hb hnil
  have hl := splitBy_piece_length chunks xs h
  have : b.length ∈ (splitBy chunks xs).map List.length := List.mem_map.mpr ⟨b, hb, rfl⟩
  rw [hl] at this
  have := hpos _ this
  simp [hnil] at this

end BW
end Flox
