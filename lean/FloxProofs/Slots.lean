/-
  Per-slot semantics of the eager path and of the map-reduce path (dense blocks + simple combine + finalizer),
  and their agreement with the specification slot `Spec.slot`.
-/
import FloxProofs.Finish
import FloxProofs.ShapeLemmas
import FloxProofs.Columns
import FloxProofs.Finalize
import FloxProofs.EngineFloxCorrect

namespace Flox

/-! ### definitions -/

/-- the stored count of valid members (`nanlen` column, fill 0) -/
def countVal (ms : List Val) : Val := blockVal .nanlen Val.zero ms

/-- what `runKnown … .eager` puts into the slot of a group with member list `ms` -/
def eagerSlot (R : Resolved) (ms : List Val) : Except String Val :=
  maskedSlot R (countVal ms) (blockVal (R.numpy.headD default) R.npFill ms)

/-- the finalized value the map-reduce path computes from the combined intermediates of a group -/
def Shape.mrVal (s : Shape) (ms : List Val) : Val :=
  match s with
  | .simple k _ f => blockVal k f ms
  | .mean false => Val.div (blockVal .sum Val.zero ms) (blockVal .nanlen Val.zero ms)
  | .mean true => Val.div (blockVal .nansum Val.zero ms) (blockVal .nanlen Val.zero ms)
  | .var false d =>
      onepass d (blockVal .sumsq Val.zero ms) (blockVal .sum Val.zero ms) (blockVal .nanlen Val.zero ms)
  | .var true d =>
      onepass d (blockVal .nansumsq Val.zero ms) (blockVal .nansum Val.zero ms) (blockVal .nanlen Val.zero ms)

/-- what `runKnown … (.mapreduce true)` puts into the slot of a group with member list `ms` -/
def mrSlot (R : Resolved) (s : Shape) (ms : List Val) : Except String Val :=
  maskedSlot R (countVal ms) (s.mrVal ms)

/-- the specification slot, with `none` read as flox's `ValueError` -/
def specSlot (R : Resolved) (k : Kernel) (ms : List Val) : Except String Val :=
  optToExcept (Spec.slot k R.minCount R.userFill ms)

/-! ### the named hypotheses -/

/-- (H_absent) a requested label without any member gets the user's fill only through the count mask -/
def HAbsent (R : Resolved) (ms : List Val) : Prop := R.minCount ≥ 1 ∨ ms ≠ []

/-- (H_allnan) NaN-skipping kernels whose all-NaN value is the NumPy fill: that fill must be NaN unless the count
    mask is on -/
def HAllNaN (R : Resolved) (s : Shape) : Prop := s.needsNaNFill = true → R.minCount ≥ 1 ∨ R.npFill = Val.nan

/-- (H_minmax) `nanmax` / `nanmin` intermediates hold ∓inf for an all-NaN group: the count mask must be on -/
def HMinMax (R : Resolved) (s : Shape) : Prop := s.isNanMinMax = true → R.minCount ≥ 1

instance (R : Resolved) (ms : List Val) : Decidable (HAbsent R ms) := by unfold HAbsent; infer_instance
instance (R : Resolved) (s : Shape) : Decidable (HAllNaN R s) := by unfold HAllNaN; infer_instance
instance (R : Resolved) (s : Shape) : Decidable (HMinMax R s) := by unfold HMinMax; infer_instance

/-- the count mask does not hit this group -/
def Unmasked (R : Resolved) (ms : List Val) : Prop := ¬ (R.minCount > 0 ∧ Spec.validCount ms < R.minCount)

/-! ### the count mask -/

theorem countVal_eq (ms : List Val) : countVal ms = Val.ofNat (Spec.validCount ms) := by
  rw [countVal, blockVal_nanlen]; rfl

theorem countBelow_countVal (ms : List Val) (m : Nat) :
    countBelow (countVal ms) m = decide (Spec.validCount ms < m) := by
  rw [countVal_eq]
  simp [countBelow, Val.ofNat, Rat.natCast_lt_natCast]

theorem maskedSlot_countVal (R : Resolved) (ms : List Val) (v : Val) :
    maskedSlot R (countVal ms) v
      = if R.minCount > 0 ∧ Spec.validCount ms < R.minCount then fillOrError R.userFill else .ok v := by
  simp [maskedSlot, countBelow_countVal]

theorem validCount_nil : Spec.validCount [] = 0 := rfl

/-- a masked slot equals the specification slot as soon as the unmasked value is the NumPy kernel's -/
theorem maskedSlot_eq_specSlot (R : Resolved) (k : Kernel) (ms : List Val) (v : Val)
    (H_absent : HAbsent R ms) (hv : ms ≠ [] → Unmasked R ms → v = kEval k ms) :
    maskedSlot R (countVal ms) v = specSlot R k ms := by
  rw [maskedSlot_countVal]
  unfold specSlot Spec.slot
  by_cases hne : ms = []
  · subst hne
    have hmc : R.minCount ≥ 1 := by
      rcases H_absent with h | h
      · exact h
      · exact absurd rfl h
    have : R.minCount > 0 ∧ Spec.validCount [] < R.minCount := ⟨hmc, by rw [validCount_nil]; exact hmc⟩
    simp [this, fillOrError]
  · have hne' : ms.isEmpty = false := by simpa using hne
    by_cases hlt : Spec.validCount ms < R.minCount
    · have : R.minCount > 0 := by omega
      simp [hne', hlt, this, fillOrError]
    · have hun : Unmasked R ms := fun h => hlt h.2
      simp [hne', hlt, optToExcept, hv hne hun]

/-! ### values of unmasked slots -/

theorem allNaN_unmasked {R : Resolved} {ms : List Val} (hun : Unmasked R ms) (hd : dropNaN ms = []) :
    ¬ R.minCount ≥ 1 := by
  intro h
  apply hun
  refine ⟨h, ?_⟩
  simp only [Spec.validCount, hd, List.length_nil]
  exact h

theorem kEval_nanvar_allNaN (d : Nat) (ms : List Val) (h : dropNaN ms = []) : kEval (.nanvar d) ms = Val.nan := by
  simp [kEval, h, vvar]

/-- eager path: the NumPy kernel's grouped value in an unmasked, non-empty slot is the NumPy reduction -/
theorem eagerVal_eq {R : Resolved} {s : Shape} (hs : s.Fits R) (ms : List Val) (hne : ms ≠ [])
    (hun : Unmasked R ms) (H_allnan : HAllNaN R s) :
    blockVal s.kernel R.npFill ms = kEval s.kernel ms := by
  by_cases hd : dropNaN ms = []
  · have hmc := allNaN_unmasked hun hd
    by_cases hk : s.kernel.skipsNaN = true
    · rw [EngineFlox.blockVal_allNaN _ _ _ hk hne hd]
      have hnan : s.needsNaNFill = true → R.npFill = Val.nan := fun h => (H_allnan h).resolve_left hmc
      cases s with
      | simple k c f =>
        have hwf : (k, c, f) ∈ floatColumns := by simpa [Shape.wf] using hs.wf
        simp only [Shape.kernel] at hk ⊢
        -- (after the case split below `Shape.kernel` is already unfolded)
        simp only [floatColumns, List.mem_cons, Prod.mk.injEq, List.mem_nil_iff, or_false] at hwf
        rcases hwf with ⟨rfl, _, _⟩ | ⟨rfl, _, _⟩ | ⟨rfl, _, _⟩ | ⟨rfl, _, _⟩ | ⟨rfl, _, _⟩ | ⟨rfl, _, _⟩ |
          ⟨rfl, _, _⟩ | ⟨rfl, _, _⟩ | ⟨rfl, _, _⟩ | ⟨rfl, _, _⟩ | ⟨rfl, _, _⟩ | ⟨rfl, _, _⟩ | ⟨rfl, _, _⟩ |
          ⟨rfl, _, _⟩ | ⟨rfl, _, _⟩ <;>
        first
          | (exact absurd hk (by decide))
          | (simp [allNaNVal, kEval, hd, vsum, vprod, vcount, Val.ofNat, Val.zero, Val.one]; done)
          | (simp only [allNaNVal, kEval, hnan rfl, hd, firstNonNaN_eq_nan_of_allNaN hd,
              lastNonNaN_eq_nan_of_allNaN hd, List.isEmpty_nil, if_true])
      | mean b =>
        cases b with
        | false => exact absurd hk (by decide)
        | true =>
          simp only [Shape.kernel, allNaNVal, hnan rfl]
          exact (EngineFlox.kEval_nanmean_allNaN ms hd).symm
      | var b d =>
        cases b with
        | false => exact absurd hk (by simp [Shape.kernel, Kernel.skipsNaN])
        | true =>
          simp only [Shape.kernel, allNaNVal, hnan rfl]
          exact (kEval_nanvar_allNaN d ms hd).symm
    · exact EngineFlox.blockVal_noskip _ _ _ (by simpa using hk) hne
  · exact EngineFlox.blockVal_valid _ _ _ hd

/-- map-reduce path: the finalized value in an unmasked, non-empty slot is the NumPy reduction -/
theorem mrVal_eq {R : Resolved} {s : Shape} (hs : s.Fits R) (ms : List Val) (hne : ms ≠ [])
    (hun : Unmasked R ms) (H_minmax : HMinMax R s) :
    s.mrVal ms = kEval s.kernel ms := by
  cases s with
  | simple k c f =>
    simp only [Shape.mrVal, Shape.kernel]
    by_cases hd : dropNaN ms = []
    · have hmc := allNaN_unmasked hun hd
      by_cases hk : k.skipsNaN = true
      · rw [EngineFlox.blockVal_allNaN _ _ _ hk hne hd]
        have hwf : (k, c, f) ∈ floatColumns := by simpa [Shape.wf] using hs.wf
        simp only [floatColumns, List.mem_cons, Prod.mk.injEq, List.mem_nil_iff, or_false] at hwf
        rcases hwf with ⟨rfl, _, rfl⟩ | ⟨rfl, _, rfl⟩ | ⟨rfl, _, rfl⟩ | ⟨rfl, _, rfl⟩ | ⟨rfl, _, rfl⟩ |
          ⟨rfl, _, rfl⟩ | ⟨rfl, _, rfl⟩ | ⟨rfl, _, rfl⟩ | ⟨rfl, _, rfl⟩ | ⟨rfl, _, rfl⟩ | ⟨rfl, _, rfl⟩ |
          ⟨rfl, _, rfl⟩ | ⟨rfl, _, rfl⟩ | ⟨rfl, _, rfl⟩ | ⟨rfl, _, rfl⟩ <;>
        first
          | (exact absurd hk (by decide))
          | (exact absurd (H_minmax rfl) hmc)
          | (simp [allNaNVal, kEval, hd, vsum, vprod, vcount, Val.ofNat, Val.zero, Val.one]; done)
          | (simp only [allNaNVal, kEval, firstNonNaN_eq_nan_of_allNaN hd, lastNonNaN_eq_nan_of_allNaN hd])
      · exact EngineFlox.blockVal_noskip _ _ _ (by simpa using hk) hne
    · exact EngineFlox.blockVal_valid _ _ _ hd
  | mean b =>
    cases b with
    | false => exact mean_finalize ms
    | true => exact nanmean_finalize ms
  | var b d =>
    cases b with
    | false => exact var_finalize d ms
    | true => exact nanvar_finalize d ms

/-! ### the slot theorems -/

theorem Shape.Fits.numpy_head {s : Shape} {R : Resolved} (hs : s.Fits R) : R.numpy.headD default = s.kernel := by
  rw [hs.numpy]; rfl

/-- **eager slot = specification slot** -/
theorem eagerSlot_eq_specSlot {R : Resolved} {s : Shape} (hs : s.Fits R) (ms : List Val)
    (H_absent : HAbsent R ms) (H_allnan : HAllNaN R s) :
    eagerSlot R ms = specSlot R s.kernel ms := by
  unfold eagerSlot
  rw [hs.numpy_head]
  exact maskedSlot_eq_specSlot R s.kernel ms _ H_absent (fun hne hun => eagerVal_eq hs ms hne hun H_allnan)

/-- **map-reduce slot = specification slot** (no condition on the NumPy fill) -/
theorem mrSlot_eq_specSlot {R : Resolved} {s : Shape} (hs : s.Fits R) (ms : List Val)
    (H_absent : HAbsent R ms) (H_minmax : HMinMax R s) :
    mrSlot R s ms = specSlot R s.kernel ms :=
  maskedSlot_eq_specSlot R s.kernel ms _ H_absent (fun hne hun => mrVal_eq hs ms hne hun H_minmax)

/-- **map-reduce slot = eager slot** -/
theorem mrSlot_eq_eagerSlot {R : Resolved} {s : Shape} (hs : s.Fits R) (ms : List Val)
    (H_absent : HAbsent R ms) (H_allnan : HAllNaN R s) (H_minmax : HMinMax R s) :
    mrSlot R s ms = eagerSlot R ms := by
  rw [mrSlot_eq_specSlot hs ms H_absent H_minmax, eagerSlot_eq_specSlot hs ms H_absent H_allnan]

end Flox
