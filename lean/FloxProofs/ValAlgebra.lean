/-
  Algebraic laws of the exact extended numbers `Val` (IEEE semantics without rounding).
  These are the monoid facts behind the chunk/combine decomposition (C04) and tree-shape independence (C03).
-/
import FloxModel.Val

namespace Flox
namespace Val

@[simp] theorem add_nan_left (a : Val) : add nan a = nan := by cases a <;> rfl
@[simp] theorem add_nan_right (a : Val) : add a nan = nan := by cases a <;> rfl

theorem add_zero_left (a : Val) : add zero a = a := by
  cases a <;> simp [add, zero] <;> grind

theorem add_zero_right (a : Val) : add a zero = a := by
  cases a <;> simp [add, zero] <;> grind

theorem add_comm (a b : Val) : add a b = add b a := by
  cases a <;> cases b <;> simp [add, Rat.add_comm]

theorem add_assoc (a b c : Val) : add (add a b) c = add a (add b c) := by
  cases a <;> cases b <;> cases c <;> simp [add, Rat.add_assoc]

theorem mul_one_left (a : Val) : mul one a = a := by
  cases a <;> simp [mul, one] <;> grind

theorem mul_one_right (a : Val) : mul a one = a := by
  cases a <;> simp [mul, one] <;> grind

theorem max_ninf_left (a : Val) : max ninf a = a := by cases a <;> rfl
theorem max_ninf_right (a : Val) : max a ninf = a := by cases a <;> rfl
theorem min_pinf_left (a : Val) : min pinf a = a := by cases a <;> rfl
theorem min_pinf_right (a : Val) : min a pinf = a := by cases a <;> rfl

theorem max_assoc (a b c : Val) : max (max a b) c = max a (max b c) := by
  cases a <;> cases b <;> cases c <;> simp [max] <;> grind

theorem min_assoc (a b c : Val) : min (min a b) c = min a (min b c) := by
  cases a <;> cases b <;> cases c <;> simp [min] <;> grind

theorem max_comm (a b : Val) : max a b = max b a := by
  cases a <;> cases b <;> simp [max] <;> grind

theorem min_comm (a b : Val) : min a b = min b a := by
  cases a <;> cases b <;> simp [min] <;> grind

theorem max_idem (a : Val) : max a a = a := by cases a <;> simp [max]
theorem min_idem (a : Val) : min a a = a := by cases a <;> simp [min]

end Val
end Flox
