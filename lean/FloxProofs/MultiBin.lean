/-
  Proofs for property C07 (multi-variable grouping and binning).

  Part A: the digitize-based bin code of `_factorize_single` equals `pandas.cut` on contiguous increasing edges.
  Part B: `ravel_multi_index(mode="wrap")` + sentinel restore: inverse, injectivity, `-1` characterisation.
  Part C: the flat grouped result read at `ravel(i, j, …)` reduces exactly the elements whose code tuple is `(i, j, …)`.
-/
import FloxModel.MultiBin
import FloxProofs.Members
import FloxProofs.DenseTree

namespace Flox

/-! ## Part A – bins -/

/-- "edge `e` lies below `x`" for the given closed side: `e < x` (right-closed) or `e <= x` (left-closed) -/
def below (right : Bool) (x : Val) (e : Rat) : Bool :=
  if right then Val.lt (.fin e) x else Val.le (.fin e) x

/-- abstract form of `binCode` for a predicate on the edges -/
def edgeCodeOf (p : Rat → Bool) (bins : List Rat) : Int :=
  if p (listMax bins) then -1 else (bins.countP p : Int) - 1

def shiftCode (c : Int) : Int := if c = -1 then -1 else c + 1

/-- abstract form of `cutCode`: first interval whose left edge satisfies `p` and whose right edge does not -/
def firstIvIdx (p : Rat → Bool) : List (Rat × Rat) → Int
  | [] => -1
  | iv :: rest => if p iv.1 && !p iv.2 then 0 else shiftCode (firstIvIdx p rest)

theorem listMax_cons_cons (a b : Rat) (rest : List Rat) (h : a < b) :
    listMax (a :: b :: rest) = listMax (b :: rest) := by
  have : a ≤ b := by grind
  simp [listMax, this]

theorem foldl_max_mem (rest : List Rat) : ∀ a : Rat,
    rest.foldl (fun m e => if m ≤ e then e else m) a ∈ a :: rest := by
  induction rest with
  | nil => intro a; simp
  | cons b rest ih =>
    intro a
    simp only [List.foldl_cons]
    have h := ih (if a ≤ b then b else a)
    by_cases hab : a ≤ b
    · simp only [hab, if_true] at h ⊢
      exact List.mem_cons_of_mem _ h
    · simp only [hab, if_false] at h ⊢
      rcases List.mem_cons.mp h with h | h
      · rw [h]; simp
      · exact List.mem_cons_of_mem _ (List.mem_cons_of_mem _ h)

theorem listMax_mem (a : Rat) (rest : List Rat) : listMax (a :: rest) ∈ a :: rest := by
  simpa [listMax] using foldl_max_mem rest a

theorem allFalse_of_head (p : Rat → Bool) (hp : ∀ a b, a < b → p b = true → p a = true)
    (a : Rat) (rest : List Rat) (hs : (a :: rest).Pairwise (· < ·)) (ha : p a = false) :
    ∀ e ∈ a :: rest, p e = false := by
  intro e he
  rcases List.mem_cons.mp he with rfl | he
  · exact ha
  · have hlt : a < e := (List.pairwise_cons.mp hs).1 e he
    cases hpe : p e with
    | false => rfl
    | true => rw [hp a e hlt hpe] at ha; cases ha

theorem firstIdx_allFalse (p : Rat → Bool) : ∀ l : List Rat, (∀ e ∈ l, p e = false) →
    firstIvIdx p (intervalsOfBreaks l) = -1 := by
  intro l
  induction l with
  | nil => intro _; simp [intervalsOfBreaks, firstIvIdx]
  | cons a t ih =>
    intro h
    cases t with
    | nil => simp [intervalsOfBreaks, firstIvIdx]
    | cons b rest =>
      have ha : p a = false := h a (by simp)
      have := ih (fun e he => h e (List.mem_cons_of_mem _ he))
      simp [intervalsOfBreaks, firstIvIdx, ha, this, shiftCode]

theorem countP_allFalse (p : Rat → Bool) (l : List Rat) (h : ∀ e ∈ l, p e = false) : l.countP p = 0 := by
  rw [List.countP_eq_zero]
  intro a ha
  simp [h a ha]

/-- the heart of Part A: for an antitone predicate on strictly increasing edges the digitize-style code and the
    first-matching-interval code coincide -/
theorem codeOf_eq_firstIdx (p : Rat → Bool) (hp : ∀ a b, a < b → p b = true → p a = true) :
    ∀ bins : List Rat, bins ≠ [] → bins.Pairwise (· < ·) → edgeCodeOf p bins = firstIvIdx p (intervalsOfBreaks bins) := by
  intro bins
  induction bins with
  | nil => intro h; exact absurd rfl h
  | cons a t ih =>
    intro _ hs
    cases t with
    | nil =>
      simp only [intervalsOfBreaks, firstIvIdx, edgeCodeOf, listMax, List.foldl_nil, List.countP_cons, List.countP_nil]
      cases p a <;> simp
    | cons b rest =>
      have hs' : (b :: rest).Pairwise (· < ·) := (List.pairwise_cons.mp hs).2
      have hab : a < b := (List.pairwise_cons.mp hs).1 b (by simp)
      have ih' := ih (by simp) hs'
      cases ha : p a with
      | false =>
        have hall := allFalse_of_head p hp a (b :: rest) hs ha
        have hmax : p (listMax (a :: b :: rest)) = false := hall _ (listMax_mem a (b :: rest))
        rw [firstIdx_allFalse p _ hall]
        simp [edgeCodeOf, hmax, countP_allFalse p _ hall]
      | true =>
        cases hb : p b with
        | false =>
          have hall := allFalse_of_head p hp b rest hs' hb
          have hmax : p (listMax (a :: b :: rest)) = false := by
            rw [listMax_cons_cons a b rest hab]; exact hall _ (listMax_mem b rest)
          have hc : (b :: rest).countP p = 0 := countP_allFalse p _ hall
          have hc' : (a :: b :: rest).countP p = 1 := by
            rw [List.countP_cons, hc]; simp [ha]
          simp [edgeCodeOf, hmax, hc', intervalsOfBreaks, firstIvIdx, ha, hb]
        | true =>
          have hfi : firstIvIdx p (intervalsOfBreaks (a :: b :: rest))
              = shiftCode (firstIvIdx p (intervalsOfBreaks (b :: rest))) := by
            simp [intervalsOfBreaks, firstIvIdx, ha, hb]
          rw [hfi, ← ih']
          have hc' : (a :: b :: rest).countP p = (b :: rest).countP p + 1 := by
            rw [List.countP_cons (a := a)]; simp [ha]
          have hpos : 1 ≤ (b :: rest).countP p := by
            rw [List.countP_cons]; simp [hb]
          unfold edgeCodeOf
          rw [listMax_cons_cons a b rest hab, hc']
          cases p (listMax (b :: rest)) with
          | true => simp [shiftCode]
          | false =>
            simp only [shiftCode, Bool.false_eq_true, if_false]
            split <;> omega

/-! ### from the abstract lemma to `binCode` / `cutCode` -/

theorem val_le_fin_eq (x : Val) (hx : x ≠ .nan) (m : Rat) : Val.le x (.fin m) = !Val.lt (.fin m) x := by
  cases x with
  | nan => exact absurd rfl hx
  | ninf => simp [Val.le, Val.lt]
  | pinf => simp [Val.le, Val.lt, Val.isNaN]
  | fin q =>
    simp only [Val.le, Val.lt, Val.isNaN]
    by_cases h1 : q < m <;> by_cases h2 : m < q <;> by_cases h3 : q = m <;> simp [h1, h2, h3] <;> grind

theorem val_lt_fin_eq (x : Val) (hx : x ≠ .nan) (m : Rat) : Val.lt x (.fin m) = !Val.le (.fin m) x := by
  cases x with
  | nan => exact absurd rfl hx
  | ninf => simp [Val.le, Val.lt, Val.isNaN]
  | pinf => simp [Val.le, Val.lt]
  | fin q =>
    simp only [Val.le, Val.lt, Val.isNaN]
    by_cases h1 : q < m <;> by_cases h2 : m < q <;> by_cases h3 : m = q <;> simp [h1, h2, h3] <;> grind

theorem below_antitone (right : Bool) (x : Val) (a b : Rat) (hab : a < b) (hb : below right x b = true) :
    below right x a = true := by
  cases right <;> cases x <;> simp_all [below, Val.le, Val.lt, Val.isNaN] <;> grind

theorem digitize_eq_countP (bins : List Rat) (right : Bool) (x : Val) (hx : x ≠ .nan) :
    digitize bins right x = bins.countP (below right x) := by
  cases x with
  | nan => exact absurd rfl hx
  | _ =>
    cases right <;> simp only [digitize, if_true, Bool.false_eq_true, if_false] <;>
      exact congrArg (fun f => List.countP f bins) (funext fun e => by simp [below])

theorem binCode_eq_codeOf (bins : List Rat) (right : Bool) (x : Val) (hx : x ≠ .nan) :
    binCode bins right x = edgeCodeOf (below right x) bins := by
  unfold binCode edgeCodeOf
  rw [digitize_eq_countP bins right x hx]
  cases right with
  | true =>
    simp only [if_true, below, val_le_fin_eq x hx]
    cases Val.lt (.fin (listMax bins)) x <;> simp
  | false =>
    simp only [Bool.false_eq_true, if_false, below, val_lt_fin_eq x hx]
    cases Val.le (.fin (listMax bins)) x <;> simp

theorem inInterval_eq_below (right : Bool) (iv : Rat × Rat) (x : Val) (hx : x ≠ .nan) :
    inInterval right iv x = (below right x iv.1 && !below right x iv.2) := by
  cases right with
  | true => simp [inInterval, below, val_le_fin_eq x hx]
  | false => simp [inInterval, below, val_lt_fin_eq x hx]

/-- index of the first element satisfying `q`, as an `Int` code (`-1` = none) -/
def findCode {α} (q : α → Bool) (l : List α) : Int :=
  match l.findIdx? q with
  | some i => (i : Int)
  | none => -1

theorem findCode_cons {α} (q : α → Bool) (a : α) (l : List α) :
    findCode q (a :: l) = if q a then 0 else shiftCode (findCode q l) := by
  unfold findCode
  rw [List.findIdx?_cons]
  cases hq : q a with
  | true => simp
  | false =>
    cases h : l.findIdx? q with
    | none => simp [shiftCode]
    | some i => simp [shiftCode]

theorem cutCode_eq_findCode (ivs : List (Rat × Rat)) (right : Bool) (x : Val) :
    cutCode ivs right x = findCode (fun iv => inInterval right iv x) ivs := rfl

theorem cutCode_eq_firstIdx (right : Bool) (x : Val) (hx : x ≠ .nan) : ∀ ivs : List (Rat × Rat),
    cutCode ivs right x = firstIvIdx (below right x) ivs := by
  intro ivs
  rw [cutCode_eq_findCode]
  induction ivs with
  | nil => simp [findCode, firstIvIdx]
  | cons iv rest ih =>
    rw [findCode_cons, ih, firstIvIdx, inInterval_eq_below right iv x hx]

theorem inInterval_nan (right : Bool) (iv : Rat × Rat) : inInterval right iv .nan = false := by
  cases right <;> simp [inInterval, Val.le, Val.lt]

theorem cutCode_nan (ivs : List (Rat × Rat)) (right : Bool) : cutCode ivs right .nan = -1 := by
  unfold cutCode
  have : ivs.findIdx? (fun iv => inInterval right iv .nan) = none := by
    rw [List.findIdx?_eq_none_iff]; intro iv _; exact inInterval_nan right iv
  rw [this]

theorem binCode_nan (bins : List Rat) (right : Bool) : binCode bins right .nan = -1 := by
  cases right <;> simp [binCode, Val.le, Val.lt]

/-- **`binCode_eq_cut`**: on strictly increasing contiguous edges the code computed by flox
    (`np.digitize`, `idx -= 1`, `within_bins` mask) is the `pandas.cut` code, for every value including
    NaN and ±inf and for both closed sides. -/
theorem binCode_eq_cut (edges : List Rat) (hne : edges ≠ []) (hs : edges.Pairwise (· < ·)) (right : Bool) (x : Val) :
    binCode edges right x = cutCode (intervalsOfBreaks edges) right x := by
  by_cases hx : x = .nan
  · subst hx; rw [binCode_nan, cutCode_nan]
  · rw [binCode_eq_codeOf edges right x hx, cutCode_eq_firstIdx right x hx]
    exact codeOf_eq_firstIdx (below right x) (fun a b hab hb => below_antitone right x a b hab hb) edges hne hs

/-! ## Part B – ravel / unravel -/

/-- every code lies inside its dimension -/
def InRange : List Int → List Nat → Prop
  | [], [] => True
  | c :: cs, d :: ds => 0 ≤ c ∧ c < (d : Int) ∧ InRange cs ds
  | _, _ => False

/-- what `_factorize_single` produces: every code is `-1` (dropped) or inside its dimension -/
def ValidRow : List Int → List Nat → Prop
  | [], [] => True
  | c :: cs, d :: ds => -1 ≤ c ∧ c < (d : Int) ∧ ValidRow cs ds
  | _, _ => False

theorem ravelWrap_bounds : ∀ (cs : List Int) (ds : List Nat), InRange cs ds →
    0 ≤ ravelWrap cs ds ∧ ravelWrap cs ds < (shapeProd ds : Int) := by
  intro cs
  induction cs with
  | nil => intro ds h; cases ds <;> simp_all [InRange, ravelWrap, shapeProd]
  | cons c cs ih =>
    intro ds h
    cases ds with
    | nil => simp [InRange] at h
    | cons d ds =>
      obtain ⟨h0, h1, h2⟩ := h
      obtain ⟨r0, r1⟩ := ih ds h2
      have hmod : c % (d : Int) = c := Int.emod_eq_of_lt h0 h1
      simp only [ravelWrap, shapeProd, hmod]
      have hP : (0 : Int) ≤ (shapeProd ds : Int) := by omega
      have hcP : 0 ≤ c * (shapeProd ds : Int) := Int.mul_nonneg h0 hP
      have hle : (c + 1) * (shapeProd ds : Int) ≤ (d : Int) * (shapeProd ds : Int) :=
        Int.mul_le_mul_of_nonneg_right (by omega) hP
      rw [Int.add_mul, Int.one_mul] at hle
      constructor
      · omega
      · rw [Int.natCast_mul]; omega

/-- `unravel ∘ ravel = id` on codes within their shape -/
theorem unravel_ravelWrap : ∀ (cs : List Int) (ds : List Nat), InRange cs ds →
    unravel (ravelWrap cs ds) ds = cs := by
  intro cs
  induction cs with
  | nil => intro ds h; cases ds <;> simp_all [InRange, unravel]
  | cons c cs ih =>
    intro ds h
    cases ds with
    | nil => simp [InRange] at h
    | cons d ds =>
      obtain ⟨h0, h1, h2⟩ := h
      obtain ⟨r0, r1⟩ := ravelWrap_bounds cs ds h2
      have hmod : c % (d : Int) = c := Int.emod_eq_of_lt h0 h1
      have hP : (shapeProd ds : Int) ≠ 0 := by omega
      simp only [ravelWrap, unravel, hmod]
      have e1 : (c * (shapeProd ds : Int) + ravelWrap cs ds) / (shapeProd ds : Int) = c := by
        rw [Int.add_comm, Int.add_mul_ediv_right _ _ hP, Int.ediv_eq_zero_of_lt r0 r1]; omega
      have e2 : (c * (shapeProd ds : Int) + ravelWrap cs ds) % (shapeProd ds : Int) = ravelWrap cs ds := by
        rw [Int.add_comm, Int.add_mul_emod_self_right, Int.emod_eq_of_lt r0 r1]
      rw [e1, e2, ih ds h2]

/-- the flat index determines the code tuple -/
theorem ravelWrap_injective (a b : List Int) (ds : List Nat) (ha : InRange a ds) (hb : InRange b ds)
    (h : ravelWrap a ds = ravelWrap b ds) : a = b := by
  rw [← unravel_ravelWrap a ds ha, ← unravel_ravelWrap b ds hb, h]

theorem validRow_inRange : ∀ (cs : List Int) (ds : List Nat), ValidRow cs ds →
    cs.any (· == -1) = false → InRange cs ds := by
  intro cs
  induction cs with
  | nil => intro ds h _; cases ds <;> simp_all [InRange, ValidRow]
  | cons c cs ih =>
    intro ds h hany
    cases ds with
    | nil => simp [ValidRow] at h
    | cons d ds =>
      obtain ⟨h0, h1, h2⟩ := h
      simp only [List.any_cons, Bool.or_eq_false_iff, beq_eq_false_iff_ne, ne_eq] at hany
      exact ⟨by omega, h1, ih ds h2 hany.2⟩

theorem inRange_validRow : ∀ (cs : List Int) (ds : List Nat), InRange cs ds → ValidRow cs ds := by
  intro cs
  induction cs with
  | nil => intro ds h; cases ds <;> simp_all [InRange, ValidRow]
  | cons c cs ih =>
    intro ds h
    cases ds with
    | nil => simp [InRange] at h
    | cons d ds => exact ⟨by have := h.1; omega, h.2.1, ih ds h.2.2⟩

theorem inRange_no_sentinel : ∀ (cs : List Int) (ds : List Nat), InRange cs ds → cs.any (· == -1) = false := by
  intro cs
  induction cs with
  | nil => intro ds _; rfl
  | cons c cs ih =>
    intro ds h
    cases ds with
    | nil => simp [InRange] at h
    | cons d ds =>
      obtain ⟨h0, _, h2⟩ := h
      simp only [List.any_cons, Bool.or_eq_false_iff, beq_eq_false_iff_ne, ne_eq]
      exact ⟨by omega, ih ds h2⟩

/-- the sentinel survives the wrap: the flat code is `-1` exactly when some grouper dropped the element -/
theorem ravelCode_eq_neg_one_iff (cs : List Int) (ds : List Nat) (h : ValidRow cs ds) :
    ravelCode cs ds = -1 ↔ ∃ c ∈ cs, c = -1 := by
  unfold ravelCode
  cases hany : cs.any (· == -1) with
  | true =>
    simp only [if_true, true_iff]
    obtain ⟨c, hc, hb⟩ := List.any_eq_true.mp hany
    exact ⟨c, hc, by simpa using hb⟩
  | false =>
    have hr := ravelWrap_bounds cs ds (validRow_inRange cs ds h hany)
    simp only [Bool.false_eq_true, if_false]
    constructor
    · intro h'; omega
    · rintro ⟨c, hc, rfl⟩
      have : cs.any (· == -1) = true := List.any_eq_true.mpr ⟨-1, hc, by simp⟩
      rw [this] at hany; cases hany

/-- the flat code of a row equals the flat slot of an in-range index tuple exactly when the row *is* that tuple -/
theorem ravelCode_eq_iff (r idx : List Int) (ds : List Nat) (hr : ValidRow r ds) (hidx : InRange idx ds) :
    ravelCode r ds = ravelWrap idx ds ↔ r = idx := by
  constructor
  · intro h
    have hb := ravelWrap_bounds idx ds hidx
    unfold ravelCode at h
    cases hany : r.any (· == -1) with
    | true => rw [hany] at h; simp only [if_true] at h; omega
    | false =>
      rw [hany] at h; simp only [Bool.false_eq_true, if_false] at h
      exact ravelWrap_injective r idx ds (validRow_inRange r ds hr hany) hidx h
  · rintro rfl
    simp [ravelCode, inRange_no_sentinel r ds hidx]

/-! ## Part C – tuple-key grouping -/

theorem members_ravel_eq_tupleMembers (idx : List Int) (ds : List Nat) (hidx : InRange idx ds) :
    ∀ (rows : List (List Int)) (vals : List Val), (∀ r ∈ rows, ValidRow r ds) →
      members (ravelWrap idx ds) (rows.map (ravelCode · ds)) vals = tupleMembers idx rows vals := by
  intro rows
  induction rows with
  | nil => intro vals _; simp [tupleMembers]
  | cons r rows ih =>
    intro vals h
    cases vals with
    | nil => simp [tupleMembers]
    | cons v vals =>
      have hr : ValidRow r ds := h r (by simp)
      have ih' := ih vals (fun r' hr' => h r' (List.mem_cons_of_mem _ hr'))
      simp only [List.map_cons, members_cons, tupleMembers, ih']
      by_cases hri : r = idx
      · have := (ravelCode_eq_iff r idx ds hr hidx).mpr hri
        rw [if_pos this, if_pos hri]
      · have : ¬ ravelCode r ds = ravelWrap idx ds := fun h' => hri ((ravelCode_eq_iff r idx ds hr hidx).mp h')
        rw [if_neg this, if_neg hri]

/-- **`multi_eq_tuple_spec`**: in the flat result of the grouped kernel over the ravelled codes, the slot
    `ravel(i, j, …)` – i.e. entry `(i, j, …)` after the reshape to `grp_shape` – holds the reduction of exactly the
    elements whose code tuple is `(i, j, …)` (in original order), or the fill when there is none.  An element with
    any code `-1` belongs to no entry (its row differs from every in-range index tuple). -/
theorem multi_slot (k : Kernel) (rows : List (List Int)) (vals : List Val) (ds : List Nat) (fill : Val)
    (idx : List Int) (hidx : InRange idx ds) (hrows : ∀ r ∈ rows, ValidRow r ds) :
    (grouped k (rows.map (ravelCode · ds)) vals (shapeProd ds) fill)[(ravelWrap idx ds).toNat]? =
      some (if (tupleMembers idx rows vals).isEmpty then fill else kEval k (tupleMembers idx rows vals)) := by
  obtain ⟨b0, b1⟩ := ravelWrap_bounds idx ds hidx
  have hlt : (ravelWrap idx ds).toNat < shapeProd ds := by omega
  have hcast : Int.ofNat (ravelWrap idx ds).toNat = ravelWrap idx ds := by
    simp only [Int.ofNat_eq_natCast]; omega
  simp only [grouped, List.getElem?_map, List.getElem?_range hlt, Option.map_some, hcast,
    members_ravel_eq_tupleMembers idx ds hidx rows vals hrows]

/-! ## Part D – reading the codes: `pandas.cut` characterisation, ranges, whole-result form -/

theorem cutCode_eq_neg_one_iff (ivs : List (Rat × Rat)) (right : Bool) (x : Val) :
    cutCode ivs right x = -1 ↔ ∀ iv ∈ ivs, inInterval right iv x = false := by
  unfold cutCode
  cases h : ivs.findIdx? (fun iv => inInterval right iv x) with
  | none =>
    simp only [true_iff]
    exact List.findIdx?_eq_none_iff.mp h
  | some i =>
    obtain ⟨hlt, hp, _⟩ := List.findIdx?_eq_some_iff_getElem.mp h
    constructor
    · intro h'; simp only at h'; omega
    · intro hall
      have := hall ivs[i] (List.getElem_mem hlt)
      rw [this] at hp; cases hp

theorem cutCode_range (ivs : List (Rat × Rat)) (right : Bool) (x : Val) :
    -1 ≤ cutCode ivs right x ∧ cutCode ivs right x < (ivs.length : Int) := by
  unfold cutCode
  cases h : ivs.findIdx? (fun iv => inInterval right iv x) with
  | none => simp only; omega
  | some i =>
    obtain ⟨hlt, _, _⟩ := List.findIdx?_eq_some_iff_getElem.mp h
    simp only; omega

theorem binCode_range (edges : List Rat) (hne : edges ≠ []) (hs : edges.Pairwise (· < ·)) (right : Bool) (x : Val) :
    -1 ≤ binCode edges right x ∧ binCode edges right x < ((intervalsOfBreaks edges).length : Int) := by
  rw [binCode_eq_cut edges hne hs right x]
  exact cutCode_range _ right x

theorem findCode_ge {α} (q : α → Bool) (l : List α) : -1 ≤ findCode q l := by
  unfold findCode
  cases l.findIdx? q <;> simp only <;> omega

/-- when at most one element can satisfy `q`, the first-match code is `i` exactly when the `i`-th element satisfies `q` -/
theorem findCode_eq_iff_of_exclusive {α} (q : α → Bool) : ∀ (l : List α),
    l.Pairwise (fun a b => ¬ (q a = true ∧ q b = true)) → ∀ (i : Nat) (a : α), l[i]? = some a →
      (findCode q l = (i : Int) ↔ q a = true) := by
  intro l
  induction l with
  | nil => intro _ i a h; simp at h
  | cons a0 rest ih =>
    intro hex i a hi
    obtain ⟨h0, hrest⟩ := List.pairwise_cons.mp hex
    rw [findCode_cons]
    cases i with
    | zero =>
      simp only [List.getElem?_cons_zero, Option.some.injEq] at hi
      subst hi
      cases hq : q a0 with
      | true => simp
      | false =>
        have := findCode_ge q rest
        simp only [Bool.false_eq_true, if_false, shiftCode]
        constructor
        · intro h; split at h <;> omega
        · intro h; cases h
    | succ j =>
      simp only [List.getElem?_cons_succ] at hi
      have hmem : a ∈ rest := List.mem_of_getElem? hi
      cases hq : q a0 with
      | true =>
        simp only [if_true]
        constructor
        · intro h; omega
        · intro h; exact absurd ⟨hq, h⟩ (h0 a hmem)
      | false =>
        have hge := findCode_ge q rest
        have := ih hrest j a hi
        simp only [Bool.false_eq_true, if_false, shiftCode]
        rw [← this]
        constructor
        · intro h; split at h <;> omega
        · intro h; split <;> omega

theorem intervals_left_mem : ∀ (l : List Rat) (iv : Rat × Rat), iv ∈ intervalsOfBreaks l → iv.1 ∈ l := by
  intro l
  induction l with
  | nil => intro iv h; simp [intervalsOfBreaks] at h
  | cons a t ih =>
    intro iv h
    cases t with
    | nil => simp [intervalsOfBreaks] at h
    | cons b rest =>
      simp only [intervalsOfBreaks, List.mem_cons] at h
      rcases h with rfl | h
      · simp
      · exact List.mem_cons_of_mem _ (ih iv h)

/-- consecutive intervals of increasing breaks: each ends where (or before) every later one starts -/
theorem intervals_pairwise : ∀ (l : List Rat), l.Pairwise (· < ·) →
    (intervalsOfBreaks l).Pairwise (fun a b => a.2 ≤ b.1) := by
  intro l
  induction l with
  | nil => intro _; simp [intervalsOfBreaks]
  | cons a t ih =>
    intro hs
    cases t with
    | nil => simp [intervalsOfBreaks]
    | cons b rest =>
      have hs' : (b :: rest).Pairwise (· < ·) := (List.pairwise_cons.mp hs).2
      simp only [intervalsOfBreaks]
      refine List.pairwise_cons.mpr ⟨?_, ih hs'⟩
      intro iv hiv
      have hm := intervals_left_mem (b :: rest) iv hiv
      rcases List.mem_cons.mp hm with h | h
      · simp only; rw [h]; exact Rat.le_refl
      · have : b < iv.1 := (List.pairwise_cons.mp hs').1 _ h
        simp only; grind

theorem inInterval_exclusive (right : Bool) (x : Val) (a b : Rat × Rat) (hab : a.2 ≤ b.1) :
    ¬ (inInterval right a x = true ∧ inInterval right b x = true) := by
  rintro ⟨ha, hb⟩
  by_cases hx : x = .nan
  · subst hx; rw [inInterval_nan] at ha; cases ha
  · rw [inInterval_eq_below right a x hx] at ha
    rw [inInterval_eq_below right b x hx] at hb
    simp only [Bool.and_eq_true, Bool.not_eq_true'] at ha hb
    have : below right x a.2 = true := by
      by_cases he : a.2 = b.1
      · rw [he]; exact hb.1
      · exact below_antitone right x a.2 b.1 (by grind) hb.1
    rw [this] at ha; cases ha.2

theorem binCode_eq_iff_mem (edges : List Rat) (hs : edges.Pairwise (· < ·)) (right : Bool) (x : Val)
    (i : Nat) (iv : Rat × Rat) (hi : (intervalsOfBreaks edges)[i]? = some iv) :
    binCode edges right x = (i : Int) ↔ inInterval right iv x = true := by
  have hne : edges ≠ [] := by
    intro h; subst h; simp [intervalsOfBreaks] at hi
  rw [binCode_eq_cut edges hne hs right x, cutCode_eq_findCode]
  exact findCode_eq_iff_of_exclusive _ _
    ((intervals_pairwise edges hs).imp (fun {a b} hab => inInterval_exclusive right x a b hab)) i iv hi

theorem inRange_not_mem_sentinel (idx : List Int) (ds : List Nat) (h : InRange idx ds) : (-1 : Int) ∉ idx := by
  intro hm
  have := inRange_no_sentinel idx ds h
  rw [List.any_eq_false] at this
  exact this (-1) hm (by simp)

theorem dropped_if_any_missing (idx r : List Int) (shape : List Nat) (hidx : InRange idx shape) (hr : (-1 : Int) ∈ r)
    (rows : List (List Int)) (v : Val) (vals : List Val) :
    tupleMembers idx (r :: rows) (v :: vals) = tupleMembers idx rows vals := by
  have hne : r ≠ idx := by
    intro h; subst h; exact inRange_not_mem_sentinel r shape hidx hr
  simp [tupleMembers, hne]

/-! ### the whole flat result in C order -/

theorem range_flatMap_block (P : Nat) : ∀ d : Nat,
    (List.range d).flatMap (fun i => (List.range P).map fun j => i * P + j) = List.range (d * P) := by
  intro d
  induction d with
  | zero => simp
  | succ d ih =>
    rw [List.range_succ, List.flatMap_append, ih, List.flatMap_singleton, Nat.succ_mul, List.range_add]

theorem allIndices_inRange : ∀ (ds : List Nat) (idx : List Int), idx ∈ allIndices ds → InRange idx ds := by
  intro ds
  induction ds with
  | nil => intro idx h; simp [allIndices] at h; subst h; trivial
  | cons d ds ih =>
    intro idx h
    simp only [allIndices, List.mem_flatMap, List.mem_range, List.mem_map] at h
    obtain ⟨i, hi, rest, hrest, rfl⟩ := h
    exact ⟨by omega, by omega, ih rest hrest⟩

theorem allIndices_ravel : ∀ (ds : List Nat),
    (allIndices ds).map (ravelWrap · ds) = (List.range (shapeProd ds)).map fun (g : Nat) => (g : Int) := by
  intro ds
  induction ds with
  | nil => simp [allIndices, ravelWrap, shapeProd, List.range_succ]
  | cons d ds ih =>
    simp only [allIndices, shapeProd, List.map_flatMap, List.map_map]
    rw [← range_flatMap_block (shapeProd ds) d, List.map_flatMap, List.flatMap_def, List.flatMap_def]
    congr 1
    apply List.map_congr_left
    intro i hi
    have hi' : i < d := List.mem_range.mp hi
    have hmod : (i : Int) % (d : Int) = (i : Int) := Int.emod_eq_of_lt (by omega) (by omega)
    have : (allIndices ds).map ((fun x => ravelWrap x (d :: ds)) ∘ fun rest => (i : Int) :: rest)
        = ((allIndices ds).map (ravelWrap · ds)).map (fun r => (i : Int) * (shapeProd ds : Int) + r) := by
      rw [List.map_map]
      apply List.map_congr_left
      intro rest _
      simp [ravelWrap, hmod]
    rw [this, ih, List.map_map, List.map_map]
    apply List.map_congr_left
    intro j _
    simp [Int.natCast_add, Int.natCast_mul]

/-- the flat grouped result over ravelled codes lists, in C order, the tuple-key reduction of every index tuple -/
theorem multi_all (k : Kernel) (rows : List (List Int)) (vals : List Val) (ds : List Nat) (fill : Val)
    (hrows : ∀ r ∈ rows, ValidRow r ds) :
    grouped k (rows.map (ravelCode · ds)) vals (shapeProd ds) fill =
      (allIndices ds).map fun idx =>
        if (tupleMembers idx rows vals).isEmpty then fill else kEval k (tupleMembers idx rows vals) := by
  have hcongr : ((allIndices ds).map fun idx =>
        if (tupleMembers idx rows vals).isEmpty then fill else kEval k (tupleMembers idx rows vals))
      = ((allIndices ds).map (ravelWrap · ds)).map fun g =>
          if (members g (rows.map (ravelCode · ds)) vals).isEmpty then fill
          else kEval k (members g (rows.map (ravelCode · ds)) vals) := by
    rw [List.map_map]
    apply List.map_congr_left
    intro idx hidx
    simp only [Function.comp]
    rw [members_ravel_eq_tupleMembers idx ds (allIndices_inRange ds idx hidx) rows vals hrows]
  rw [hcongr, allIndices_ravel, List.map_map]
  simp only [grouped, Int.ofNat_eq_natCast]
  rfl

/-! ## Part E – broadcasting of size-1 grouper axes -/

theorem mb_splitBy_map {α β} (f : α → β) : ∀ (ns : List Nat) (xs : List α),
    splitBy ns (xs.map f) = (splitBy ns xs).map (List.map f) := by
  intro ns
  induction ns with
  | nil => intro xs; simp [splitBy]
  | cons n ns ih =>
    intro xs
    simp only [splitBy, List.map_cons]
    rw [← List.map_drop, ih, List.map_take]

/-- broadcasting commutes with any elementwise function -/
theorem bcast_map {α β} (f : α → β) : ∀ (shp target : List Nat) (xs : List α),
    bcast shp target (xs.map f) = (bcast shp target xs).map f := by
  intro shp
  induction shp with
  | nil => intro target xs; cases target <;> simp [bcast]
  | cons s ss ih =>
    intro target xs
    cases target with
    | nil => simp [bcast]
    | cons t ts =>
      simp only [bcast]
      split
      · rw [mb_splitBy_map, List.map_map, List.map_flatten, List.map_map]
        congr 2
        funext blk
        simp [ih ts blk]
      · rw [ih ts xs]
        simp [List.map_flatten, List.map_replicate]

/-! ## Part F – a sorted, non-overlapping IntervalIndex that need not be contiguous (gap mask) -/

/-- increasing, non-overlapping, non-empty intervals: `l₀ < r₀ ≤ l₁ < r₁ ≤ …` -/
def SortedIvs : List (Rat × Rat) → Prop
  | [] => True
  | [a] => a.1 < a.2
  | a :: b :: rest => a.1 < a.2 ∧ a.2 ≤ b.1 ∧ SortedIvs (b :: rest)

/-- abstract form of `gapMask` -/
def maskAbs (p : Rat → Bool) (ivs : List (Rat × Rat)) (c : Int) : Int :=
  if c < 0 then c
  else match ivs[c.toNat]? with
    | some iv => if p iv.2 then -1 else c
    | none => c

theorem binsOf_single (a : Rat × Rat) : binsOf [a] = [a.1, a.2] := by simp [binsOf]

theorem binsOf_cons_cons (a b : Rat × Rat) (rest : List (Rat × Rat)) :
    binsOf (a :: b :: rest) = a.1 :: binsOf (b :: rest) := by
  simp [binsOf, List.getLast?_cons_cons]

theorem binsOf_cons_head (b : Rat × Rat) (rest : List (Rat × Rat)) :
    ∃ t, binsOf (b :: rest) = b.1 :: t := by
  cases rest with
  | nil => exact ⟨[b.2], binsOf_single b⟩
  | cons c rest => exact ⟨binsOf (c :: rest), binsOf_cons_cons b c rest⟩

theorem left_mem_binsOf (ivs : List (Rat × Rat)) (iv : Rat × Rat) (h : iv ∈ ivs) : iv.1 ∈ binsOf ivs := by
  simp only [binsOf, List.mem_append, List.mem_map]
  exact Or.inl ⟨iv, h, rfl⟩

theorem binsOf_pairwise : ∀ ivs : List (Rat × Rat), ivs ≠ [] → SortedIvs ivs → (binsOf ivs).Pairwise (· < ·) := by
  intro ivs
  induction ivs with
  | nil => intro h; exact absurd rfl h
  | cons a t ih =>
    intro _ hs
    cases t with
    | nil =>
      rw [binsOf_single]
      have : a.1 < a.2 := hs
      simp [this]
    | cons b rest =>
      obtain ⟨h1, h2, h3⟩ := hs
      have ihb := ih (by simp) h3
      rw [binsOf_cons_cons]
      obtain ⟨t, ht⟩ := binsOf_cons_head b rest
      rw [ht] at ihb ⊢
      refine List.pairwise_cons.mpr ⟨?_, ihb⟩
      intro e he
      rcases List.mem_cons.mp he with rfl | he
      · grind
      · have := (List.pairwise_cons.mp ihb).1 e he
        grind

theorem firstIvIdx_allLeftFalse (p : Rat → Bool) : ∀ ivs : List (Rat × Rat), (∀ iv ∈ ivs, p iv.1 = false) →
    firstIvIdx p ivs = -1 := by
  intro ivs
  induction ivs with
  | nil => intro _; rfl
  | cons a rest ih =>
    intro h
    have ha : p a.1 = false := h a (by simp)
    have := ih (fun iv hiv => h iv (List.mem_cons_of_mem _ hiv))
    simp [firstIvIdx, ha, this, shiftCode]

theorem maskAbs_neg (p : Rat → Bool) (ivs : List (Rat × Rat)) : maskAbs p ivs (-1) = -1 := by
  simp [maskAbs]

theorem maskAbs_succ (p : Rat → Bool) (a : Rat × Rat) (l : List (Rat × Rat)) (c : Int) (hc : 0 ≤ c) :
    maskAbs p (a :: l) (c + 1) = shiftCode (maskAbs p l c) := by
  have e : (c + 1).toNat = c.toNat + 1 := by omega
  have h1 : ¬ (c + 1 < 0) := by omega
  have h2 : ¬ (c < 0) := by omega
  simp only [maskAbs, h1, h2, if_false, e, List.getElem?_cons_succ]
  cases l[c.toNat]? with
  | none => simp only [shiftCode]; split <;> omega
  | some iv =>
    simp only
    cases p iv.2 with
    | true => simp [shiftCode]
    | false => simp only [shiftCode, Bool.false_eq_true, if_false]; split <;> omega

/-- the heart of Part F: digitize against `lefts ++ [last right]`, then the gap mask = first interval containing the value -/
theorem masked_eq_firstIvIdx (p : Rat → Bool) (hp : ∀ a b, a < b → p b = true → p a = true) :
    ∀ ivs : List (Rat × Rat), ivs ≠ [] → SortedIvs ivs →
      maskAbs p ivs (edgeCodeOf p (binsOf ivs)) = firstIvIdx p ivs := by
  intro ivs
  induction ivs with
  | nil => intro h; exact absurd rfl h
  | cons a t ih =>
    intro _ hs
    cases t with
    | nil =>
      have hlt : a.1 < a.2 := hs
      have hle : a.1 ≤ a.2 := by grind
      have hmax : listMax [a.1, a.2] = a.2 := by simp [listMax, hle]
      rw [binsOf_single]
      unfold edgeCodeOf
      rw [hmax]
      cases h2 : p a.2 with
      | true =>
        have h1 : p a.1 = true := hp _ _ hlt h2
        simp [maskAbs, firstIvIdx, h1, h2, shiftCode]
      | false =>
        cases h1 : p a.1 with
        | true => simp [maskAbs, firstIvIdx, h1, h2, List.countP_cons]
        | false => simp [maskAbs, firstIvIdx, h1, h2, List.countP_cons, shiftCode]
    | cons b rest =>
      obtain ⟨h1, h2, h3⟩ := hs
      have ihb := ih (by simp) h3
      have hpw : (binsOf (a :: b :: rest)).Pairwise (· < ·) := binsOf_pairwise _ (by simp) ⟨h1, h2, h3⟩
      rw [binsOf_cons_cons] at hpw ⊢
      obtain ⟨t, ht⟩ := binsOf_cons_head b rest
      have hpwB : (binsOf (b :: rest)).Pairwise (· < ·) := (List.pairwise_cons.mp hpw).2
      have hab : a.1 < b.1 := by grind
      cases ha : p a.1 with
      | false =>
        have hall := allFalse_of_head p hp a.1 _ hpw ha
        have hmax : p (listMax (a.1 :: binsOf (b :: rest))) = false := hall _ (listMax_mem _ _)
        have hfi : firstIvIdx p (a :: b :: rest) = -1 := by
          apply firstIvIdx_allLeftFalse
          intro iv hiv
          have := left_mem_binsOf (a :: b :: rest) iv hiv
          rw [binsOf_cons_cons] at this
          exact hall _ this
        rw [hfi]
        simp [edgeCodeOf, hmax, countP_allFalse p _ hall, maskAbs]
      | true =>
        cases hb : p b.1 with
        | false =>
          have hallB : ∀ e ∈ binsOf (b :: rest), p e = false := by
            rw [ht] at hpwB ⊢
            exact allFalse_of_head p hp b.1 t hpwB hb
          have hmax : p (listMax (a.1 :: binsOf (b :: rest))) = false := by
            rw [ht, listMax_cons_cons a.1 b.1 t hab, ← ht]
            apply hallB
            rw [ht]; exact listMax_mem b.1 t
          have hc : (a.1 :: binsOf (b :: rest)).countP p = 1 := by
            rw [List.countP_cons, countP_allFalse p _ hallB]; simp [ha]
          have hrest : firstIvIdx p (b :: rest) = -1 :=
            firstIvIdx_allLeftFalse p _ (fun iv hiv => hallB _ (left_mem_binsOf _ iv hiv))
          have hcode : edgeCodeOf p (a.1 :: binsOf (b :: rest)) = 0 := by simp [edgeCodeOf, hmax, hc]
          rw [hcode]
          cases h2a : p a.2 with
          | true =>
            rw [show firstIvIdx p (a :: b :: rest) = shiftCode (firstIvIdx p (b :: rest)) by
              simp [firstIvIdx, ha, h2a], hrest]
            simp [maskAbs, h2a, shiftCode]
          | false =>
            rw [show firstIvIdx p (a :: b :: rest) = 0 by simp [firstIvIdx, ha, h2a]]
            simp [maskAbs, h2a]
        | true =>
          have h2a : p a.2 = true := by
            by_cases he : a.2 = b.1
            · rw [he]; exact hb
            · exact hp a.2 b.1 (by grind) hb
          have hfi : firstIvIdx p (a :: b :: rest) = shiftCode (firstIvIdx p (b :: rest)) := by
            simp [firstIvIdx, ha, h2a]
          rw [hfi, ← ihb]
          have hc' : (a.1 :: binsOf (b :: rest)).countP p = (binsOf (b :: rest)).countP p + 1 := by
            rw [List.countP_cons]; simp [ha]
          have hpos : 1 ≤ (binsOf (b :: rest)).countP p := by
            rw [ht, List.countP_cons]; simp [hb]
          have hmaxeq : listMax (a.1 :: binsOf (b :: rest)) = listMax (binsOf (b :: rest)) := by
            rw [ht]; exact listMax_cons_cons a.1 b.1 t hab
          unfold edgeCodeOf
          rw [hmaxeq, hc']
          cases p (listMax (binsOf (b :: rest))) with
          | true => simp [maskAbs, shiftCode]
          | false =>
            simp only [Bool.false_eq_true, if_false]
            have e : (((binsOf (b :: rest)).countP p + 1 : Nat) : Int) - 1
                = (((binsOf (b :: rest)).countP p : Nat) : Int) - 1 + 1 := by omega
            rw [e]
            exact maskAbs_succ p a (b :: rest) _ (by omega)

theorem gapMask_eq_maskAbs (ivs : List (Rat × Rat)) (right : Bool) (x : Val) (c : Int) :
    gapMask ivs right x c = maskAbs (below right x) ivs c := by
  unfold gapMask maskAbs below
  cases right <;> rfl

/-- contiguous intervals are exactly the consecutive pairs of their bins -/
theorem intervalsOfBreaks_binsOf : ∀ ivs : List (Rat × Rat), ivs ≠ [] → contiguousB ivs = true →
    intervalsOfBreaks (binsOf ivs) = ivs := by
  intro ivs
  induction ivs with
  | nil => intro h; exact absurd rfl h
  | cons a t ih =>
    intro _ hc
    cases t with
    | nil => simp [binsOf_single, intervalsOfBreaks]
    | cons b rest =>
      simp only [contiguousB, Bool.and_eq_true, beq_iff_eq] at hc
      have ihb := ih (by simp) hc.2
      rw [binsOf_cons_cons]
      obtain ⟨t, ht⟩ := binsOf_cons_head b rest
      rw [ht] at ihb ⊢
      simp only [intervalsOfBreaks]
      rw [ihb, ← hc.1]

/-- **the repaired `_factorize_single` equals `pandas.cut` on every sorted, non-overlapping IntervalIndex** – contiguous
    or with gaps –, for every value (NaN, ±inf included) and both closed sides -/
theorem binCodeIv_eq_cut (ivs : List (Rat × Rat)) (hne : ivs ≠ []) (hs : SortedIvs ivs) (right : Bool) (x : Val) :
    binCodeIv ivs right x = cutCode ivs right x := by
  have hpw := binsOf_pairwise ivs hne hs
  have hbne : binsOf ivs ≠ [] := by
    cases ivs with
    | nil => exact absurd rfl hne
    | cons b rest => obtain ⟨t, ht⟩ := binsOf_cons_head b rest; rw [ht]; simp
  unfold binCodeIv
  cases hc : contiguousB ivs with
  | true =>
    simp only [if_true]
    rw [binCode_eq_cut (binsOf ivs) hbne hpw right x, intervalsOfBreaks_binsOf ivs hne hc]
  | false =>
    simp only [Bool.false_eq_true, if_false]
    by_cases hx : x = .nan
    · subst hx; rw [binCode_nan, cutCode_nan]; simp [gapMask]
    · rw [gapMask_eq_maskAbs, binCode_eq_codeOf _ right x hx, cutCode_eq_firstIdx right x hx]
      exact masked_eq_firstIvIdx (below right x) (fun a b hab hb => below_antitone right x a b hab hb) ivs hne hs

/-! ## Part G – dask labels: block-by-block factorisation against the global found groups = whole-array factorisation -/

private theorem mb_mem_insertSorted (x y : Rat) (l : List Rat) : y ∈ insertSorted x l ↔ y = x ∨ y ∈ l := by
  induction l with
  | nil => simp [insertSorted]
  | cons z zs ih =>
    unfold insertSorted
    split
    · simp
    · split
      · rename_i h; subst h; simp
      · simp only [List.mem_cons, ih]
        constructor
        · rintro (h | h | h) <;> simp [h]
        · rintro (h | h | h) <;> simp [h]

private theorem mb_pairwise_insertSorted (x : Rat) (l : List Rat) (h : l.Pairwise (· < ·)) :
    (insertSorted x l).Pairwise (· < ·) := by
  induction l with
  | nil => simp [insertSorted]
  | cons z zs ih =>
    unfold insertSorted
    have hz := List.pairwise_cons.mp h
    split
    · rename_i hxz
      refine List.pairwise_cons.mpr ⟨?_, h⟩
      intro a ha
      simp only [List.mem_cons] at ha
      rcases ha with rfl | ha
      · exact hxz
      · have := hz.1 a ha; grind
    · split
      · exact h
      · rename_i h1 h2
        refine List.pairwise_cons.mpr ⟨?_, ih hz.2⟩
        intro a ha
        rcases (mb_mem_insertSorted x a zs).mp ha with rfl | ha
        · grind
        · exact hz.1 a ha

private theorem mb_pairwise_uniqSorted (l : List Rat) : (uniqSorted l).Pairwise (· < ·) := by
  induction l with
  | nil => simp [uniqSorted]
  | cons x xs ih => exact mb_pairwise_insertSorted x _ ih

/-- the code of one categorical label against a list of groups (`np.searchsorted` + `isin` mask of `_factorize_single`) -/
def catCode (groups : List Rat) (l : Key) : Int :=
  match l with
  | none => -1
  | some r => match indexOf? r groups with
    | some i => (i : Int)
    | none => -1

theorem factorizeLabels_expected_codes (labels : List Key) (ex : List Rat) (sort : Bool) :
    (factorizeLabels labels (some ex) sort).2
      = labels.map (catCode (if sort then ex.mergeSort (fun a b => decide (a ≤ b)) else ex)) := by
  simp only [factorizeLabels]
  apply List.map_congr_left
  intro l _
  cases l <;> rfl

theorem factorizeLabels_none_codes (labels : List Key) (sort : Bool) :
    (factorizeLabels labels none sort).2 = labels.map (catCode (factorizeLabels labels none sort).1) := by
  simp only [factorizeLabels, factorizeKeys]
  apply List.map_congr_left
  intro l _
  cases l <;> rfl

theorem found_sorted_fixed (labels : List Key) (sort : Bool) :
    (if sort then (factorizeLabels labels none sort).1.mergeSort (fun a b => decide (a ≤ b))
     else (factorizeLabels labels none sort).1) = (factorizeLabels labels none sort).1 := by
  cases sort with
  | false => simp
  | true =>
    simp only [if_true, factorizeLabels, factorizeKeys]
    apply List.mergeSort_of_pairwise
    exact (mb_pairwise_uniqSorted _).imp (fun {a b} h => by simp; grind)

/-- **lazy = eager for a categorical grouper**: factorizing every block against the globally found groups (what the
    repaired `_factorize_multiple` does for dask labels) gives, block after block, the codes of the whole-array
    factorisation – for every chunking that covers the array. -/
theorem lazy_eq_eager_cat (labels : List Key) (sort : Bool) (chunks : List Nat) (h : labels.length ≤ chunks.sum) :
    ((splitBy chunks labels).map fun blk =>
        (factorizeLabels blk (some (factorizeLabels labels none sort).1) sort).2).flatten
      = (factorizeLabels labels none sort).2 := by
  have e : ((splitBy chunks labels).map fun blk =>
        (factorizeLabels blk (some (factorizeLabels labels none sort).1) sort).2)
      = (splitBy chunks labels).map (List.map (catCode (factorizeLabels labels none sort).1)) := by
    apply List.map_congr_left
    intro blk _
    rw [factorizeLabels_expected_codes, found_sorted_fixed]
  rw [e, ← List.map_flatten, splitBy_flatten chunks labels h, ← factorizeLabels_none_codes]

/-- and with requested groups the same holds trivially (the code of a label never depends on its block) -/
theorem lazy_eq_eager_expected (labels : List Key) (ex : List Rat) (sort : Bool) (chunks : List Nat)
    (h : labels.length ≤ chunks.sum) :
    ((splitBy chunks labels).map fun blk => (factorizeLabels blk (some ex) sort).2).flatten
      = (factorizeLabels labels (some ex) sort).2 := by
  have e : ((splitBy chunks labels).map fun blk => (factorizeLabels blk (some ex) sort).2)
      = (splitBy chunks labels).map (List.map (catCode (if sort then ex.mergeSort (fun a b => decide (a ≤ b)) else ex))) := by
    apply List.map_congr_left
    intro blk _
    rw [factorizeLabels_expected_codes]
  rw [e, ← List.map_flatten, splitBy_flatten chunks labels h, ← factorizeLabels_expected_codes]

end Flox
