/-
  C19 helper lemmas: the hand-written decision functions equal the tables regenerated from the live code, and
  properties of the validation chain proved by exhaustive case analysis of the (finite) abstract cell.
-/
import FloxModel.DecisionsEntry
import FloxProofs.DecisionsCore
import FloxModel.Generated.Decisions
import FloxModel.Generated.Sites

namespace Flox.Decisions

/-! ### the model equals the regenerated tables (a behavioural edit of the Python breaks these) -/

theorem features_eq_generated :
    ∀ r ∈ Generated.funcFeatures, r.kind.isArg = r.isArg ∧ r.kind.isFirstLast = r.isFirstLast ∧
      r.kind.strictFirstLast = r.strictFirstLast ∧ r.kind.chunkNone = r.chunkNone ∧ r.kind.needsQ = r.needsQ := by
  decide +kernel

theorem validateReindex_eq_generated :
    ∀ r ∈ Generated.validateReindexRows,
      validateReindex r.reindex r.kind.cls r.method r.expected r.byDask r.arrDask r.isFloat = r.result := by
  decide +kernel

theorem chooseMethod_eq_generated :
    ∀ r ∈ Generated.chooseMethodRows,
      chooseMethod r.method r.preferred r.chunkNone r.naxEqNdim r.isArg = r.result := by
  decide +kernel

theorem chooseEngine_eq_generated :
    ∀ r ∈ Generated.chooseEngineRows,
      chooseEngine r.kind r.countMask r.sorted r.byDask r.dtypeGiven r.hasNumbagg = r.engine := by
  decide +kernel

/-- the tables cover the whole abstract domain (13 kinds × 3 × 4 × 2⁴ ; 4 × 3 × 2³ ; 31 names × 2⁴) -/
theorem generated_tables_complete :
    Generated.validateReindexRows.length = 13 * 3 * 4 * 16 ∧ Generated.chooseMethodRows.length = 4 * 3 * 8 ∧
    Generated.chooseEngineRows.length = 31 * 32 ∧ Generated.funcFeatures.length = 31 := by
  refine ⟨by decide +kernel, by decide +kernel, by decide +kernel, by decide +kernel⟩

/-! ### `_validate_reindex` -/

def vrCheck (q : Option Bool → FuncClass → Option Method → Bool → Bool → Bool → Bool → Bool) : Bool :=
  allOptBool.all fun r => allFuncClass.all fun k => allOptMethod.all fun m => allBool.all fun e =>
  allBool.all fun b => allBool.all fun a => allBool.all fun f => q r k m e b a f

theorem vrCheck_forall {q} (h : vrCheck q = true) : ∀ r k m e b a f, q r k m e b a f = true :=
  fun r k m e b a f =>
    forall_bool (forall_bool (forall_bool (forall_bool (forall_optMethod (forall_funcClass (forall_optBool h r) k) m) e) b) a) f

theorem validate_never_cohorts_with_blockwise_reindex
    (reindex : Option Bool) (k : FuncClass) (expected byDask arrDask isFloat : Bool)
    (hdask : (arrDask || byDask) = true) :
    validateReindex reindex k (some .cohorts) expected byDask arrDask isFloat ≠ .ok (some true) := by
  have h := vrCheck_forall (q := fun r k _ e b a f =>
    !(a || b) || decide (validateReindex r k (some .cohorts) e b a f ≠ .ok (some true))) (by decide +kernel)
    reindex k none expected byDask arrDask isFloat
  simpa [hdask] using h

/-- arg-reductions on chunked input are never reindexed blockwise, except under an explicit blockwise plan with
    dask labels (where `reindex` resolves to `any_by_dask`) -/
theorem argreduce_never_reindex_true
    (reindex : Option Bool) (method : Option Method) (expected byDask arrDask isFloat : Bool)
    (hdask : (arrDask || byDask) = true) (hm : (method == some .blockwise && byDask) = false) :
    validateReindex reindex .arg method expected byDask arrDask isFloat ≠ .ok (some true) := by
  have h := vrCheck_forall (q := fun r _ m e b a f =>
    !(a || b) || (m == some .blockwise && b) || decide (validateReindex r .arg m e b a f ≠ .ok (some true))) (by decide +kernel)
    reindex .arg method expected byDask arrDask isFloat
  simpa [hdask, hm] using h

theorem argreduce_blockwise_dask_labels_counterexample :
    validateReindex none .arg (some .blockwise) true true true true = .ok (some true) := by decide +kernel

theorem first_last_never_reindex_blockwise
    (reindex : Option Bool) (k : FuncClass) (method : Option Method) (expected byDask arrDask isFloat : Bool)
    (hdask : (arrDask || byDask) = true) (hfl : (k.strictFirstLast || (k.isFirstLast && !isFloat)) = true) :
    validateReindex reindex k method expected byDask arrDask isFloat ≠ .ok (some true) := by
  have h := vrCheck_forall (q := fun r k m e b a f =>
    !(a || b) || !(k.strictFirstLast || (k.isFirstLast && !f)) ||
      decide (validateReindex r k m e b a f ≠ .ok (some true))) (by decide +kernel)
    reindex k method expected byDask arrDask isFloat
  simpa [hdask, hfl] using h

theorem validateReindex_clean
    (reindex : Option Bool) (k : FuncClass) (method : Option Method) (expected byDask arrDask isFloat : Bool) :
    validateReindex reindex k method expected byDask arrDask isFloat ≠ .err .assertion ∧
    validateReindex reindex k method expected byDask arrDask isFloat ≠ .err .other := by
  have h := vrCheck_forall (q := fun r k m e b a f =>
    decide (validateReindex r k m e b a f ≠ .err .assertion ∧ validateReindex r k m e b a f ≠ .err .other))
    (by decide +kernel) reindex k method expected byDask arrDask isFloat
  simpa using h

/-- a method given explicitly always resolves `reindex.blockwise` to a definite Boolean -/
theorem resolveReindex_definite
    (reindex : Option Bool) (k : FuncClass) (m : Method) (expected byDask arrDask isFloat : Bool) :
    resolveReindex reindex k (some m) expected byDask arrDask isFloat ≠ none := by
  have h := vrCheck_forall (q := fun r k m e b a f =>
    match m with
    | none => true
    | some m => decide (resolveReindex r k (some m) e b a f ≠ none)) (by decide +kernel)
    reindex k (some m) expected byDask arrDask isFloat
  simpa using h

/-! ### `_choose_method` -/

theorem auto_method_total (preferred : Method) (naxEqNdim isArg : Bool) :
    (chooseMethod none preferred false naxEqNdim isArg).isOk = true := by
  cases preferred <;> cases naxEqNdim <;> cases isArg <;> decide

theorem explicit_method_kept (m preferred : Method) (chunkNone naxEqNdim isArg : Bool) :
    chooseMethod (some m) preferred chunkNone naxEqNdim isArg = .ok m := rfl

theorem auto_method_arg_never_blockwise (preferred : Method) (naxEqNdim : Bool) :
    chooseMethod none preferred false naxEqNdim true ≠ .ok .blockwise := by
  cases preferred <;> cases naxEqNdim <;> decide

/-! ### `_choose_engine` -/

def qEngine (k : FuncKind) (cm s b d n : Bool) : Bool :=
  (!k.isArg || decide (chooseEngine k cm s b d n ≠ .flox)) &&
  (!k.quantileLike || decide (chooseEngine k cm s b d n = .flox)) &&
  (decide (chooseEngine k cm s b d n ≠ .numbagg) || (n && !k.isArg && (!d || k.isAnyAll))) &&
  decide (chooseEngine k cm s b d n ≠ .numba)

theorem check_engine :
    (allFuncKind.all fun k => allBool.all fun cm => allBool.all fun s => allBool.all fun b => allBool.all fun d =>
      allBool.all fun n => qEngine k cm s b d n) = true := by decide +kernel

/-- the engine flox picks can run the reduction: never its own engine for arg-reductions, always its own engine for
    quantile / median (the only one implementing them), numbagg only when importable, for a non-arg reduction and
    without a `dtype`, never numba -/
theorem engine_able (k : FuncKind) (countMask sorted byDask dtypeGiven hasNumbagg : Bool) :
    (k.isArg = true → chooseEngine k countMask sorted byDask dtypeGiven hasNumbagg ≠ .flox) ∧
    (k.quantileLike = true → chooseEngine k countMask sorted byDask dtypeGiven hasNumbagg = .flox) ∧
    (chooseEngine k countMask sorted byDask dtypeGiven hasNumbagg = .numbagg →
        hasNumbagg = true ∧ k.isArg = false ∧ (dtypeGiven = false ∨ k.isAnyAll = true)) ∧
    chooseEngine k countMask sorted byDask dtypeGiven hasNumbagg ≠ .numba := by
  have h := forall_bool (forall_bool (forall_bool (forall_bool (forall_bool (forall_funcKind check_engine k) countMask) sorted) byDask) dtypeGiven) hasNumbagg
  simp only [qEngine, Bool.and_eq_true, Bool.or_eq_true, Bool.not_eq_true', decide_eq_true_eq] at h
  obtain ⟨⟨⟨h1, h2⟩, h3⟩, h4⟩ := h
  refine ⟨fun ha => ?_, fun hq => ?_, fun hn => ?_, h4⟩
  · rcases h1 with h1 | h1
    · rw [ha] at h1; exact absurd h1 (by decide)
    · exact h1
  · rcases h2 with h2 | h2
    · rw [hq] at h2; exact absurd h2 (by decide)
    · exact h2
  · rcases h3 with h3 | h3
    · exact absurd hn h3
    · obtain ⟨⟨hh, hk⟩, hd⟩ := h3
      exact ⟨hh, hk, hd⟩

theorem entryGuards_clean (k : FuncKind) (engine : Option Engine) (dtypeGiven dtypeInt qGiven byDask arrDask : Bool) :
    entryGuards k engine dtypeGiven dtypeInt qGiven byDask arrDask ≠ .err .assertion ∧
    entryGuards k engine dtypeGiven dtypeInt qGiven byDask arrDask ≠ .err .other := by
  unfold entryGuards
  repeat' split
  all_goals simp

end Flox.Decisions
