/-
  Proofs about the generic task-graph model (FloxModel/Graph.lean): schedules of pure tasks.

  Invariants used:
  * `Consistent g m` – every entry of the memo is its task's function applied to the entries of its dependencies,
                        which are all present
  * `Agree m₁ m₂`    – two memos give equal values wherever both have one
  * `Sub m₁ m₂`      – every entry of `m₁` is an entry of `m₂`
-/
import FloxModel.Graph

namespace Flox.Graph

set_option linter.unusedSectionVars false

variable {K V : Type} [DecidableEq K]

def Consistent (g : Graph K V) (m : Memo K V) : Prop :=
  ∀ k v, m k = some v → ∃ t vs, g.lookup k = some t ∧ fetch m t.deps = some vs ∧ v = t.fn vs

def Agree (m₁ m₂ : Memo K V) : Prop := ∀ k v₁ v₂, m₁ k = some v₁ → m₂ k = some v₂ → v₁ = v₂

def Sub (m₁ m₂ : Memo K V) : Prop := ∀ k v, m₁ k = some v → m₂ k = some v

/-! ### memo -/

@[simp] theorem Memo.empty_apply (k : K) : (Memo.empty : Memo K V) k = none := rfl
@[simp] theorem Memo.set_self (m : Memo K V) (k : K) (v : V) : m.set k v k = some v := by simp [Memo.set]
theorem Memo.set_other (m : Memo K V) {k k' : K} (v : V) (h : k' ≠ k) : m.set k v k' = m k' := by simp [Memo.set, h]
@[simp] theorem Memo.erase_self (m : Memo K V) (k : K) : m.erase k k = none := by simp [Memo.erase]
theorem Memo.erase_other (m : Memo K V) {k k' : K} (h : k' ≠ k) : m.erase k k' = m k' := by simp [Memo.erase, h]

theorem consistent_empty (g : Graph K V) : Consistent g (Memo.empty : Memo K V) := by
  intro k v h; simp at h

theorem agree_empty (m : Memo K V) : Agree (Memo.empty : Memo K V) m := by
  intro k v₁ v₂ h; simp at h

theorem sub_empty (m : Memo K V) : Sub (Memo.empty : Memo K V) m := by
  intro k v h; simp at h

/-! ### fetch -/

theorem fetch_cons_some {m : Memo K V} {d : K} {ds : List K} {vs : List V} (h : fetch m (d :: ds) = some vs) :
    ∃ v vs', m d = some v ∧ fetch m ds = some vs' ∧ vs = v :: vs' := by
  unfold fetch at h
  cases hd : m d with
  | none => simp [hd] at h
  | some v =>
    cases hr : fetch m ds with
    | none => simp [hd, hr] at h
    | some vs' =>
      simp [hd, hr] at h
      exact ⟨v, vs', rfl, rfl, h.symm⟩

theorem fetch_cons_of {m : Memo K V} {d : K} {ds : List K} {v : V} {vs : List V} (h₁ : m d = some v)
    (h₂ : fetch m ds = some vs) : fetch m (d :: ds) = some (v :: vs) := by
  simp [fetch, h₁, h₂]

theorem fetch_some_mem {m : Memo K V} : ∀ {deps : List K} {vs : List V}, fetch m deps = some vs →
    ∀ d ∈ deps, ∃ v, m d = some v
  | [], _, _, d, hd => by simp at hd
  | d' :: ds, vs, h, d, hd => by
    obtain ⟨v, vs', h₁, h₂, _⟩ := fetch_cons_some h
    rcases List.mem_cons.mp hd with rfl | hmem
    · exact ⟨v, h₁⟩
    · exact fetch_some_mem h₂ d hmem

theorem fetch_sub {m₁ m₂ : Memo K V} (hs : Sub m₁ m₂) : ∀ {deps : List K} {vs : List V},
    fetch m₁ deps = some vs → fetch m₂ deps = some vs
  | [], vs, h => by simpa [fetch] using h
  | d :: ds, vs, h => by
    obtain ⟨v, vs', h₁, h₂, rfl⟩ := fetch_cons_some h
    exact fetch_cons_of (hs d v h₁) (fetch_sub hs h₂)

theorem fetch_agree {m₁ m₂ : Memo K V} (ha : Agree m₁ m₂) : ∀ {deps : List K} {vs₁ vs₂ : List V},
    fetch m₁ deps = some vs₁ → fetch m₂ deps = some vs₂ → vs₁ = vs₂
  | [], vs₁, vs₂, h₁, h₂ => by
    simp [fetch] at h₁ h₂; rw [h₁, h₂]
  | d :: ds, vs₁, vs₂, h₁, h₂ => by
    obtain ⟨v, vs', a₁, a₂, rfl⟩ := fetch_cons_some h₁
    obtain ⟨w, ws', b₁, b₂, rfl⟩ := fetch_cons_some h₂
    rw [ha d v w a₁ b₁, fetch_agree ha a₂ b₂]

theorem lookup_isSome_iff_mem_keys (g : Graph K V) (k : K) : (g.lookup k).isSome ↔ k ∈ g.keys := by
  induction g with
  | nil => simp [Graph.keys]
  | cons a g ih =>
    obtain ⟨k', t⟩ := a
    by_cases hk : k = k'
    · subst hk; simp [List.lookup, Graph.keys]
    · have hb : (k == k') = false := by simp [hk]
      simp only [List.lookup, hb, Graph.keys, List.map_cons, List.mem_cons, hk, false_or]
      exact ih


/-! ### one step -/

theorem step_some {g : Graph K V} {m m' : Memo K V} {k : K} (h : step g m k = some m') :
    ∃ t vs, g.lookup k = some t ∧ fetch m t.deps = some vs ∧ m' = m.set k (t.fn vs) := by
  unfold step at h
  cases hl : g.lookup k with
  | none => simp [hl] at h
  | some t =>
    cases hf : fetch m t.deps with
    | none => simp [hl, hf] at h
    | some vs =>
      simp [hl, hf] at h
      exact ⟨t, vs, rfl, hf, h.symm⟩

theorem step_of {g : Graph K V} {m : Memo K V} {k : K} {t : Task K V} {vs : List V} (hl : g.lookup k = some t)
    (hf : fetch m t.deps = some vs) : step g m k = some (m.set k (t.fn vs)) := by
  simp [step, hl, hf]

/-- executing a task whose result is already in a consistent memo stores the value that is there already -/
theorem set_sub {g : Graph K V} {m : Memo K V} (hc : Consistent g m) {k : K} {t : Task K V} {vs : List V}
    (hl : g.lookup k = some t) (hf : fetch m t.deps = some vs) : Sub m (m.set k (t.fn vs)) := by
  intro d w hd
  by_cases hdk : d = k
  · subst hdk
    obtain ⟨t', vs', hl', hf', hw⟩ := hc d w hd
    rw [hl] at hl'; cases hl'
    rw [hf] at hf'; cases hf'
    simp [hw]
  · rw [Memo.set_other _ _ hdk]; exact hd

theorem step_sub {g : Graph K V} {m m' : Memo K V} (hc : Consistent g m) {k : K} (h : step g m k = some m') :
    Sub m m' := by
  obtain ⟨t, vs, hl, hf, rfl⟩ := step_some h
  exact set_sub hc hl hf

theorem step_consistent {g : Graph K V} {m m' : Memo K V} (hc : Consistent g m) {k : K}
    (h : step g m k = some m') : Consistent g m' := by
  have hsub := step_sub hc h
  obtain ⟨t, vs, hl, hf, rfl⟩ := step_some h
  intro k' v hk'
  by_cases hkk : k' = k
  · subst hkk
    simp at hk'
    exact ⟨t, vs, hl, fetch_sub hsub hf, hk'.symm⟩
  · rw [Memo.set_other _ _ hkk] at hk'
    obtain ⟨t', vs', hl', hf', hv⟩ := hc k' v hk'
    exact ⟨t', vs', hl', fetch_sub hsub hf', hv⟩

theorem step_agree {g : Graph K V} {m m' m₂ : Memo K V} (hc₂ : Consistent g m₂) (ha : Agree m m₂) {k : K}
    (h : step g m k = some m') : Agree m' m₂ := by
  obtain ⟨t, vs, hl, hf, rfl⟩ := step_some h
  intro k' v₁ v₂ h₁ h₂
  by_cases hkk : k' = k
  · subst hkk
    simp at h₁
    obtain ⟨t', vs', hl', hf', hv⟩ := hc₂ k' v₂ h₂
    rw [hl] at hl'; cases hl'
    rw [← h₁, hv, fetch_agree ha hf hf']
  · rw [Memo.set_other _ _ hkk] at h₁
    exact ha k' v₁ v₂ h₁ h₂

/-- re-execution is a no-op: a task whose result is present in a consistent memo can always be executed again, and
    the memo does not change -/
theorem step_replay {g : Graph K V} {m : Memo K V} (hc : Consistent g m) {k : K} {v : V} (hk : m k = some v) :
    step g m k = some m := by
  obtain ⟨t, vs, hl, hf, hv⟩ := hc k v hk
  rw [step_of hl hf]
  congr 1
  funext k'
  by_cases hkk : k' = k
  · subst hkk; simp [hk, hv]
  · exact Memo.set_other _ _ hkk

theorem step_dom {g : Graph K V} {m m' : Memo K V} {k : K} (h : step g m k = some m') (k' : K) :
    (m' k').isSome ↔ ((m k').isSome ∨ k' = k) := by
  obtain ⟨t, vs, _, _, rfl⟩ := step_some h
  by_cases hkk : k' = k
  · subst hkk; simp
  · simp [Memo.set_other _ _ hkk, hkk]

theorem step_key_mem {g : Graph K V} {m m' : Memo K V} {k : K} (h : step g m k = some m') : k ∈ g.keys := by
  obtain ⟨t, _, hl, _, _⟩ := step_some h
  exact (lookup_isSome_iff_mem_keys g k).mp (by simp [hl])

/-! ### whole schedules -/

theorem evalOrder_cons_some {g : Graph K V} {k : K} {ks : List K} {m r : Memo K V}
    (h : evalOrder g (k :: ks) m = some r) : ∃ m', step g m k = some m' ∧ evalOrder g ks m' = some r := by
  unfold evalOrder at h
  cases hs : step g m k with
  | none => simp [hs] at h
  | some m' => simp [hs] at h; exact ⟨m', rfl, h⟩

theorem evalOrder_cons_of {g : Graph K V} {k : K} {ks : List K} {m m' : Memo K V} (hs : step g m k = some m') :
    evalOrder g (k :: ks) m = evalOrder g ks m' := by
  simp [evalOrder, hs]

theorem evalOrder_append {g : Graph K V} : ∀ (o₁ o₂ : List K) (m : Memo K V),
    evalOrder g (o₁ ++ o₂) m = (evalOrder g o₁ m).bind (evalOrder g o₂)
  | [], o₂, m => by simp [evalOrder]
  | k :: ks, o₂, m => by
    cases hs : step g m k with
    | none => simp [evalOrder, hs]
    | some m' => simp [evalOrder, hs, evalOrder_append ks o₂ m']

theorem eval_consistent {g : Graph K V} : ∀ {o : List K} {m r : Memo K V}, Consistent g m →
    evalOrder g o m = some r → Consistent g r
  | [], m, r, hc, h => by simp [evalOrder] at h; exact h ▸ hc
  | k :: ks, m, r, hc, h => by
    obtain ⟨m', hs, hr⟩ := evalOrder_cons_some h
    exact eval_consistent (step_consistent hc hs) hr

theorem eval_agree {g : Graph K V} {m₂ : Memo K V} (hc₂ : Consistent g m₂) : ∀ {o : List K} {m r : Memo K V},
    Agree m m₂ → evalOrder g o m = some r → Agree r m₂
  | [], m, r, ha, h => by simp [evalOrder] at h; exact h ▸ ha
  | k :: ks, m, r, ha, h => by
    obtain ⟨m', hs, hr⟩ := evalOrder_cons_some h
    exact eval_agree hc₂ (step_agree hc₂ ha hs) hr

theorem eval_dom {g : Graph K V} : ∀ {o : List K} {m r : Memo K V}, evalOrder g o m = some r →
    ∀ k', (r k').isSome ↔ ((m k').isSome ∨ k' ∈ o)
  | [], m, r, h, k' => by simp [evalOrder] at h; simp [h]
  | k :: ks, m, r, h, k' => by
    obtain ⟨m', hs, hr⟩ := evalOrder_cons_some h
    rw [eval_dom hr k', step_dom hs k', List.mem_cons, or_assoc]

theorem eval_keys_mem {g : Graph K V} : ∀ {o : List K} {m r : Memo K V}, evalOrder g o m = some r →
    ∀ k ∈ o, k ∈ g.keys
  | [], _, _, _, k, hk => by simp at hk
  | k₀ :: ks, m, r, h, k, hk => by
    obtain ⟨m', hs, hr⟩ := evalOrder_cons_some h
    rcases List.mem_cons.mp hk with rfl | hmem
    · exact step_key_mem hs
    · exact eval_keys_mem hr k hmem

/-- two memos that agree and have the same domain are equal -/
theorem memo_ext_of_agree {m₁ m₂ : Memo K V} (ha : Agree m₁ m₂) (hd : ∀ k, (m₁ k).isSome ↔ (m₂ k).isSome) :
    m₁ = m₂ := by
  funext k
  cases h₁ : m₁ k with
  | none =>
    cases h₂ : m₂ k with
    | none => rfl
    | some v₂ => have := (hd k).mpr (by simp [h₂]); simp [h₁] at this
  | some v₁ =>
    cases h₂ : m₂ k with
    | none => have := (hd k).mp (by simp [h₁]); simp [h₂] at this
    | some v₂ => rw [ha k v₁ v₂ h₁ h₂]

/-- (1) general form: two successful schedules from the empty memo that execute the same SET of keys (in any orders, any
    number of times each) end in the same memo -/
theorem eval_same_keys {g : Graph K V} {o₁ o₂ : List K} {m₁ m₂ : Memo K V}
    (h₁ : evalOrder g o₁ Memo.empty = some m₁) (h₂ : evalOrder g o₂ Memo.empty = some m₂)
    (hk : ∀ k, k ∈ o₁ ↔ k ∈ o₂) : m₁ = m₂ := by
  have hc₂ := eval_consistent (consistent_empty g) h₂
  refine memo_ext_of_agree (eval_agree hc₂ (agree_empty _) h₁) fun k => ?_
  rw [eval_dom h₁ k, eval_dom h₂ k, hk k]

theorem complete_iff {g : Graph K V} {o : List K} {m : Memo K V} (h : evalOrder g o Memo.empty = some m)
    (hcomp : Complete g o) (k : K) : k ∈ o ↔ k ∈ g.keys :=
  ⟨eval_keys_mem h k, hcomp k⟩

/-- the memo of a complete successful schedule is a `Solution` -/
theorem eval_solution {g : Graph K V} {o : List K} {m : Memo K V} (h : evalOrder g o Memo.empty = some m)
    (hcomp : Complete g o) : Solution g m := by
  have hc := eval_consistent (consistent_empty g) h
  intro k
  cases hl : g.lookup k with
  | none =>
    show m k = none
    cases hm : m k with
    | none => rfl
    | some v => obtain ⟨t, _, hl', _, _⟩ := hc k v hm; rw [hl] at hl'; cases hl'
  | some t =>
    show ∃ vs, fetch m t.deps = some vs ∧ m k = some (t.fn vs)
    have hmem : k ∈ g.keys := (lookup_isSome_iff_mem_keys g k).mp (by simp [hl])
    have : (m k).isSome := (eval_dom h k).mpr (Or.inr (hcomp k hmem))
    obtain ⟨v, hv⟩ := Option.isSome_iff_exists.mp this
    obtain ⟨t', vs, hl', hf, hvv⟩ := hc k v hv
    rw [hl] at hl'; cases hl'
    exact ⟨vs, hf, by rw [hv, hvv]⟩

theorem solution_consistent {g : Graph K V} {den : Memo K V} (hs : Solution g den) : Consistent g den := by
  intro k v hk
  have := hs k
  cases hl : g.lookup k with
  | none => simp [hl] at this; rw [this] at hk; cases hk
  | some t =>
    simp [hl] at this
    obtain ⟨vs, hf, hd⟩ := this
    rw [hk] at hd; cases hd
    exact ⟨t, vs, rfl, hf, rfl⟩

theorem solution_dom {g : Graph K V} {den : Memo K V} (hs : Solution g den) (k : K) :
    (den k).isSome ↔ k ∈ g.keys := by
  rw [← lookup_isSome_iff_mem_keys]
  have := hs k
  cases hl : g.lookup k with
  | none => simp [hl] at this; simp [this]
  | some t =>
    simp [hl] at this
    obtain ⟨vs, _, hd⟩ := this
    simp [hd]

/-- a graph that can be executed at all has exactly one solution: the memo of any complete successful schedule -/
theorem solution_unique {g : Graph K V} {o : List K} {m den : Memo K V}
    (h : evalOrder g o Memo.empty = some m) (hcomp : Complete g o) (hs : Solution g den) : m = den := by
  refine memo_ext_of_agree (eval_agree (solution_consistent hs) (agree_empty _) h) fun k => ?_
  rw [eval_dom h k, solution_dom hs k]
  simp [complete_iff h hcomp k]

/-! ### re-execution -/

/-- `Replays seen o o'`: the schedule `o'` is the schedule `o` with extra executions inserted, each of a key that has
    been executed before that position (`seen` = keys already present when the schedules start) -/
inductive Replays : List K → List K → List K → Prop where
  | nil (seen) : Replays seen [] []
  | keep (seen k o o') : Replays (k :: seen) o o' → Replays seen (k :: o) (k :: o')
  | again (seen k o o') : k ∈ seen → Replays seen o o' → Replays seen o (k :: o')

theorem eval_replays {g : Graph K V} {seen o o' : List K} (hr : Replays seen o o') : ∀ {m r : Memo K V},
    Consistent g m → (∀ k ∈ seen, (m k).isSome) → evalOrder g o m = some r → evalOrder g o' m = some r := by
  induction hr with
  | nil seen => intro m r _ _ h; exact h
  | keep seen k o o' _ ih =>
    intro m r hc hseen h
    obtain ⟨m', hs, hr'⟩ := evalOrder_cons_some h
    rw [evalOrder_cons_of hs]
    refine ih (step_consistent hc hs) (fun k' hk' => ?_) hr'
    rw [step_dom hs k']
    rcases List.mem_cons.mp hk' with rfl | hmem
    · exact Or.inr rfl
    · exact Or.inl (hseen k' hmem)
  | again seen k o o' hk _ ih =>
    intro m r hc hseen h
    obtain ⟨v, hv⟩ := Option.isSome_iff_exists.mp (hseen k hk)
    rw [evalOrder_cons_of (step_replay hc hv)]
    exact ih hc hseen h

theorem replays_refl : ∀ (seen o : List K), Replays seen o o
  | seen, [] => .nil seen
  | seen, k :: ks => .keep seen k ks ks (replays_refl (k :: seen) ks)

/-- one extra execution of `k` inserted anywhere after a position where `k` has been executed -/
theorem replays_insert (k : K) (s : List K) : ∀ (p seen : List K), (k ∈ seen ∨ k ∈ p) →
    Replays seen (p ++ s) (p ++ k :: s)
  | [], seen, h => by
    rcases h with h | h
    · exact .again seen k s s h (replays_refl seen s)
    · simp at h
  | a :: p', seen, h => by
    refine .keep seen a (p' ++ s) (p' ++ k :: s) (replays_insert k s p' (a :: seen) ?_)
    rcases h with h | h
    · exact Or.inl (List.mem_cons_of_mem a h)
    · rcases List.mem_cons.mp h with rfl | h'
      · exact Or.inl List.mem_cons_self
      · exact Or.inr h'

/-- the whole schedule executed a second time after itself -/
theorem replays_twice : ∀ (o seen extra : List K), (∀ k ∈ extra, k ∈ seen ∨ k ∈ o) → Replays seen o (o ++ extra)
  | [], seen, extra, h => by
    induction extra with
    | nil => exact .nil seen
    | cons e es ih =>
      have he : e ∈ seen := by
        rcases h e List.mem_cons_self with h' | h'
        · exact h'
        · simp at h'
      exact .again seen e [] es he (ih fun k hk => h k (List.mem_cons_of_mem e hk))
  | a :: o', seen, extra, h => by
    refine .keep seen a o' (o' ++ extra) (replays_twice o' (a :: seen) extra fun k hk => ?_)
    rcases h k hk with h' | h'
    · exact Or.inl (List.mem_cons_of_mem a h')
    · rcases List.mem_cons.mp h' with rfl | h''
      · exact Or.inl List.mem_cons_self
      · exact Or.inr h''

/-! ### lost results -/

theorem runOps_sub {g : Graph K V} {den : Memo K V} (hs : Solution g den) : ∀ {ops : List (Op K)} {m r : Memo K V},
    Sub m den → runOps g ops m = some r → Sub r den
  | [], m, r, hsub, h => by simp [runOps] at h; exact h ▸ hsub
  | .lose k :: os, m, r, hsub, h => by
    simp only [runOps] at h
    refine runOps_sub hs (fun k' v hk' => ?_) h
    by_cases hkk : k' = k
    · subst hkk; simp at hk'
    · rw [Memo.erase_other _ hkk] at hk'; exact hsub k' v hk'
  | .exec k :: os, m, r, hsub, h => by
    simp only [runOps] at h
    cases hst : step g m k with
    | none => simp [hst] at h
    | some m' =>
      simp [hst] at h
      refine runOps_sub hs (fun k' v hk' => ?_) h
      obtain ⟨t, vs, hl, hf, rfl⟩ := step_some hst
      by_cases hkk : k' = k
      · subst hkk
        simp at hk'
        have := hs k'
        simp [hl] at this
        obtain ⟨vs', hf', hd⟩ := this
        rw [fetch_sub hsub hf] at hf'; cases hf'
        rw [hd, hk']
      · rw [Memo.set_other _ _ hkk] at hk'; exact hsub k' v hk'

theorem runOps_exec (g : Graph K V) : ∀ (o : List K) (m : Memo K V),
    runOps g (o.map Op.exec) m = evalOrder g o m
  | [], m => rfl
  | k :: ks, m => by
    cases hs : step g m k with
    | none => simp [runOps, evalOrder, hs]
    | some m' => simp [runOps, evalOrder, hs, runOps_exec g ks m']

/-! ### shipping tasks -/

theorem ship_eq_self {rt : K → Task K V → Task K V} (hf : Faithful rt) (g : Graph K V) : ship rt g = g := by
  unfold ship
  conv => rhs; rw [← List.map_id g]
  apply List.map_congr_left
  intro a _
  obtain ⟨k, t⟩ := a
  have h := hf k t
  have : rt k t = t := by
    cases hr : rt k t with
    | mk d f =>
      cases t with
      | mk d' f' =>
        rw [hr] at h
        simp at h
        obtain ⟨h₁, h₂⟩ := h
        subst h₁
        have : f = f' := funext h₂
        subst this
        rfl
  simp [this]

/-! ### impure tasks -/

theorem lookup_toI (g : Graph K V) (k : K) : (g.toI).lookup k = (g.lookup k).map Task.toI := by
  induction g with
  | nil => rfl
  | cons a g ih =>
    obtain ⟨k', t⟩ := a
    by_cases hk : k = k'
    · subst hk; simp [Graph.toI, List.lookup]
    · have hb : (k == k') = false := by simpa using hk
      simp only [Graph.toI, List.map_cons, List.lookup, hb]
      simpa [Graph.toI] using ih

theorem istep_toI (g : Graph K V) (m : Memo K V) (k : K) : istep g.toI m k = step g m k := by
  unfold istep step
  rw [lookup_toI]
  cases g.lookup k with
  | none => rfl
  | some t =>
    simp only [Option.map_some, Task.toI]
    cases fetch m t.deps with
    | none => rfl
    | some vs => simp [applyWrites]

theorem ievalOrder_toI (g : Graph K V) : ∀ (o : List K) (m : Memo K V), ievalOrder g.toI o m = evalOrder g o m
  | [], _ => rfl
  | k :: ks, m => by
    simp only [ievalOrder, evalOrder, istep_toI]
    cases step g m k with
    | none => rfl
    | some m' => exact ievalOrder_toI g ks m'

/-! ### Boolean form of the specification -/

theorem isSolutionOn_iff [DecidableEq V] (g : Graph K V) (den : Memo K V) (ks : List K) :
    isSolutionOn g den ks = true ↔ ∀ k ∈ ks, match g.lookup k with
      | none => den k = none
      | some t => ∃ vs, fetch den t.deps = some vs ∧ den k = some (t.fn vs) := by
  unfold isSolutionOn
  rw [List.all_eq_true]
  refine forall_congr' fun k => imp_congr_right fun _ => ?_
  cases g.lookup k with
  | none => simp
  | some t =>
    cases hf : fetch den t.deps with
    | none => simp [hf]
    | some vs => simp [hf]

end Flox.Graph
