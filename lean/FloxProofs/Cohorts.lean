/-
  END-TO-END theorem for the `cohorts` plan with the simple combine, for ANY sound cohort structure:

    cohorts_eq_spec               runKnown c (.cohorts cs) … = specification
    cohorts_eq_eager / cohorts_eq_mapreduce
    cohorts_structure_irrelevant  two sound cohort structures / chunkings / split_every give the same result
-/
import FloxProofs.CohortTree

namespace Flox

/-! ### soundness of a cohort structure -/

/-- `cs` (per cohort: block indices w.r.t. `splitBy chunks`, labels) is sound for the data -/
structure CohortsSound (chunks : List Nat) (codes : List Int) (n : Nat) (cs : List (List Nat × List Rat)) :
    Prop where
  /-- (i) every label of every cohort is an integer in `0..n-1` -/
  labels_ok : ∀ co ∈ cs, ∀ ℓ ∈ co.2, ∃ g : Nat, g < n ∧ ℓ = ((g : Nat) : Rat)
  /-- (ii) every requested label that occurs in the data is in some cohort (uniqueness is not needed) -/
  covered : ∀ g : Nat, g < n → Int.ofNat g ∈ codes → ∃ co ∈ cs, ((g : Nat) : Rat) ∈ co.2
  /-- every cohort has at least one block -/
  blocks_ne : ∀ co ∈ cs, co.1 ≠ []
  /-- (iii-a) block indices are valid -/
  blocks_lt : ∀ co ∈ cs, ∀ b ∈ co.1, b < chunks.length
  /-- (iv) block lists are strictly ascending (no block twice; order matters for `nanfirst` / `nanlast`) -/
  blocks_asc : ∀ co ∈ cs, co.1.Pairwise (· < ·)
  /-- (iii-b) a cohort's block list contains every block holding a member of one of its labels -/
  blocks_cover : ∀ co ∈ cs, ∀ g : Nat, ((g : Nat) : Rat) ∈ co.2 → ∀ b, b < chunks.length →
    Int.ofNat g ∈ (splitBy chunks codes).getD b [] → b ∈ co.1

/-- (H_cohortfill) requested labels that are in no cohort are filled by the final reindex of `groupby_reduce` with its
    `fill_value` ARGUMENT (`c.fillArg`), not with the aggregation's user fill (`R.userFill`): the two must agree if such
    a label exists.  (They differ e.g. for `nanmax` / `nanmin` without fill, where `_initialize_aggregation` sets the
    user fill to NaN.)  When no cohort has any label, the reindex of an empty result does not raise even without a
    fill: then a fill is required. -/
def HCohortFill (c : Call) (R : Resolved) (n : Nat) (cs : List (List Nat × List Rat)) : Prop :=
  (∀ g : Nat, g < n → (∀ co ∈ cs, ((g : Nat) : Rat) ∉ co.2) → c.fillArg = R.userFill) ∧
  (cs.flatMap (·.2) = [] → 0 < n → c.fillArg ≠ none)

/-! ### unfolding `runKnown` -/

/-- the per-cohort computation of `runKnown … (.cohorts cs)` with the simple combine -/
def cohortOut (c : Call) (blocks : List Inter) (co : List Nat × List Rat) : Except String (List Key × List Val) :=
  finalizeResults c.R
    (simpleCombine c.R true (treeReduce (simpleCombine c.R true) c.splitEvery
      ((co.1.map fun b => blocks.getD b default).map (reindexInter c.R.interFills (co.2.map some)))))
    (some (co.2.map some)) true

def cohortPairs (c : Call) (rs : List (List Key × List Val)) : List Key × List Val :=
  if c.sort then sortPairs (rs.flatMap (·.1)) (rs.flatMap (·.2)) else (rs.flatMap (·.1), rs.flatMap (·.2))

theorem runKnown_cohorts_unfold (c : Call) (cs : List (List Nat × List Rat)) (floatData : Bool) (chunks : List Nat)
    (keys : List Key) (vals : List Val) (hcombine : useGroupedCombine c floatData = false) :
    runKnown c (.cohorts cs) floatData chunks keys vals
      = (match (cs.map (cohortOut c (blockStage c false chunks keys vals))).mapM id with
        | .error e => .error e
        | .ok rs => finalReindex c false (cohortPairs c rs).1 (cohortPairs c rs).2) := by
  simp only [runKnown, hcombine, Bool.false_eq_true, if_false, Bool.not_false, if_true]
  unfold cohortOut cohortPairs
  cases c.sort <;> rfl

/-! ### one cohort -/

theorem num_natCast_rat (g : Nat) : (((g : Nat) : Rat)).num = Int.ofNat g := by
  simp

theorem cohort_result {s : Shape} {R : Resolved} (hs : s.Fits R) (c : Call) (hR : c.R = R) (n : Nat)
    (chunks : List Nat) (codes : List Int) (vals : List Val) (cs : List (List Nat × List Rat))
    (hlen : codes.length = vals.length) (hsum : chunks.sum = codes.length)
    (hsound : CohortsSound chunks codes n cs)
    (H_absent : ∀ co ∈ cs, ∀ g : Nat, ((g : Nat) : Rat) ∈ co.2 → HAbsent R (members (Int.ofNat g) codes vals))
    (H_minmax : HMinMax R s)
    (co : List Nat × List Rat) (hco : co ∈ cs) :
    cohortOut c ((asegsOf c.sort chunks codes vals).map (spNode R)) co
      = (match co.2.mapM (fun ℓ => specSlot R s.kernel (members ℓ.num codes vals)) with
        | .error e => .error e
        | .ok vs => .ok (co.2.map some, vs)) := by
  subst hR
  have hsegs_len : (segsOf chunks codes vals).length = chunks.length := by
    simp [segsOf, List.length_zip, splitBy_length]
  have hal := segsOf_aligned chunks codes vals hlen
  -- step 1: the reindexed blocks of the cohort are nodes over the cohort's labels
  have hsub : ((co.1.map fun b => ((asegsOf c.sort chunks codes vals).map (spNode c.R)).getD b default).map
        (reindexInter c.R.interFills (co.2.map some)))
      = (selSegs (segsOf chunks codes vals) co.1).map (tNode c.R (co.2.map some)) := by
    unfold selSegs asegsOf
    rw [List.map_map, List.map_map, List.map_map]
    apply List.map_congr_left
    intro b hb
    have hb' : b < (segsOf chunks codes vals).length := by
      rw [hsegs_len]; exact hsound.blocks_lt co hco b hb
    simp only [Function.comp, List.getD_eq_getElem?_getD, List.getElem?_map,
      List.getElem?_eq_getElem hb', Option.map_some, Option.getD_some]
    exact reindexInter_spInter c.R.chunk c.R.interFills _ (blockGroups c.sort _, _) (blockGroups_covers c.sort _)
  unfold cohortOut
  rw [hsub, tree_tNodes c.R (co.2.map some) c.splitEvery hs.len_combine hs.len_interFills
    (fun j hj => fun parts hne => combine_parts _ _ _ (hs.col_mem j hj) parts hne) _
    (by simpa [selSegs] using hsound.blocks_ne co hco) (selSegs_aligned _ _ hal)]
  -- step 2: finalize
  rw [finalizeResults_slots c.R _
    (fun κ => s.mrVal (keyMembers κ (catC (selSegs (segsOf chunks codes vals) co.1))
      (catV (selSegs (segsOf chunks codes vals) co.1))))
    (fun κ => countVal (keyMembers κ (catC (selSegs (segsOf chunks codes vals) co.1))
      (catV (selSegs (segsOf chunks codes vals) co.1))))
    (some (co.2.map some)) true (finalize_shape_gen hs _ _) (count_shape_gen hs _ _)]
  simp only [tNode, spInter]
  rw [mapM_except_map]
  -- step 3: every label's members in the selected blocks are its members in the whole array
  have hslot : ∀ ℓ ∈ co.2,
      maskedSlot c.R (countVal (keyMembers (some ℓ) (catC (selSegs (segsOf chunks codes vals) co.1))
          (catV (selSegs (segsOf chunks codes vals) co.1))))
        (s.mrVal (keyMembers (some ℓ) (catC (selSegs (segsOf chunks codes vals) co.1))
          (catV (selSegs (segsOf chunks codes vals) co.1))))
      = specSlot c.R s.kernel (members ℓ.num codes vals) := by
    intro ℓ hℓ
    obtain ⟨g, hg, rfl⟩ := hsound.labels_ok co hco ℓ hℓ
    rw [keyMembers_nat, num_natCast_rat]
    have hm : members (Int.ofNat g) (catC (selSegs (segsOf chunks codes vals) co.1))
        (catV (selSegs (segsOf chunks codes vals) co.1)) = members (Int.ofNat g) codes vals := by
      rw [members_selSegs (Int.ofNat g) (segsOf chunks codes vals) co.1 hal (hsound.blocks_asc co hco)
        (by intro b hb; rw [hsegs_len]; exact hsound.blocks_lt co hco b hb)
        (by
          intro b hb hmem
          rw [hsegs_len] at hb
          apply hsound.blocks_cover co hco g hℓ b hb
          have h1 : b < (splitBy chunks codes).length := by rw [splitBy_length]; exact hb
          rw [List.getD_eq_getElem?_getD, List.getElem?_eq_getElem h1]
          simpa [segsOf] using hmem),
        segsOf_catC chunks codes vals (by omega), segsOf_catV chunks codes vals (by omega)]
    rw [hm]
    exact mrSlot_eq_specSlot hs _ (H_absent co hco g hℓ) H_minmax
  rw [mapM_except_congr _ _ co.2 hslot]
  rfl

/-! ### all cohorts -/

theorem specSlot_error (R : Resolved) (k : Kernel) (ms : List Val) (e : String) (h : specSlot R k ms = .error e) :
    e = "ValueError" := by
  unfold specSlot optToExcept at h
  split at h
  · cases h
  · simp only [Except.error.injEq] at h; exact h.symm

/-- the per-cohort outputs as a function of the label slots -/
def cohortSlots (slot : Rat → Except String Val) (co : List Nat × List Rat) :
    Except String (List Key × List Val) :=
  match co.2.mapM slot with
  | .error e => .error e
  | .ok vs => .ok (co.2.map some, vs)

theorem cohorts_all_ok (slot : Rat → Except String Val) (cs : List (List Nat × List Rat))
    (hok : ∀ co ∈ cs, ∀ ℓ ∈ co.2, slot ℓ = .ok (exVal (slot ℓ))) :
    (cs.map (cohortSlots slot)).mapM id
      = .ok (cs.map fun co => (co.2.map some, co.2.map fun ℓ => exVal (slot ℓ))) := by
  rw [mapM_except_map, ← mapM_except_ok]
  apply mapM_except_congr
  intro co hco
  simp only [id, cohortSlots]
  rw [mapM_except_congr _ _ co.2 (hok co hco), mapM_except_ok]

theorem cohorts_error (slot : Rat → Except String Val) (cs : List (List Nat × List Rat))
    (herr : ∀ ℓ e, slot ℓ = .error e → e = "ValueError")
    (h : ∃ co ∈ cs, ∃ ℓ ∈ co.2, slot ℓ = .error "ValueError") :
    (cs.map (cohortSlots slot)).mapM id = .error "ValueError" := by
  rw [mapM_except_map]
  apply mapM_except_error_of_mem
  · intro co e he
    simp only [id, cohortSlots] at he
    cases hm : co.2.mapM slot with
    | error e' =>
      rw [hm] at he
      simp only [Except.error.injEq] at he
      subst he
      obtain ⟨ℓ, _, hℓ⟩ := mapM_except_eq_error slot co.2 e' hm
      exact herr ℓ e' hℓ
    | ok vs => rw [hm] at he; cases he
  · obtain ⟨co, hco, ℓ, hℓ, hs⟩ := h
    refine ⟨co, hco, ?_⟩
    simp only [id, cohortSlots]
    rw [mapM_except_error_of_mem slot co.2 "ValueError" herr ⟨ℓ, hℓ, hs⟩]

/-! ### the final reindex -/

theorem reindexCol_fun_opt (G T : List Key) (φ : Key → Val) (uf : Option Val) (hG : G ≠ []) :
    reindexCol (G.map φ) G T uf = T.mapM (fun κ => if κ ∈ G then some (φ κ) else uf) := by
  unfold reindexCol
  have hGe : G.isEmpty = false := by simpa using hG
  simp only [hGe, Bool.false_eq_true, if_false]
  by_cases hGT : G = T
  · subst hGT
    simp only [if_true]
    rw [← mapM_option_some]
    apply mapM_option_congr
    intro κ hκ
    simp [hκ]
  · simp only [hGT, if_false]
    apply mapM_option_congr
    intro g _
    cases hl : lookupKey g G with
    | none =>
      have : g ∉ G := (lookupKey_eq_none_iff g G).mp hl
      simp [this]
    | some i =>
      obtain ⟨hi, hgi⟩ := lookupKey_eq_some g G i hl
      have hg : g ∈ G := hgi ▸ List.getElem_mem hi
      simp only [hg, if_true]
      rw [List.getD_eq_getElem?_getD, List.getElem?_eq_getElem (by simpa using hi)]
      simp [hgi]

theorem zip_map_self {α β} (G : List α) (φ : α → β) : G.zip (G.map φ) = G.map fun κ => (κ, φ κ) := by
  induction G with
  | nil => rfl
  | cons a G ih => simp [ih]

/-- sorting (label, value) pairs whose value is a function of the label -/
theorem sortPairs_fun (G : List Key) (φ : Key → Val) :
    ∃ G' : List Key, (∀ κ, κ ∈ G' ↔ κ ∈ G) ∧ sortPairs G (G.map φ) = (G', G'.map φ) := by
  unfold sortPairs
  simp only
  generalize hle : (fun (a b : Key × Val) => (match a.1, b.1 with
    | some x, some y => decide (x ≤ y)
    | some _, none => true
    | none, some _ => false
    | none, none => true : Bool)) = le
  refine ⟨((G.zip (G.map φ)).mergeSort le).map (·.1), ?_, ?_⟩
  · intro κ
    rw [zip_map_self]
    simp only [List.mem_map, List.mem_mergeSort]
    constructor
    · rintro ⟨p, ⟨a, ha, rfl⟩, rfl⟩; exact ha
    · intro h; exact ⟨(κ, φ κ), ⟨κ, h, rfl⟩, rfl⟩
  · congr 1
    rw [List.map_map]
    apply List.map_congr_left
    intro p hp
    rw [List.mem_mergeSort, zip_map_self] at hp
    obtain ⟨a, _, rfl⟩ := List.mem_map.mp hp
    rfl

/-! ### the end-to-end theorem -/

/-- **Plan F2, end to end.** The `cohorts` plan with the simple combine = specification, for every SOUND cohort
    structure, every chunking and every `split_every`. -/
theorem cohorts_eq_spec (R : Resolved) (s : Shape) (c : Call) (n : Nat) (floatData : Bool)
    (chunks : List Nat) (codes : List Int) (vals : List Val) (cs : List (List Nat × List Rat))
    (hR : c.R = R) (heng : c.eng = .npg) (hn : c.ngroups = n) (_hknown : c.knownLabels = true)
    (hshape : R.shape? = some s) (hlen : codes.length = vals.length)
    (hsound : CohortsSound chunks codes n cs)
    (H_absent : ∀ co ∈ cs, ∀ g : Nat, ((g : Nat) : Rat) ∈ co.2 → HAbsent R (members (Int.ofNat g) codes vals))
    (H_minmax : HMinMax R s)
    (H_fill : HCohortFill c R n cs)
    (hsum : chunks.sum = codes.length)
    (hcombine : useGroupedCombine c floatData = false) :
    runKnown c (.cohorts cs) floatData chunks (codeKeys codes) vals = specResult s.kernel R codes vals n := by
  have hs := (R.shape?_eq_some_iff s).mp hshape
  rw [runKnown_cohorts_unfold c cs floatData chunks _ vals hcombine, specResult_slots hs]
  have hblocks : blockStage c false chunks (codeKeys codes) vals
      = (asegsOf c.sort chunks codes vals).map (spNode R) := by
    rw [← hR]
    exact blockStage_sparse c chunks codes vals heng (hR ▸ hs.isArg) (hR ▸ hs.chunk_noarg) (hR ▸ hs.chunk_zero)
  rw [hblocks]
  -- per cohort
  let slot : Rat → Except String Val := fun ℓ => specSlot R s.kernel (members ℓ.num codes vals)
  have hper : cs.map (cohortOut c ((asegsOf c.sort chunks codes vals).map (spNode R))) = cs.map (cohortSlots slot) := by
    apply List.map_congr_left
    intro co hco
    exact cohort_result hs c hR n chunks codes vals cs hlen hsum hsound H_absent H_minmax co hco
  rw [hper]
  have herr : ∀ ℓ e, slot ℓ = .error e → e = "ValueError" := fun ℓ e h => specSlot_error R _ _ e h
  have hspec_err : ∀ g e, specSlot R s.kernel (members (Int.ofNat g) codes vals) = .error e → e = "ValueError" :=
    fun g e h => specSlot_error R _ _ e h
  by_cases hbad : ∃ co ∈ cs, ∃ ℓ ∈ co.2, slot ℓ = .error "ValueError"
  · -- some cohort raises: so does the specification
    rw [cohorts_error slot cs herr hbad]
    obtain ⟨co, hco, ℓ, hℓ, hsl⟩ := hbad
    obtain ⟨g, hg, rfl⟩ := hsound.labels_ok co hco ℓ hℓ
    simp only [slot, num_natCast_rat] at hsl
    rw [mapM_except_error_of_mem _ (List.range n) "ValueError" hspec_err ⟨g, List.mem_range.mpr hg, hsl⟩]
  · -- all cohorts succeed
    have hok : ∀ co ∈ cs, ∀ ℓ ∈ co.2, slot ℓ = .ok (exVal (slot ℓ)) := by
      intro co hco ℓ hℓ
      cases hsl : slot ℓ with
      | ok v => rfl
      | error e =>
        exfalso
        apply hbad
        have := herr ℓ e hsl
        subst this
        exact ⟨co, hco, ℓ, hℓ, hsl⟩
    rw [cohorts_all_ok slot cs hok]
    simp only
    -- labels and values of all cohorts
    let φ : Key → Val := fun κ => match κ with
      | some ℓ => exVal (slot ℓ)
      | none => Val.nan
    have hgs : (cs.map fun co => ((co.2.map some : List Key), co.2.map fun ℓ => exVal (slot ℓ))).flatMap (·.1)
        = (cs.flatMap (·.2)).map some := by
      simp [List.flatMap_def, List.map_flatten, List.map_map, Function.comp_def]
    have hvs : (cs.map fun co => ((co.2.map some : List Key), co.2.map fun ℓ => exVal (slot ℓ))).flatMap (·.2)
        = ((cs.flatMap (·.2)).map some).map φ := by
      simp [List.flatMap_def, List.map_flatten, List.map_map, Function.comp_def, φ]
    have hpairs : ∃ G' : List Key, (∀ κ, κ ∈ G' ↔ κ ∈ (cs.flatMap (·.2)).map some) ∧
        cohortPairs c (cs.map fun co => ((co.2.map some : List Key), co.2.map fun ℓ => exVal (slot ℓ)))
          = (G', G'.map φ) := by
      unfold cohortPairs
      rw [hgs, hvs]
      by_cases hsort : c.sort = true
      · simp only [hsort, if_true]
        exact sortPairs_fun _ φ
      · simp only [hsort, Bool.false_eq_true, if_false]
        exact ⟨_, fun _ => Iff.rfl, rfl⟩
    obtain ⟨G', hG'mem, hG'⟩ := hpairs
    rw [hG']
    simp only
    have hmemG : ∀ g : Nat, (some ((g : Nat) : Rat) : Key) ∈ G' ↔ ∃ co ∈ cs, ((g : Nat) : Rat) ∈ co.2 := by
      intro g
      rw [hG'mem]
      simp [List.mem_flatMap]
    -- a requested label in no cohort has no member
    have hnomem : ∀ g : Nat, g < n → (∀ co ∈ cs, ((g : Nat) : Rat) ∉ co.2) →
        members (Int.ofNat g) codes vals = [] := by
      intro g hg hno
      apply members_eq_nil_of_ne
      intro c' hc' e
      obtain ⟨co, hco, hmem⟩ := hsound.covered g hg (e ▸ hc')
      exact hno co hco hmem
    unfold finalReindex
    simp only [Bool.false_and, Bool.false_eq_true, if_false, hn]
    by_cases hGe : G' = []
    · -- no label in any cohort
      subst hGe
      have hnone : ∀ g : Nat, ∀ co ∈ cs, ((g : Nat) : Rat) ∉ co.2 := by
        intro g co hco hmem
        have := (hmemG g).mpr ⟨co, hco, hmem⟩
        simp at this
      have hlab : cs.flatMap (·.2) = [] := by
        apply List.eq_nil_iff_forall_not_mem.mpr
        intro ℓ hℓ
        have := (hG'mem (some ℓ)).mpr (List.mem_map.mpr ⟨ℓ, hℓ, rfl⟩)
        simp at this
      simp only [reindexCol, List.map_nil, List.isEmpty_nil, if_true]
      by_cases hn0 : 0 < n
      · have hfa := H_fill.2 hlab hn0
        have hfu : c.fillArg = R.userFill := H_fill.1 0 hn0 (hnone 0)
        cases hf : c.fillArg with
        | none => exact absurd hf hfa
        | some f =>
          simp only [Option.getD_some]
          unfold rangeKeys
          rw [List.map_map, ← mapM_except_ok]
          apply mapM_except_congr
          intro g hg
          have hg' := List.mem_range.mp hg
          rw [hnomem g hg' (hnone g), specSlot_nil, ← hfu, hf]
          rfl
      · have : n = 0 := by omega
        subst this
        rfl
    · rw [reindexCol_fun_opt G' (rangeKeys n) φ c.fillArg hGe]
      have key : optToExcept ((rangeKeys n).mapM (fun κ => if κ ∈ G' then some (φ κ) else c.fillArg))
          = (List.range n).mapM fun (g : Nat) => specSlot R s.kernel (members (Int.ofNat g) codes vals) := by
        rw [mapM_option_toExcept]
        unfold rangeKeys
        rw [mapM_except_map]
        apply mapM_except_congr
        intro g hg
        have hg' := List.mem_range.mp hg
        by_cases hin : (some ((g : Nat) : Rat) : Key) ∈ G'
        · obtain ⟨co, hco, hmem⟩ := (hmemG g).mp hin
          simp only [hin, if_true, optToExcept, φ]
          have := hok co hco _ hmem
          simp only [slot, num_natCast_rat] at this ⊢
          exact this.symm
        · have hno : ∀ co ∈ cs, ((g : Nat) : Rat) ∉ co.2 := fun co hco hmem => hin ((hmemG g).mpr ⟨co, hco, hmem⟩)
          simp only [hin, if_false]
          rw [hnomem g hg' hno, specSlot_nil, H_fill.1 g hg' hno]
          rfl
      cases hr : (rangeKeys n).mapM (fun κ => if κ ∈ G' then some (φ κ) else c.fillArg) with
      | none => rw [hr] at key; rw [← key]; rfl
      | some v => rw [hr] at key; rw [← key]; rfl

/-! ### corollaries -/

/-- **the result does not depend on which sound cohort structure is used**, nor on the chunking, `split_every`, `sort` -/
theorem cohorts_structure_irrelevant (R : Resolved) (s : Shape) (c₁ c₂ : Call) (n : Nat) (floatData : Bool)
    (chunks₁ chunks₂ : List Nat) (codes : List Int) (vals : List Val) (cs₁ cs₂ : List (List Nat × List Rat))
    (hR₁ : c₁.R = R) (heng₁ : c₁.eng = .npg) (hn₁ : c₁.ngroups = n) (hknown₁ : c₁.knownLabels = true)
    (hR₂ : c₂.R = R) (heng₂ : c₂.eng = .npg) (hn₂ : c₂.ngroups = n) (hknown₂ : c₂.knownLabels = true)
    (hshape : R.shape? = some s) (hlen : codes.length = vals.length)
    (hsound₁ : CohortsSound chunks₁ codes n cs₁) (hsound₂ : CohortsSound chunks₂ codes n cs₂)
    (H_absent₁ : ∀ co ∈ cs₁, ∀ g : Nat, ((g : Nat) : Rat) ∈ co.2 → HAbsent R (members (Int.ofNat g) codes vals))
    (H_absent₂ : ∀ co ∈ cs₂, ∀ g : Nat, ((g : Nat) : Rat) ∈ co.2 → HAbsent R (members (Int.ofNat g) codes vals))
    (H_minmax : HMinMax R s)
    (H_fill₁ : HCohortFill c₁ R n cs₁) (H_fill₂ : HCohortFill c₂ R n cs₂)
    (hsum₁ : chunks₁.sum = codes.length) (hsum₂ : chunks₂.sum = codes.length)
    (hcombine₁ : useGroupedCombine c₁ floatData = false) (hcombine₂ : useGroupedCombine c₂ floatData = false) :
    runKnown c₁ (.cohorts cs₁) floatData chunks₁ (codeKeys codes) vals
      = runKnown c₂ (.cohorts cs₂) floatData chunks₂ (codeKeys codes) vals := by
  rw [cohorts_eq_spec R s c₁ n floatData chunks₁ codes vals cs₁ hR₁ heng₁ hn₁ hknown₁ hshape hlen hsound₁
      H_absent₁ H_minmax H_fill₁ hsum₁ hcombine₁,
    cohorts_eq_spec R s c₂ n floatData chunks₂ codes vals cs₂ hR₂ heng₂ hn₂ hknown₂ hshape hlen hsound₂
      H_absent₂ H_minmax H_fill₂ hsum₂ hcombine₂]

/-- cohorts = eager -/
theorem cohorts_eq_eager (R : Resolved) (s : Shape) (c : Call) (n : Nat) (floatData : Bool)
    (chunks chunks' : List Nat) (codes : List Int) (vals : List Val) (cs : List (List Nat × List Rat))
    (hR : c.R = R) (heng : c.eng = .npg) (hn : c.ngroups = n) (hknown : c.knownLabels = true)
    (hshape : R.shape? = some s) (hcodes : CodesOK codes n) (hlen : codes.length = vals.length)
    (hsound : CohortsSound chunks codes n cs)
    (H_absent : ∀ g : Nat, g < n → HAbsent R (members (Int.ofNat g) codes vals))
    (H_allnan : HAllNaN R s) (H_minmax : HMinMax R s) (H_fill : HCohortFill c R n cs)
    (hsum : chunks.sum = codes.length)
    (hcombine : useGroupedCombine c floatData = false) :
    runKnown c (.cohorts cs) floatData chunks (codeKeys codes) vals
      = runKnown c .eager floatData chunks' (codeKeys codes) vals := by
  rw [cohorts_eq_spec R s c n floatData chunks codes vals cs hR heng hn hknown hshape hlen hsound
      (fun co hco g hg => by
        obtain ⟨g', hg', e⟩ := hsound.labels_ok co hco _ hg
        have : g = g' := by
          have h1 : ((g : Int) : Rat) = ((g' : Int) : Rat) := by
            rw [Rat.intCast_natCast, Rat.intCast_natCast]; exact e
          have := Rat.intCast_inj.mp h1
          omega
        subst this
        exact H_absent g hg')
      H_minmax H_fill hsum hcombine,
    eager_eq_spec R s c n floatData chunks' codes vals hR heng hn hknown hshape hcodes hlen H_absent H_allnan]

/-- cohorts = map-reduce without reindexing at the block stage -/
theorem cohorts_eq_mapreduce_sparse (R : Resolved) (s : Shape) (c : Call) (n : Nat) (floatData : Bool)
    (chunks chunks' : List Nat) (codes : List Int) (vals : List Val) (cs : List (List Nat × List Rat))
    (hR : c.R = R) (heng : c.eng = .npg) (hn : c.ngroups = n) (hknown : c.knownLabels = true)
    (hshape : R.shape? = some s) (hcodes : CodesOK codes n) (hlen : codes.length = vals.length)
    (hsound : CohortsSound chunks codes n cs)
    (H_absent : ∀ co ∈ cs, ∀ g : Nat, ((g : Nat) : Rat) ∈ co.2 → HAbsent R (members (Int.ofNat g) codes vals))
    (H_dropped : HDropped R n codes vals)
    (H_minmax : HMinMax R s) (H_fill : HCohortFill c R n cs)
    (hsum : chunks.sum = codes.length) (hsum' : chunks'.sum = codes.length)
    (hcombine : useGroupedCombine c floatData = false) :
    runKnown c (.cohorts cs) floatData chunks (codeKeys codes) vals
      = runKnown c (.mapreduce false) floatData chunks' (codeKeys codes) vals := by
  rw [cohorts_eq_spec R s c n floatData chunks codes vals cs hR heng hn hknown hshape hlen hsound
      H_absent H_minmax H_fill hsum hcombine,
    mapreduce_sparse_eq_spec R s c n floatData chunks' codes vals hR heng hn hknown hshape hcodes hlen H_dropped
      H_minmax hsum' hcombine]

/-! ### flox's own engine -/

theorem runKnown_cohorts_flox (c : Call) (cs : List (List Nat × List Rat)) (floatData : Bool) (chunks : List Nat)
    (keys : List Key) (vals : List Val)
    (heng : c.eng = .flox) (harg : c.R.isArg = false)
    (hks : ∀ p ∈ c.R.chunk.zip c.R.interFills, floxAgreesAt p.1 p.2)
    (hz : ∀ p ∈ c.R.chunk.zip c.R.interFills, (p.1 = .nanlen ∨ p.1 = .nansumsq) → p.2 = Val.zero)
    (hlen : keys.length = vals.length)
    (hcombine : useGroupedCombine c floatData = false) :
    runKnown c (.cohorts cs) floatData chunks keys vals
      = runKnown c.withNpg (.cohorts cs) floatData chunks keys vals := by
  have hcombine' : useGroupedCombine c.withNpg floatData = false := hcombine
  rw [runKnown_cohorts_unfold c cs floatData chunks keys vals hcombine,
    runKnown_cohorts_unfold c.withNpg cs floatData chunks keys vals hcombine',
    blockStage_false_flox c chunks keys vals heng harg hks hz hlen]
  rfl

/-- **Plan F2 with flox's own engine** -/
theorem cohorts_eq_spec_flox (R : Resolved) (s : Shape) (c : Call) (n : Nat) (floatData : Bool)
    (chunks : List Nat) (codes : List Int) (vals : List Val) (cs : List (List Nat × List Rat))
    (hR : c.R = R) (heng : c.eng = .flox) (hn : c.ngroups = n) (hknown : c.knownLabels = true)
    (hshape : R.shape? = some s) (hlen : codes.length = vals.length)
    (hsound : CohortsSound chunks codes n cs)
    (H_absent : ∀ co ∈ cs, ∀ g : Nat, ((g : Nat) : Rat) ∈ co.2 → HAbsent R (members (Int.ofNat g) codes vals))
    (H_minmax : HMinMax R s)
    (H_fill : HCohortFill c R n cs)
    (hsum : chunks.sum = codes.length)
    (hcombine : useGroupedCombine c floatData = false) :
    runKnown c (.cohorts cs) floatData chunks (codeKeys codes) vals = specResult s.kernel R codes vals n := by
  have hs := (R.shape?_eq_some_iff s).mp hshape
  subst hR
  rw [runKnown_cohorts_flox c cs floatData chunks (codeKeys codes) vals heng hs.isArg hs.chunk_floxAgrees
    hs.chunk_zero (by simpa [codeKeys] using hlen) hcombine]
  exact cohorts_eq_spec c.R s c.withNpg n floatData chunks codes vals cs rfl rfl hn hknown hshape hlen
    hsound H_absent H_minmax H_fill hsum hcombine

/-! ### a decidable check of soundness (for concrete examples) -/

def cohortsSoundB (chunks : List Nat) (codes : List Int) (n : Nat) (cs : List (List Nat × List Rat)) : Bool :=
  decide (∀ co ∈ cs, ∀ ℓ ∈ co.2, ℓ.den = 1 ∧ 0 ≤ ℓ.num ∧ ℓ.num < (n : Int))
  && decide (∀ g ∈ List.range n, Int.ofNat g ∈ codes → ∃ co ∈ cs, ((g : Nat) : Rat) ∈ co.2)
  && decide (∀ co ∈ cs, co.1 ≠ [])
  && decide (∀ co ∈ cs, ∀ b ∈ co.1, b < chunks.length)
  && decide (∀ co ∈ cs, co.1.Pairwise (· < ·))
  && decide (∀ co ∈ cs, ∀ ℓ ∈ co.2, ∀ b ∈ List.range chunks.length,
      ℓ.num ∈ (splitBy chunks codes).getD b [] → b ∈ co.1)

theorem cohortsSound_of_check (chunks : List Nat) (codes : List Int) (n : Nat) (cs : List (List Nat × List Rat))
    (h : cohortsSoundB chunks codes n cs = true) : CohortsSound chunks codes n cs := by
  simp only [cohortsSoundB, Bool.and_eq_true, decide_eq_true_eq] at h
  obtain ⟨⟨⟨⟨⟨h1, h2⟩, h3⟩, h4⟩, h5⟩, h6⟩ := h
  refine ⟨?_, ?_, h3, h4, h5, ?_⟩
  · intro co hco ℓ hℓ
    obtain ⟨hd, h0, hn⟩ := h1 co hco ℓ hℓ
    refine ⟨ℓ.num.toNat, by omega, ?_⟩
    have hr : ((ℓ.num : Int) : Rat) = ℓ := Rat.ext rfl hd.symm
    have : ((ℓ.num.toNat : Nat) : Int) = ℓ.num := Int.toNat_of_nonneg h0
    rw [← Rat.intCast_natCast, this, hr]
  · intro g hg hc
    exact h2 g (List.mem_range.mpr hg) hc
  · intro co hco g hg b hb hmem
    have := h6 co hco _ hg b (List.mem_range.mpr hb)
    rw [num_natCast_rat] at this
    exact this hmem

end Flox
